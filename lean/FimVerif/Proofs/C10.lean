import FimVerif.Proofs.Lemmas.C10Dec
import FimVerif.Proofs.Lemmas.C10Hist
/-!
# C10 — slice validation accepts a topology exactly when the constraint tables allow it

`Validate.validate` (Model/Validate.lean) mirrors `Topology.validate` check by check; the
declarative side (`SpecOK`, `SvcOK`, `NstypeOK`, `NodeOK`, `InstOK`, `SpecFull`, `recordedSite`)
is in `Proofs/Lemmas/C10.lean`.  The constraint table is a parameter of every theorem in the
first section; the second section is about the table regenerated from the source
(`Gen.Constraints`) and compares it with the copy pinned *here*, so that an edit of the table in
the source that is not repeated in this file fails the build.

The full statement of the property is `validate_iff_specFull`:

    theorem validate_iff_specFull (t : Topo) : (validate genCfg t).1 = .ok () ↔ SpecFull genCfg t

It holds for the code as repaired (Facility nodes are validated too; components are looked up through the
node handle): the facts it rests on are regenerated from the code on every run - every node type reaches
`validate_constraints` (`gen_all_node_types_validated`), every property a row names can be read
(`gen_node_properties_seen`, `gen_service_properties_readable`), all four presence tests go by truthiness
(`gen_presence_by_truthiness`) and no constrained value class can be falsy (`gen_no_falsy_values`).  Each of
these has a `_counterexample` showing that the equivalence fails without it (the former known findings are
`skipped_type_counterexample` and `unseen_property_counterexample`).  `validate_iff_specFull_of` is the same
equivalence for every table and every set of code facts, under exactly those hypotheses.
-/
namespace FimVerif.C10
open FimVerif.Validate
open FimVerif.Gen.Constraints (SvcRow NodeRow)

/-! ## for every table -/

/-- `validate` succeeds exactly when the slice satisfies what the code enforces: the declarative
conjunction over the table `c` — every visible node meets its row, every service meets its row
(single-peer service ports, interface counts, owners, sites spanned, declared site, required and
forbidden properties, interface types), instances per site. -/
theorem validate_iff_spec (c : Cfg) (t : Topo) : (validate c t).1 = .ok () ↔ SpecOK c t :=
  validate_ok c t

/-- A successful validation changes nothing but the `site` of the services, and sets it to
`recordedSite` (characterised by the four lemmas below). -/
theorem site_recorded (c : Cfg) (t : Topo) (h : (validate c t).1 = .ok ()) :
    (validate c t).2 = { t with svcs := t.svcs.map (recordSite c) } :=
  validate_state c t h

/-- Failing or not, validation touches nothing but service sites. -/
theorem validate_touches_only_sites (c : Cfg) (t : Topo) :
    (validate c t).2.exp = t.exp ∧ (validate c t).2.nodes = t.nodes ∧
      (validate c t).2.svcs.map eraseSite = t.svcs.map eraseSite :=
  validate_frame c t

/-- Interfaces are counted by identity, not by name: relabelling the interfaces of the services with any
function `f` - also one that makes the names of two interfaces of one service coincide, as the derived
service-port names `<node>-<interface>` can - changes neither the verdict nor the recorded sites.
(`SpecOK` never mentions a name: `nifs`, the counts and the site set are taken over the list `s.ifs`.) -/
theorem validate_counts_by_identity (c : Cfg) (f : String → String) (t : Topo) :
    validate c (t.rename f) = ((validate c t).1, (validate c t).2.rename f) :=
  validate_rename c f t

/-- a declared site is kept -/
theorem recordedSite_declared (row : SvcRow) (s : Svc) (h : truthy s.site = true) :
    recordedSite row s = s.site := by
  simp [recordedSite, recordedSiteOf, h]

/-- a type without site limit never gets a site inferred -/
theorem recordedSite_unlimited (row : SvcRow) (s : Svc) (h : row.numSites = 0) :
    recordedSite row s = s.site := by
  simp [recordedSite, recordedSiteOf, h]

/-- a service of a site-limited type without declared site whose interfaces all sit in site `x` gets `x` -/
theorem recordedSite_inferred (row : SvcRow) (s : Svc) (x : String) (h0 : row.numSites ≠ 0)
    (hs : truthy s.site = false) (hne : nifs s ≠ []) (hall : ∀ i ∈ nifs s, i.owner = some x) :
    recordedSite row s = some x := by
  have hd : dedup ((nifs s).filterMap (·.owner)) = [x] := by
    apply (dedup_eq_singleton _ x).mpr
    constructor
    · cases hn : nifs s with
      | nil => exact absurd hn hne
      | cons i is =>
        have := hall i (by rw [hn]; simp)
        simp [this]
    · intro y hy
      obtain ⟨i, hi, hio⟩ := List.mem_filterMap.mp hy
      rw [hall i hi] at hio
      exact (Option.some.inj hio).symm
  simp [recordedSite, recordedSiteOf, h0, hs, hd]

/-- interfaces in two different sites: nothing is inferred -/
theorem recordedSite_multisite (row : SvcRow) (s : Svc) (i j : NIface) (x y : String)
    (hi : i ∈ nifs s) (hj : j ∈ nifs s) (hx : i.owner = some x) (hy : j.owner = some y) (hxy : x ≠ y) :
    recordedSite row s = s.site := by
  unfold recordedSite recordedSiteOf
  split
  · have hxm : x ∈ (nifs s).filterMap (·.owner) := List.mem_filterMap.mpr ⟨i, hi, hx⟩
    have hym : y ∈ (nifs s).filterMap (·.owner) := List.mem_filterMap.mpr ⟨j, hj, hy⟩
    split
    · rename_i z hz
      obtain ⟨_, hall⟩ := (dedup_eq_singleton _ z).mp hz
      exact absurd ((hall x hxm).trans (hall y hym).symm) hxy
    · rfl
  · rfl

/-- the site count used by `NstypeOK.maxSites` is the number of distinct owner sites -/
theorem siteCount_spec (xs : List String) : (dedup xs).Nodup ∧ ∀ y, y ∈ dedup xs ↔ y ∈ xs :=
  ⟨nodup_dedup xs, mem_dedup xs⟩

/-- The hypotheses under which what the code checks is what the property asks for, as one decidable record:
every node type is validated, every property a row names can be read, the four presence tests go by truthiness. -/
structure Faithful (c : Cfg) : Prop where
  allTypes : c.nodeTypesNotValidated = []
  nodeRead : ∀ kr ∈ c.node, ∀ p ∈ kr.2.req ++ kr.2.forb, nodeReadable c p = true
  svcRead : ∀ kr ∈ c.svc, ∀ p ∈ kr.2.req ++ kr.2.forb, p ∈ c.svcGetters ∧ p ∈ c.svcShallow
  truthy : c.svcReqTruthy = true ∧ c.svcForbTruthy = true ∧ c.nodeReqTruthy = true ∧ c.nodeForbTruthy = true

/-- every node meets its row in the code's terms iff it does in the property's terms -/
theorem nodes_ok_iff_full (c : Cfg) (t : Topo) (hf : Faithful c)
    (hhn : ∀ n ∈ t.nodes, ∀ q ∈ n.hollow, q ∉ c.nodeFalsyCapable) :
    (∀ n ∈ t.nodes, n.ty ∉ c.nodeTypesNotValidated → ∃ row, c.node.lookup n.ty = some row ∧ NodeOK c row n) ↔
    (∀ n ∈ t.nodes, ∃ row, c.node.lookup n.ty = some row ∧ NodeFull row n) := by
  have hv : ∀ n : Node, n.ty ∉ c.nodeTypesNotValidated := by
    intro n; rw [hf.allTypes]; exact List.not_mem_nil
  constructor
  · intro h n hn
    obtain ⟨row, hl, hk⟩ := h n hn (hv n)
    obtain ⟨kr, hkr, rfl⟩ := lookup_mem c.node n.ty row hl
    exact ⟨kr.2, hl, (nodeOK_iff_full c kr.2 n (hf.nodeRead kr hkr) hf.truthy.2.2.1 hf.truthy.2.2.2 (hhn n hn)).mp hk⟩
  · intro h n hn _
    obtain ⟨row, hl, hk⟩ := h n hn
    obtain ⟨kr, hkr, rfl⟩ := lookup_mem c.node n.ty row hl
    exact ⟨kr.2, hl, (nodeOK_iff_full c kr.2 n (hf.nodeRead kr hkr) hf.truthy.2.2.1 hf.truthy.2.2.2 (hhn n hn)).mpr hk⟩

/-- **For every table and every set of code facts**: if the code facts are faithful (`Faithful c`) and no hollow value in
the slice belongs to a class that can be falsy, validation succeeds exactly when the slice meets the full specification. -/
theorem validate_iff_specFull_of (c : Cfg) (t : Topo) (hf : Faithful c)
    (hhn : ∀ n ∈ t.nodes, ∀ q ∈ n.hollow, q ∉ c.nodeFalsyCapable)
    (hh : ∀ s ∈ t.svcs, ∀ q ∈ s.hollow, q ∉ c.svcFalsyCapable) :
    (validate c t).1 = .ok () ↔ SpecFull c t := by
  rw [validate_iff_spec]
  have hsv := svcs_ok_iff_full c t hf.svcRead hf.truthy.1 hf.truthy.2.1 hh
  have hnd := nodes_ok_iff_full c t hf hhn
  exact ⟨fun h => ⟨hnd.mp h.nodes, hsv.mp h.svcs, h.instances⟩, fun h => ⟨hnd.mpr h.nodes, hsv.mpr h.svcs, h.instances⟩⟩

/-- No valid slice is rejected: if every property the rows name is readable and the presence tests go by truthiness,
a slice that satisfies the full specification validates - whatever node types the code skips. -/
theorem valid_accepted_of (c : Cfg) (t : Topo)
    (hreq : ∀ kr ∈ c.node, ∀ p ∈ kr.2.req ++ kr.2.forb, nodeReadable c p = true)
    (hread : ∀ kr ∈ c.svc, ∀ p ∈ kr.2.req ++ kr.2.forb, p ∈ c.svcGetters ∧ p ∈ c.svcShallow)
    (hm : c.svcReqTruthy = true ∧ c.svcForbTruthy = true ∧ c.nodeReqTruthy = true ∧ c.nodeForbTruthy = true)
    (hhn : ∀ n ∈ t.nodes, ∀ q ∈ n.hollow, q ∉ c.nodeFalsyCapable)
    (hh : ∀ s ∈ t.svcs, ∀ q ∈ s.hollow, q ∉ c.svcFalsyCapable)
    (h : SpecFull c t) : (validate c t).1 = .ok () := by
  rw [validate_iff_spec]
  refine ⟨fun n hn _ => ?_, (svcs_ok_iff_full c t hread hm.1 hm.2.1 hh).mpr h.svcs, h.instances⟩
  obtain ⟨row, hl, hk⟩ := h.nodes n hn
  obtain ⟨kr, hkr, rfl⟩ := lookup_mem c.node n.ty row hl
  exact ⟨kr.2, hl, (nodeOK_iff_full c kr.2 n (hreq kr hkr) hm.2.2.1 hm.2.2.2 (hhn n hn)).mpr hk⟩

/-- Validation never crashes on a well-formed table: if every property the service rows name is
readable, no row limits instances (the shipped situation) and every element's type has a row, then
every failure is a `TopologyException`. -/
theorem validate_rejects_with_topology_of (c : Cfg) (t : Topo) (e : Err)
    (hg : ∀ kr ∈ c.svc, ∀ p ∈ kr.2.req ++ kr.2.forb, p ∈ c.svcGetters)
    (h0 : ∀ kr ∈ c.svc, kr.2.numInst = 0)
    (hn : ∀ n ∈ t.nodes, (c.node.lookup n.ty).isSome) (hs : ∀ s ∈ t.svcs, (c.svc.lookup s.ty).isSome)
    (h : (validate c t).1 = .error e) : e = .topology :=
  validate_error c t e hg h0 hn hs h

/-! ### connecting an interface -/

theorem guardrails_refuses_iff (c : Cfg) (ty kind : String) :
    guardrails c ty kind = .error .topology ↔ (ty, kind) ∈ c.guardPairs := by
  unfold guardrails
  by_cases h : c.guardPairs.contains (ty, kind) = true
  · simp only [h, if_true, true_iff]; simpa using h
  · simp only [h, Bool.false_eq_true, if_false, reduceCtorEq, false_iff]; simpa using h

/-- Wherever the guardrails run, attaching succeeds exactly when the pair is not in the guardrail
table, the interface belongs to a node and is not connected yet. -/
theorem connect_iff (c : Cfg) (viaCtor : Bool) (ty kind : String) (own conn : Bool)
    (hg : ((viaCtor && c.ctorRunsGuardrails) || c.connectRunsGuardrails) = true) :
    connect c viaCtor ty kind own conn = .ok () ↔ (ty, kind) ∉ c.guardPairs ∧ own = true ∧ conn = false := by
  unfold connect
  rw [if_pos hg]
  unfold guardrails
  by_cases h : c.guardPairs.contains (ty, kind) = true
  · have hm : (ty, kind) ∈ c.guardPairs := by simpa using h
    simp [hm]
  · have hm : (ty, kind) ∉ c.guardPairs := by simpa using h
    simp only [h, Bool.false_eq_true, if_false, hm, not_false_eq_true, true_and]
    cases own <;> cases conn <;> simp

/-! ## the table in the source -/

/-- The pinned copy of `NetworkServiceSliver.ServiceConstraints`. -/
def pinnedSvc : List (String × SvcRow) := [
  ("P4", { layer := "L2", minIfs := 1, numIfs := 0, numSites := 1, numInst := 0, req := [], forb := ["mirror_port", "mirror_vlan", "mirror_direction"], ifTypes := [] }),
  ("MPLS", { layer := "L2", minIfs := 1, numIfs := 0, numSites := 1, numInst := 0, req := [], forb := ["mirror_port", "mirror_vlan", "mirror_direction", "controller_url"], ifTypes := [] }),
  ("OVS", { layer := "L2", minIfs := 1, numIfs := 0, numSites := 1, numInst := 0, req := [], forb := ["mirror_port", "mirror_vlan", "mirror_direction"], ifTypes := [] }),
  ("L2Path", { layer := "L2", minIfs := 1, numIfs := 2, numSites := 2, numInst := 0, req := [], forb := ["mirror_port", "mirror_vlan", "mirror_direction", "controller_url"], ifTypes := [] }),
  ("L2STS", { layer := "L2", minIfs := 2, numIfs := 0, numSites := 2, numInst := 0, req := [], forb := ["mirror_port", "mirror_vlan", "mirror_direction", "controller_url", "ero"], ifTypes := [] }),
  ("L2PTP", { layer := "L2", minIfs := 2, numIfs := 2, numSites := 2, numInst := 0, req := [], forb := ["mirror_port", "mirror_vlan", "mirror_direction", "controller_url"], ifTypes := ["DedicatedPort", "FacilityPort", "SubInterface"] }),
  ("L2Multisite", { layer := "L2", minIfs := 1, numIfs := 0, numSites := 0, numInst := 0, req := [], forb := ["mirror_port", "mirror_vlan", "mirror_direction", "controller_url"], ifTypes := [] }),
  ("L2Bridge", { layer := "L2", minIfs := 1, numIfs := 0, numSites := 1, numInst := 0, req := [], forb := ["mirror_port", "mirror_vlan", "mirror_direction", "controller_url"], ifTypes := [] }),
  ("FABNetv4", { layer := "L3", minIfs := 1, numIfs := 0, numSites := 1, numInst := 0, req := [], forb := ["mirror_port", "mirror_vlan", "mirror_direction", "controller_url"], ifTypes := [] }),
  ("FABNetv6", { layer := "L3", minIfs := 1, numIfs := 0, numSites := 1, numInst := 0, req := [], forb := ["mirror_port", "mirror_vlan", "mirror_direction", "controller_url"], ifTypes := [] }),
  ("PortMirror", { layer := "L2", minIfs := 1, numIfs := 1, numSites := 1, numInst := 0, req := ["mirror_port", "mirror_direction", "site"], forb := ["controller_url"], ifTypes := [] }),
  ("L3VPN", { layer := "L3", minIfs := 1, numIfs := 0, numSites := 0, numInst := 0, req := [], forb := ["mirror_port", "mirror_vlan", "mirror_direction", "controller_url"], ifTypes := [] }),
  ("VLAN", { layer := "L2", minIfs := 1, numIfs := 0, numSites := 1, numInst := 0, req := [], forb := ["mirror_port", "mirror_vlan", "mirror_direction", "controller_url"], ifTypes := [] }),
  ("FABNetv4Ext", { layer := "L3", minIfs := 1, numIfs := 0, numSites := 1, numInst := 0, req := [], forb := ["mirror_port", "mirror_vlan", "mirror_direction", "controller_url"], ifTypes := [] }),
  ("FABNetv6Ext", { layer := "L3", minIfs := 1, numIfs := 0, numSites := 1, numInst := 0, req := [], forb := ["mirror_port", "mirror_vlan", "mirror_direction", "controller_url"], ifTypes := [] })]

/-- The pinned copy of `NodeSliver.NodeConstraints`. -/
def pinnedNode : List (String × NodeRow) := [
  ("Server", { req := ["site"], forb := [] }),
  ("VM", { req := ["site"], forb := [] }),
  ("Container", { req := ["site"], forb := [] }),
  ("Switch", { req := [], forb := ["attached_components_info", "image_type", "image_ref"] }),
  ("NAS", { req := [], forb := ["attached_components_info", "image_type", "image_ref"] }),
  ("Facility", { req := [], forb := ["attached_components_info", "image_type", "image_ref", "management_ip"] })]

/-- The pinned copy of `NetworkLinkSliver.LinkConstraints` (type, layer, num_interfaces). -/
def pinnedLink : List (String × String × Nat) := [("Patch", "L2", 2), ("L1Path", "L1", 2), ("L2Path", "L2", 0)]

/-- The pinned guardrail pairs. -/
def pinnedGuard : List (String × String) := [("L2PTP", "SharedPort")]

theorem svc_table_pinned : Gen.Constraints.svcRows = pinnedSvc := by decide
theorem node_table_pinned : Gen.Constraints.nodeRows = pinnedNode := by decide
theorem link_table_pinned : Gen.Constraints.linkRows = pinnedLink := by decide
theorem guard_table_pinned : Gen.Constraints.guardPairs = pinnedGuard := by decide
theorem no_limit_pinned : Gen.Constraints.noLimit = 0 := by decide

/-- every enum member has a row, and only enum members have one -/
theorem tables_complete :
    Gen.Constraints.svcRows.map (·.1) = Gen.Constraints.serviceTypes ∧
    Gen.Constraints.nodeRows.map (·.1) = Gen.Constraints.nodeTypes ∧
    Gen.Constraints.linkRows.map (·.1) = Gen.Constraints.linkTypes := by decide

/-- every property a service row names can be read from the shallow service sliver
(so `validate` never fails with `AttributeError` on the shipped table) -/
theorem gen_service_properties_readable :
    ∀ kr ∈ genCfg.svc, ∀ p ∈ kr.2.req ++ kr.2.forb, p ∈ genCfg.svcGetters ∧ p ∈ genCfg.svcShallow := by decide

/-- no constrained service property has a value class that can be falsy while set (no `__len__`/`__bool__` on ERO,
PathInfo, Gateway, ... - regenerated from the live classes): the validator's truthiness tests therefore see exactly
whether a property is set.  A class gaining `__len__` turns this theorem false and the check searches hollow values. -/
theorem gen_no_falsy_values : genCfg.svcFalsyCapable = [] := by decide

/-- every member of every enum-valued service property (mirror direction: both, receive only, transmit only) reads back from
a fresh handle as the member that was set (observed on scratch topologies on every run): "set" in `Svc.props` therefore means
set to whichever valid value, not only to the common one.  A parser that loses a rare member turns this theorem false and the
check searches services carrying each member. -/
theorem gen_every_value_readable : Gen.Constraints.svcValuesLost = [] := by decide

theorem gen_hollow_harmless (t : Topo) : ∀ s ∈ t.svcs, ∀ q ∈ s.hollow, q ∉ genCfg.svcFalsyCapable := by
  intro s _ q _; rw [gen_no_falsy_values]; exact List.not_mem_nil

/-- ... nor has any constrained node property -/
theorem gen_no_falsy_node_values : genCfg.nodeFalsyCapable = [] := by decide

theorem gen_node_hollow_harmless (t : Topo) : ∀ n ∈ t.nodes, ∀ q ∈ n.hollow, q ∉ genCfg.nodeFalsyCapable := by
  intro n _ q _; rw [gen_no_falsy_node_values]; exact List.not_mem_nil

/-- every *required* node property is readable from the shallow sliver -/
theorem gen_node_required_readable :
    ∀ kr ∈ genCfg.node, ∀ p ∈ kr.2.req, p ∈ genCfg.nodeGetters ∧ p ∈ genCfg.nodeShallow := by decide

/-- every property a node row names - required or forbidden - is seen by `Node.validate_constraints` when it is set (observed
on the code by the translator's probes: through the shallow sliver, or through the node handle for components) -/
theorem gen_node_properties_seen :
    ∀ kr ∈ genCfg.node, ∀ p ∈ kr.2.req ++ kr.2.forb, nodeReadable genCfg p = true := by decide

/-- `Topology.validate` hands nodes of every type to `validate_constraints` (observed: also the Facility nodes that the
`nodes` view leaves out) -/
theorem gen_all_node_types_validated : genCfg.nodeTypesNotValidated = [] := by decide

/-- all four check loops decide "set" by the truthiness of the value: an empty string is not set (observed) -/
theorem gen_presence_by_truthiness :
    genCfg.svcReqTruthy = true ∧ genCfg.svcForbTruthy = true ∧ genCfg.nodeReqTruthy = true ∧ genCfg.nodeForbTruthy = true := by decide

/-- the interface-count limits apply to experiment topologies only (observed) -/
theorem gen_iface_count_class : Gen.Constraints.ifaceCountTopologyClass = "ExperimentTopology" := by decide

/-- the code facts regenerated from the source are faithful -/
theorem gen_faithful : Faithful genCfg :=
  ⟨gen_all_node_types_validated, gen_node_properties_seen, gen_service_properties_readable, gen_presence_by_truthiness⟩

/-- the interface types the rows name, and the guardrail pairs, are enum members -/
theorem gen_names_are_members :
    (∀ kr ∈ genCfg.svc, ∀ k ∈ kr.2.ifTypes, k ∈ Gen.Constraints.interfaceTypes) ∧
    (∀ g ∈ genCfg.guardPairs, g.1 ∈ Gen.Constraints.serviceTypes ∧ g.2 ∈ Gen.Constraints.interfaceTypes) := by decide

/-- no shipped row limits instances per site, so the third clause of `SpecOK` is void for `genCfg` -/
theorem gen_no_instance_limit : ∀ kr ∈ genCfg.svc, kr.2.numInst = 0 := by decide

theorem gen_instances_void (svcs : List Svc) : InstOK genCfg svcs := by
  have h0 : ∀ ty, instLimit genCfg ty = 0 := by
    intro ty
    unfold instLimit
    cases hl : genCfg.svc.lookup ty with
    | none => rfl
    | some row =>
      obtain ⟨kr, hkr, rfl⟩ := lookup_mem genCfg.svc ty row hl
      exact gen_no_instance_limit kr hkr
  exact ⟨fun s _ h => absurd (h0 s.ty) h, fun s _ h => absurd (h0 s.ty) h⟩

/-- For the shipped table the instance clause is void: `validate` succeeds exactly when every visible
node and every service meets its row. -/
theorem validate_iff_spec_gen (t : Topo) : (validate genCfg t).1 = .ok () ↔
    (∀ n ∈ t.nodes, n.ty ∉ genCfg.nodeTypesNotValidated → ∃ row, genCfg.node.lookup n.ty = some row ∧ NodeOK genCfg row n) ∧
    (∀ s ∈ t.svcs, ∃ row, genCfg.svc.lookup s.ty = some row ∧ SvcOK genCfg t.exp row s) := by
  rw [validate_iff_spec]
  exact ⟨fun h => ⟨h.nodes, h.svcs⟩, fun h => ⟨h.1, h.2, gen_instances_void _⟩⟩

/-- A slice over the library's node and service types is accepted or rejected with
`TopologyException`; validation does not crash (shipped table). -/
theorem validate_rejects_with_topology (t : Topo) (e : Err)
    (hn : ∀ n ∈ t.nodes, n.ty ∈ Gen.Constraints.nodeTypes) (hs : ∀ s ∈ t.svcs, s.ty ∈ Gen.Constraints.serviceTypes)
    (h : (validate genCfg t).1 = .error e) : e = .topology := by
  have h1 : ∀ ty ∈ Gen.Constraints.nodeTypes, (genCfg.node.lookup ty).isSome = true := by decide
  have h2 : ∀ ty ∈ Gen.Constraints.serviceTypes, (genCfg.svc.lookup ty).isSome = true := by decide
  exact validate_rejects_with_topology_of genCfg t e
    (fun kr hkr p hp => (gen_service_properties_readable kr hkr p hp).1) gen_no_instance_limit
    (fun n hn' => h1 n.ty (hn n hn')) (fun s hs' => h2 s.ty (hs s hs')) h

/-- **The property, in full, for the shipped tables and the code as it is**: validation succeeds exactly when every node and
every service of the slice meets its row - minimum and maximum number of interfaces, sites spanned, agreement of a declared
site with the connected nodes, required and forbidden properties (set or not set, whatever the stored value's truthiness),
permitted interface types, single-peer service ports. -/
theorem validate_iff_specFull (t : Topo) : (validate genCfg t).1 = .ok () ↔ SpecFull genCfg t :=
  validate_iff_specFull_of genCfg t gen_faithful (gen_node_hollow_harmless t) (gen_hollow_harmless t)

/-- No valid slice is rejected (shipped table). -/
theorem valid_accepted (t : Topo) (h : SpecFull genCfg t) : (validate genCfg t).1 = .ok () :=
  (validate_iff_specFull t).mpr h

/-- **Services, shipped table and classes: nothing invalid is accepted.**  Whatever the nodes are, a slice that validates
has every service meeting its row in the property's own terms (`SvcFull`: required properties set, forbidden properties
not set - whatever the Python truthiness of the stored object). -/
theorem services_full_of_valid (t : Topo) (h : (validate genCfg t).1 = .ok ()) :
    ∀ s ∈ t.svcs, ∃ row, genCfg.svc.lookup s.ty = some row ∧ SvcFull t.exp row s :=
  ((validate_iff_specFull t).mp h).svcs

/-- **Nodes, shipped table and classes: nothing invalid is accepted** - every node of a slice that validates, of whatever
type, meets its row in the property's own terms (`NodeFull`: required properties set, forbidden ones - components
included - not set). -/
theorem nodes_full_of_valid (t : Topo) (h : (validate genCfg t).1 = .ok ()) :
    ∀ n ∈ t.nodes, ∃ row, genCfg.node.lookup n.ty = some row ∧ NodeFull row n :=
  ((validate_iff_specFull t).mp h).nodes

/-- Why `gen_all_node_types_validated` is an obligation (the former finding, repaired in the code): were `validate` to walk
only the `nodes` view, which leaves Facility nodes out, a Facility node with an image would validate. -/
theorem skipped_type_counterexample :
    ∃ t, (validate { genCfg with nodeTypesNotValidated := ["Facility"] } t).1 = .ok () ∧
      ¬ SpecFull { genCfg with nodeTypesNotValidated := ["Facility"] } t :=
  ⟨{ exp := true, nodes := [{ ty := "Facility", props := ["site", "image_ref", "image_type"] }], svcs := [] }, by decide, by decide⟩

/-- ... and with the code as it is that slice is refused -/
example : (validate genCfg { exp := true, nodes := [{ ty := "Facility", props := ["site", "image_ref", "image_type"] }], svcs := [] }).1
    = .error .topology := by decide

/-- Why `gen_node_properties_seen` is an obligation (the former finding, repaired in the code): were components looked for on
the shallow sliver only, which has no getter for them, a Switch with a component would validate. -/
theorem unseen_property_counterexample :
    ∃ t, (validate { genCfg with nodeViaHandle := [] } t).1 = .ok () ∧ ¬ SpecFull { genCfg with nodeViaHandle := [] } t :=
  ⟨{ exp := true, nodes := [{ ty := "Switch", props := ["site", "attached_components_info"] }], svcs := [] }, by decide, by decide⟩

example : (validate genCfg { exp := true, nodes := [{ ty := "Switch", props := ["site", "attached_components_info"] }], svcs := [] }).1
    = .error .topology := by decide

/-- Why `gen_presence_by_truthiness` is an obligation: were the node checks to test `is not None`, a VM whose site is the
empty string would validate (and a Switch whose image_ref is the empty string would be refused). -/
theorem blank_value_counterexample :
    ∃ t, (validate { genCfg with nodeReqTruthy := false } t).1 = .ok () ∧ ¬ SpecFull { genCfg with nodeReqTruthy := false } t :=
  ⟨{ exp := true, nodes := [{ ty := "VM", props := [], blank := ["site"] }], svcs := [] }, by decide, by decide⟩

example : (validate genCfg { exp := true, nodes := [{ ty := "VM", props := [], blank := ["site"] }], svcs := [] }).1 = .error .topology := by decide
example : (validate { genCfg with nodeForbTruthy := false }
    { exp := true, nodes := [{ ty := "Switch", props := ["site"], blank := ["image_ref"] }], svcs := [] }).1 = .error .topology := by decide
example : (validate genCfg { exp := true, nodes := [{ ty := "Switch", props := ["site"], blank := ["image_ref"] }], svcs := [] }).1 = .ok () := by decide

/-- ... and the node analogue of `falsy_value_counterexample`: were the class of `management_ip` values to define `__bool__`,
a Facility carrying a hollow address would validate although `management_ip` is forbidden. -/
theorem falsy_node_value_counterexample :
    ∃ t, (validate { genCfg with nodeFalsyCapable := ["management_ip"] } t).1 = .ok () ∧
      ¬ SpecFull { genCfg with nodeFalsyCapable := ["management_ip"] } t :=
  ⟨{ exp := true, nodes := [{ ty := "Facility", props := ["site", "management_ip"], hollow := ["management_ip"] }], svcs := [] },
    by decide, by decide⟩

/-- Why `gen_no_falsy_values` is an obligation and not a remark: were the class of `ero` values to define `__len__`
(a graph-reference ERO then being falsy), an L2STS carrying such an ERO would validate although `ero` is forbidden. -/
theorem falsy_value_counterexample :
    ∃ t, (validate { genCfg with svcFalsyCapable := ["ero"] } t).1 = .ok () ∧
      ¬ SpecFull { genCfg with svcFalsyCapable := ["ero"] } t :=
  ⟨{ exp := true, nodes := [], svcs := [⟨"L2STS", none, ["ero"], none,
      [.port "n0-p0" (some [⟨"DedicatedPort", some "RENC"⟩]), .port "n1-p0" (some [⟨"SharedPort", some "UKY"⟩])], ["ero"], []⟩] },
    by decide, by decide⟩

/-- ... and with the classes as they are the same slice is refused -/
example : (validate genCfg { exp := true, nodes := [], svcs := [⟨"L2STS", none, ["ero"], none,
      [.port "n0-p0" (some [⟨"DedicatedPort", some "RENC"⟩]), .port "n1-p0" (some [⟨"SharedPort", some "UKY"⟩])], ["ero"], []⟩] }).1
    = .error .topology := by decide

/-- The guardrails run on both ways of attaching an interface (constructor list, `connect_interface`). -/
theorem gen_guardrails_everywhere (viaCtor : Bool) :
    ((viaCtor && genCfg.ctorRunsGuardrails) || genCfg.connectRunsGuardrails) = true := by
  cases viaCtor <;> decide

/-- Connecting an interface is refused at once exactly for the pinned unsupported combinations
(and for an interface without owner node or one that is already connected). -/
theorem guardrail_iff (viaCtor : Bool) (ty kind : String) (own conn : Bool) :
    connect genCfg viaCtor ty kind own conn = .ok () ↔ (ty, kind) ∉ pinnedGuard ∧ own = true ∧ conn = false := by
  rw [connect_iff genCfg viaCtor ty kind own conn (gen_guardrails_everywhere viaCtor)]
  show (ty, kind) ∉ Gen.Constraints.guardPairs ∧ _ ↔ _
  rw [guard_table_pinned]

/-- What the guardrails refuse, `validate` would refuse too: the row of the service type names
permitted interface types and the interface type is not among them. -/
theorem guardrail_sound :
    (genCfg.guardPairs.all fun g => (genCfg.svc.lookup g.1).any fun row =>
      !row.ifTypes.isEmpty && !row.ifTypes.contains g.2) = true := by decide

/-! ## histories: the verdict depends on the slice as it is

`Hist` (Model/ValidateHist.lean) models the calls that make and change a slice; `Hist.abs σ` is what `validate` sees. -/

section histories
open FimVerif.Validate.Hist

/-- **The order in which a service lists its interfaces - the order in which they were connected - does not matter**: for
any way `f` of permuting interface lists, validation succeeds on the reordered slice iff it does on the original, and records
the same sites. -/
theorem interface_order_irrelevant (c : Cfg) (f : List SIface → List SIface) (hf : ∀ l, (f l).Perm l) (t : Topo) :
    ((validate c (t.reorder f)).1 = .ok () ↔ (validate c t).1 = .ok ()) ∧
    ((validate c t).1 = .ok () → (validate c (t.reorder f)).2 = (validate c t).2.reorder f) :=
  ⟨validate_reorder_ok f hf c t, validate_reorder_state f hf c t⟩

/-- ... and for the shipped table the verdict is the same altogether (also when it is a refusal) -/
theorem interface_order_irrelevant_gen (f : List SIface → List SIface) (hf : ∀ l, (f l).Perm l) (t : Topo)
    (hn : ∀ n ∈ t.nodes, n.ty ∈ Gen.Constraints.nodeTypes) (hs : ∀ s ∈ t.svcs, s.ty ∈ Gen.Constraints.serviceTypes) :
    (validate genCfg (t.reorder f)).1 = (validate genCfg t).1 := by
  have hs' : ∀ s ∈ (t.reorder f).svcs, s.ty ∈ Gen.Constraints.serviceTypes := by
    intro s h
    obtain ⟨s0, h0, rfl⟩ := List.mem_map.mp h
    exact hs s0 h0
  have hiff := validate_reorder_ok f hf genCfg t
  cases h1 : (validate genCfg t).1 with
  | ok u => exact hiff.mpr h1
  | error e =>
    have e1 := validate_rejects_with_topology t e hn hs h1
    cases h2 : (validate genCfg (t.reorder f)).1 with
    | ok u => rw [hiff.mp h2] at h1; cases h1
    | error e' => rw [validate_rejects_with_topology (t.reorder f) e' hn hs' h2, e1]

/-- **Validate, then validate again**: validating a slice that has just been validated succeeds again and changes nothing
(the sites recorded the first time are the ones inferred the second time). -/
theorem validate_twice (c : Cfg) (t : Topo) (h : (validate c t).1 = .ok ()) :
    validate c (validate c t).2 = (.ok (), (validate c t).2) :=
  validate_idem c t h

/-- the verdict is a function of the slice with all interface names forgotten -/
theorem verdict_of_eraseNames (c : Cfg) (t t' : Topo) (h : eraseNames t = eraseNames t') :
    (validate c t).1 = (validate c t').1 := by
  have a := validate_counts_by_identity c (fun _ => "") t
  have b := validate_counts_by_identity c (fun _ => "") t'
  have : (validate c (t.rename fun _ => "")).1 = (validate c (t'.rename fun _ => "")).1 := by
    show (validate c (eraseNames t)).1 = (validate c (eraseNames t')).1
    rw [h]
  rw [a, b] at this
  exact this

/-- **The `validate` call of a history is `Validate.validate` on the slice as it is** (`Hist.abs`): same verdict, and the slice
afterwards - seen through `abs` - is the topology `validate` returns, also when it fails.  Every theorem about `validate`
above therefore speaks about every point of every history. -/
theorem history_validate (c : Cfg) (σ : Slice) :
    (step c σ .validate).1 = (validate c (abs σ)).1 ∧ abs (step c σ .validate).2 = (validate c (abs σ)).2 :=
  abs_validateStep c σ

/-- validate, validate: the second call succeeds and leaves the slice as it is -/
theorem history_validate_twice (c : Cfg) (σ : Slice) (h : (step c σ .validate).1 = .ok ()) :
    (step c (step c σ .validate).2 .validate).1 = .ok () ∧
    abs (step c (step c σ .validate).2 .validate).2 = abs (step c σ .validate).2 := by
  obtain ⟨h1, h2⟩ := history_validate c σ
  obtain ⟨h3, h4⟩ := history_validate c (step c σ .validate).2
  rw [h1] at h
  have hi := validate_twice c (abs σ) h
  rw [h3, h4, h2, hi]
  exact ⟨rfl, rfl⟩

/-- **connect, then disconnect again, leaves no trace**: whatever else is connected, the slice is as it was. -/
theorem history_connect_disconnect (c : Cfg) (σ : Slice) (svc : String) (i : Nat) (h : (connect c σ svc i).1 = .ok ()) :
    abs (disconnect (connect c σ svc i).2 i).2 = abs σ :=
  (abs_connect_disconnect c σ svc i h).2

/-- **Independent connects commute**: two interfaces connected to two services in either order - the same calls are
refused, the same slice results. -/
theorem history_connect_order (c : Cfg) (σ : Slice) (a b : String) (i j : Nat) (hab : a ≠ b) (hij : i ≠ j) :
    (connect c (connect c σ a i).2 b j).1 = (connect c σ b j).1 ∧
    (connect c (connect c σ b j).2 a i).1 = (connect c σ a i).1 ∧
    abs (connect c (connect c σ a i).2 b j).2 = abs (connect c (connect c σ b j).2 a i).2 :=
  connect_comm c σ a b i j hab hij

/-- **Names are labels**: renaming a node changes nothing `validate` sees; renaming an interface changes names only; and a
connect made after a node was renamed - its service port gets another derived name - gives the same verdict as without. -/
theorem history_rename (c : Cfg) (σ : Slice) (n : Nat) (l svc : String) (i : Nat) :
    abs (renameNode σ n l) = abs σ ∧
    (validate c (abs (renameIface σ i l))).1 = (validate c (abs σ)).1 ∧
    (connect c (renameNode σ n l) svc i).1 = (connect c σ svc i).1 ∧
    (validate c (abs (connect c (renameNode σ n l) svc i).2)).1 = (validate c (abs (connect c σ svc i).2)).1 :=
  ⟨abs_renameNode σ n l, verdict_of_eraseNames c _ _ (abs_renameIface σ i l), (connect_renameNode c σ n l svc i).1,
    verdict_of_eraseNames c _ _ (connect_renameNode c σ n l svc i).2⟩

/-- two nodes at RENC and UKY with one port each, and a free-standing service of the given type -/
def exSlice (ty : String) (extra : List HSvc := []) : Slice :=
  { exp := true,
    nodes := [{ id := 0, label := "n0", ty := "VM", site := "RENC", props := [], hollow := [], blank := [], comps := [] },
              { id := 1, label := "n1", ty := "VM", site := "UKY", props := [], hollow := [], blank := [], comps := [] }],
    ifaces := [{ id := 0, label := "p0", kind := "DedicatedPort", node := 0, comp := none },
               { id := 1, label := "p0", kind := "DedicatedPort", node := 1, comp := none },
               { id := 2, label := "p1", kind := "DedicatedPort", node := 0, comp := none },
               { id := 3, label := "p1", kind := "DedicatedPort", node := 1, comp := none }],
    owned := [{ label := "n0-g0", ty := "OVS", site := none, node := 0, comp := none, ifs := [0, 2] },
              { label := "n1-g0", ty := "OVS", site := none, node := 1, comp := none, ifs := [1, 3] }],
    svcs := { label := "svc0", ty := ty, site := none, props := [], hollow := [], blank := [], ports := [] } :: extra,
    next := 0 }

/-- Known finding `C10:history:site-pinned:multi-site-type` (the code as it is): `validate` writes the inferred site also on
a service whose type may span two sites; the same two connects validate when made in one go and are refused when a
`validate` came in between. -/
theorem validate_pins_multisite_counterexample :
    (run genCfg (exSlice "L2Path") [.connect "svc0" 0, .connect "svc0" 1, .validate]).1 = [.ok (), .ok (), .ok ()] ∧
    (run genCfg (exSlice "L2Path") [.connect "svc0" 0, .validate, .connect "svc0" 1, .validate]).1 =
      [.ok (), .ok (), .ok (), .error .topology] := by decide

/-- Known finding `C10:history:site-pinned:failed-validate` (the code as it is): a validation that fails (the bridge spans two
sites) has already written the inferred site on the service checked before it; repaired and moved, the slice is refused
although the same slice made without the failed validation is accepted. -/
theorem failed_validate_leaves_site_counterexample :
    (run genCfg (exSlice "P4" [{ label := "svc1", ty := "L2Bridge", site := none, props := [], hollow := [], blank := [], ports := [] }])
      [.connect "svc0" 0, .connect "svc1" 2, .connect "svc1" 3, .validate,
       .disconnect 3, .disconnect 0, .connect "svc0" 1, .validate]).1 =
      [.ok (), .ok (), .ok (), .error .topology, .ok (), .ok (), .ok (), .error .topology] ∧
    (run genCfg (exSlice "P4" [{ label := "svc1", ty := "L2Bridge", site := none, props := [], hollow := [], blank := [], ports := [] }])
      [.connect "svc1" 2, .connect "svc0" 1, .validate]).1 = [.ok (), .ok (), .ok ()] := by decide

/-- what the property does say a validation records - the site of a single-site service - binds afterwards: an L2Bridge
validated at RENC and moved to UKY is refused (the recorded site is part of the slice as it is) -/
example : (run genCfg (exSlice "L2Bridge") [.connect "svc0" 0, .validate, .disconnect 0, .connect "svc0" 1, .validate]).1 =
    [.ok (), .ok (), .ok (), .ok (), .error .topology] := by decide

/-- non-vacuity of `history_connect_disconnect` / `history_connect_order`: the connects below are accepted -/
example : (connect genCfg (exSlice "L2Bridge") "svc0" 0).1 = .ok () := by decide

end histories

/-! ### non-vacuity -/

def exSts : Topo := { exp := true, nodes := [{ ty := "VM", props := ["site"] }, { ty := "VM", props := ["site"] }], svcs := [⟨"L2STS", none, [], none, [.port "n0-p0" (some [⟨"DedicatedPort", some "RENC"⟩]), .port "n1-p0" (some [⟨"SharedPort", some "UKY"⟩])], [], []⟩] }
def exBridge (site : Option String) : Topo := { exp := true, nodes := [], svcs := [⟨"L2Bridge", site, [], none, [.port "n0-p0" (some [⟨"SharedPort", some "RENC"⟩])], [], []⟩] }
def exThree : Topo := { exp := true, nodes := [], svcs := [⟨"L2STS", none, [], none, [.port "n1-x-p0" (some [⟨"SharedPort", some "A"⟩]), .port "n1-x-p0" (some [⟨"SharedPort", some "B"⟩]), .port "n1-x-p0" (some [⟨"SharedPort", some "C"⟩])], [], []⟩] }
/-- a two-site L2STS between two NIC ports validates … -/
example : (validate genCfg exSts).1 = .ok () := by decide
/-- … an L2Bridge gets its site recorded … -/
example : ((validate genCfg (exBridge none)).2.svcs.map (·.site)) = [some "RENC"] := by decide
/-- … a declared site that disagrees is refused, and so is a third site. -/
example : (validate genCfg (exBridge (some "UKY"))).1 = .error .topology := by decide
example : (validate genCfg exThree).1 = .error .topology := by decide
/-- three interfaces, two of them with the same name (`n1` + `nic-aa-p1`, `n1-nic` + `aa-p1`): the name-keyed view has two
entries, but an L2PTP with them is over its limit of 2 and a two-interface L2STS with like-named ports is valid -/
def exPtpNames : Topo := { exp := true, nodes := [], svcs := [⟨"L2PTP", none, [], none, [.port "n1-nic-aa-p1" (some [⟨"DedicatedPort", some "RENC"⟩]), .port "n1-nic-aa-p1" (some [⟨"DedicatedPort", some "UKY"⟩]), .port "n3-nic1-p1" (some [⟨"DedicatedPort", some "UKY"⟩])], [], []⟩] }
def exStsNames : Topo := { exp := true, nodes := [], svcs := [⟨"L2STS", none, [], none, [.port "n1-nic-aa-p1" (some [⟨"DedicatedPort", some "RENC"⟩]), .port "n1-nic-aa-p1" (some [⟨"DedicatedPort", some "UKY"⟩])], [], []⟩] }
example : (exPtpNames.svcs.map (·.interfaceNames.length)) = [2] := by decide
example : (validate genCfg exPtpNames).1 = .error .topology := by decide
example : (validate genCfg exStsNames).1 = .ok () := by decide
/-- `Faithful` is satisfiable (`gen_faithful`), and a slice with hollow and blank values meets the hypotheses of
`validate_iff_specFull_of` -/
example : (∀ n ∈ [({ ty := "VM", props := ["site", "image_ref"], hollow := ["image_ref"], blank := ["image_type"] } : Node)],
    ∀ q ∈ n.hollow, q ∉ genCfg.nodeFalsyCapable) := by decide
example : connect genCfg false "L2PTP" "SharedPort" true false = .error .topology := by decide
example : connect genCfg false "L2PTP" "DedicatedPort" true false = .ok () := by decide

end FimVerif.C10
