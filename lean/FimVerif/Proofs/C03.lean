import FimVerif.Proofs.Lemmas.C03Class
import FimVerif.Proofs.Lemmas.C03Small
import FimVerif.Proofs.Lemmas.C03Gateway
import FimVerif.Proofs.Lemmas.C03Hist
import FimVerif.Proofs.Lemmas.C03Iso
import FimVerif.Proofs.Lemmas.C03Text
import FimVerif.Proofs.Lemmas.C03Fail
import FimVerif.Generated.Fields
import FimVerif.Proofs.Lemmas.C03Phase
import FimVerif.Generated.MiPhase
import FimVerif.Model.CodecShared
import FimVerif.Generated.TTShared
/-!
# C03 — attribute value codecs are lossless, canonical and never mutate their input

The `JSONField` theorems quantify over every `ClassSpec` (field list, defaults, guard, drop rule); the
per-class corollaries instantiate them on the specs the translator regenerates from
`fim/slivers/capacities_labels.py` on every run (`Generated/Fields.lean`), discharging the side conditions
(`names` distinct, `SpecSane`, `DefaultsDropped`) by `decide` on the generated table - so a change of a
field list, a default, a guard or a drop rule re-checks every corollary against the new code.
`valid` is the (abstract) VALIDATORS predicate of `Labels`.
-/
namespace FimVerif.C03
open FimVerif FimVerif.Codec JVal

/-- the constants the hand-written models use are the ones in the code -/
theorem tables_agree :
    Gen.Fields.maintenanceStates = stateNames ∧
    Gen.Fields.maintenanceEntryFields = entryFields ∧
    Gen.Fields.pathTypes = [PType.path.str, PType.graph.str] ∧
    Gen.Fields.neo4jNone = "None" := by decide

/-- every generated class spec satisfies the side conditions of the generic theorems -/
theorem specs_sane : ∀ c ∈ Gen.Fields.all, (names c).Nodup ∧ SpecSane c = true ∧ DefaultsDropped c = true := by decide

/-- **Exact loss characterisation.**  A well-typed value survives `to_json`/`from_json` (empty text
exactly for the all-default value, otherwise the text reads back as the same value) if and only if
no field holds a value the drop rule removes although it differs from the field's default. -/
theorem roundtrip_iff (c : ClassSpec) (valid : String → JVal → Bool) (hn : (names c).Nodup) (x : Fields)
    (hx : WellTyped c valid x) : RoundTrips c valid x ↔ NoLoss c x := by
  constructor
  · rintro ⟨h0, h1⟩ f hf hd
    cases he : encode c x with
    | none =>
      have := h0 he
      rw [this]; exact dfltOf_field c hn f hf
    | some j =>
      have hj := encode_some c x j he
      have h2 := h1 j he
      rw [hj, decode_sorted_kept c valid hn x hx] at h2
      have hx' : readBack c x = x := by injection h2 with h2; injection h2
      have := congrFun hx' f.name
      unfold readBack at this
      rw [kept_any_field _ c hn x f hf, hd] at this
      simp at this
      rw [← this]; exact dfltOf_field c hn f hf
  · intro h
    constructor
    · intro he
      obtain ⟨hk, _⟩ := (encode_none_iff c x).1 he
      rw [← readBack_eq_of_noLoss c valid hn x hx h]
      funext k
      unfold readBack
      simp [hk, defaults]
    · intro j he
      rw [encode_some c x j he, decode_sorted_kept c valid hn x hx, readBack_eq_of_noLoss c valid hn x hx h]


/-- **Losslessness of a class from its generated spec.**  With sane defaults every well-typed value round-trips. -/
theorem lossless (c : ClassSpec) (valid : String → JVal → Bool) (hn : (names c).Nodup) (hs : SpecSane c = true)
    (x : Fields) (hx : WellTyped c valid x) : RoundTrips c valid x := by
  rw [roundtrip_iff c valid hn x hx]
  intro f hf hd
  rcases hx.1 f hf with ⟨he, _⟩ | ⟨hdom, _⟩
  · exact he
  · have := List.all_eq_true.1 hs f hf
    refine noLoss_field c.guard c.drop f.dflt _ ?_ hdom hd
    simp only [Bool.or_eq_true, Bool.and_eq_true, beq_iff_eq, bne_iff_ne] at this
    rcases this with (h | h) | h
    · exact Or.inl ⟨h.1, by rcases h.2 with ((h2 | h2) | h2) | h2 <;> simp [h2]⟩
    · exact Or.inr (Or.inl h)
    · exact Or.inr (Or.inr h)

open Gen.Fields in
theorem capacities_lossless (valid) (x) (hx : WellTyped capacities valid x) : RoundTrips capacities valid x :=
  lossless capacities valid (by decide) (by decide) x hx
open Gen.Fields in
theorem capacityHints_lossless (valid) (x) (hx : WellTyped capacityHints valid x) : RoundTrips capacityHints valid x :=
  lossless capacityHints valid (by decide) (by decide) x hx
open Gen.Fields in
theorem labels_lossless (valid) (x) (hx : WellTyped labels valid x) : RoundTrips labels valid x :=
  lossless labels valid (by decide) (by decide) x hx
open Gen.Fields in
theorem reservationInfo_lossless (valid) (x) (hx : WellTyped reservationInfo valid x) : RoundTrips reservationInfo valid x :=
  lossless reservationInfo valid (by decide) (by decide) x hx
open Gen.Fields in
theorem structuralInfo_lossless (valid) (x) (hx : WellTyped structuralInfo valid x) : RoundTrips structuralInfo valid x :=
  lossless structuralInfo valid (by decide) (by decide) x hx
open Gen.Fields in
theorem location_lossless (valid) (x) (hx : WellTyped location valid x) : RoundTrips location valid x :=
  lossless location valid (by decide) (by decide) x hx
open Gen.Fields in
theorem flags_lossless (valid) (x) (hx : WellTyped flags valid x) : RoundTrips flags valid x :=
  lossless flags valid (by decide) (by decide) x hx

/-- **Every class the translator finds is lossless** - a JSONField subclass or a field added to the source shows up in
`Gen.Fields.all` on the next run and is covered by this statement (and by `specs_sane`) without a hand-written corollary. -/
theorem all_classes_lossless : ∀ c ∈ Gen.Fields.all, ∀ (valid : String → JVal → Bool) (x : Fields),
    WellTyped c valid x → RoundTrips c valid x := by
  intro c hc valid x hx
  obtain ⟨hn, hs, _⟩ := specs_sane c hc
  exact lossless c valid hn hs x hx

/-- **Re-encode stability.**  Whatever was read back from the encoding of a well-typed value - even when
that lost a field - encodes to the identical value, hence (`toJson`) the identical text. -/
theorem reencode_stable (c : ClassSpec) (valid) (hn : (names c).Nodup) (hdd : DefaultsDropped c = true)
    (x : Fields) (hx : WellTyped c valid x) (y : Fields)
    (h : decode c valid (encode c x) = .ok (some y)) : encode c y = encode c x ∧ toJson c y = toJson c x := by
  have hy : y = readBack c x := by
    cases he : encode c x with
    | none => rw [he] at h; simp [decode] at h
    | some j =>
      rw [he, encode_some c x j he, decode_sorted_kept c valid hn x hx] at h
      injection h with h; injection h with h; exact h.symm
  have : encode c y = encode c x := by
    subst hy
    simp only [encode, keptBy_readBack c hn hdd x]
  exact ⟨this, by simp only [toJson, this]⟩

/-- ... for every class the translator finds -/
theorem all_classes_reencode_stable : ∀ c ∈ Gen.Fields.all, ∀ (valid : String → JVal → Bool) (x y : Fields),
    WellTyped c valid x → decode c valid (encode c x) = .ok (some y) → toJson c y = toJson c x := by
  intro c hc valid x y hx h
  obtain ⟨hn, _, hdd⟩ := specs_sane c hc
  exact (reencode_stable c valid hn hdd x hx y h).2

/-- **Canonical text.**  The keys of an encoding are in non-decreasing order, and they are exactly the kept fields. -/
theorem encode_sorted (c : ClassSpec) (x : Fields) (kvs : List (String × JVal)) (h : encode c x = some (.obj kvs)) :
    kvs.Pairwise (fun a b => a.1 ≤ b.1) ∧ kvs.Perm (keptBy c.drop c x) := by
  have := encode_some c x _ h
  injection this with this
  subst this
  refine ⟨?_, List.mergeSort_perm _ _⟩
  have := List.pairwise_mergeSort keyLe_trans keyLe_total (keptBy c.drop c x)
  exact this.imp (by intro a b hab; simpa [keyLe] using hab)

/-- **Unknown keys are ignored**: decoding depends only on the pairs whose key is a field -/
theorem unknown_keys_ignored (c : ClassSpec) (valid) (kvs kvs' : List (String × JVal))
    (h : knownOnly c kvs = knownOnly c kvs') :
    decode c valid (some (.obj kvs)) = decode c valid (some (.obj kvs')) := by
  simp only [decode, h]

/-- in particular an extra pair with an unknown key, with any value whatsoever and at any position, changes nothing -/
theorem unknown_key_anywhere (c : ClassSpec) (valid) (a b : List (String × JVal)) (k : String) (v : JVal)
    (hk : k ∉ names c) :
    decode c valid (some (.obj (a ++ (k, v) :: b))) = decode c valid (some (.obj (a ++ b))) := by
  apply unknown_keys_ignored
  simp [knownOnly, hk]

/-- ... and known fields are never dropped: every known key of the text (keys distinct) is in the decoded value -/
theorem known_fields_survive (c : ClassSpec) (valid) (kvs : List (String × JVal)) (y : Fields)
    (hn : (kvs.map (·.1)).Nodup) (h : decode c valid (some (.obj kvs)) = .ok (some y))
    (k : String) (v : JVal) (hkv : (k, v) ∈ kvs) (hk : k ∈ names c) : y k = v := by
  simp only [decode] at h
  split at h
  · rename_i x hx
    injection h with h; injection h with h
    subst h
    have hidem : knownOnly c (knownOnly c kvs) = knownOnly c kvs := by simp [knownOnly, List.filter_filter]
    rw [setFields_ok c valid true _ _ _ hx, hidem]
    apply applyAll_mem
    · exact hn.sublist ((List.filter_sublist).map _)
    · exact List.mem_filter.2 ⟨hkv, by simpa using hk⟩
  · cases h

/-- **Copy-with-changes.**  `update x kw`, when it succeeds, is `x` with exactly the given fields replaced
(the result is a new value; `x` itself is an argument and cannot change in the model - the harness checks the
implementation for mutation); every key was a field. -/
theorem update_pure (c : ClassSpec) (valid) (x y : Fields) (kw : List (String × JVal))
    (hn : (kw.map (·.1)).Nodup) (h : update c valid x kw = .ok y) :
    (∀ k, k ∉ kw.map (·.1) → y k = x k) ∧ (∀ k v, (k, v) ∈ kw → k ∈ names c → y k = v) := by
  have hy := setFields_ok c valid false kw x y h
  subst hy
  constructor
  · intro k hk
    apply applyAll_not_mem
    intro hm
    exact hk ((List.filter_sublist.map _).subset hm)
  · intro k v hkv hk
    apply applyAll_mem
    · exact hn.sublist ((List.filter_sublist).map _)
    · exact List.mem_filter.2 ⟨hkv, by simpa using hk⟩


/-! ### The defect that was repaired, kept as a theorem about the old drop rule

Before /repo commit 0a11b47 `to_json` dropped every value `== 0`.  On the `Location` spec with that rule the
exact characterisation yields a concrete loss (`lat = 0.0`), and `location_lossless` above shows the current
rule has none. -/

def locationOldRule : ClassSpec := { Gen.Fields.location with drop := .noneOrZero }
def equator : Fields := setF (defaults Gen.Fields.location) "lat" (.float "0.0")

theorem equator_wellTyped (c : ClassSpec) (hc : c.fields = Gen.Fields.location.fields) (hg : c.guard = .strOrFloat)
    (hd : c.drop = .noneOrZero ∨ c.drop = .noneOrDefault) : WellTyped c (fun _ _ => true) equator := by
  constructor
  · intro f hf
    rw [hc] at hf
    simp only [Gen.Fields.location, List.mem_cons, List.mem_nil_iff, or_false] at hf
    rcases hf with rfl | rfl | rfl
    · left; rcases hd with h | h <;> simp [equator, setF, defaults, dfltOf, Gen.Fields.location, dropped, h, isNull, pyEqDflt]
    · right; simp [equator, setF, hg, inDomain]
    · left; rcases hd with h | h <;> simp [equator, setF, defaults, dfltOf, Gen.Fields.location, dropped, h, isNull, pyEqDflt]
  · intro k hk
    have hk' : k ∉ names Gen.Fields.location := by simpa [names, hc] using hk
    have : k ≠ "lat" := by rintro rfl; exact hk' (by decide)
    simp [equator, setF, this, defaults, dfltOf_not_mem _ k hk']

theorem location_old_rule_counterexample :
    WellTyped locationOldRule (fun _ _ => true) equator ∧ ¬ RoundTrips locationOldRule (fun _ _ => true) equator := by
  have hw := equator_wellTyped locationOldRule rfl rfl (Or.inl rfl)
  refine ⟨hw, ?_⟩
  rw [roundtrip_iff locationOldRule _ (by decide) equator hw]
  intro h
  have := h ⟨"lat", .null⟩ (by simp [locationOldRule, Gen.Fields.location]) (by simp [locationOldRule, dropped, equator, setF, pyEqZero])
  simp [equator, setF] at this

/-- non-vacuity of `WellTyped` / `RoundTrips` on the current spec: the same value now survives -/
example : RoundTrips Gen.Fields.location (fun _ _ => true) equator :=
  location_lossless _ _ (equator_wellTyped Gen.Fields.location rfl rfl (Or.inr rfl))

/-! ## The small codecs -/

/-! ### Tags -/
theorem tagsArg_arr (okTag : String → Bool) (ts : List String) (h : ∀ t ∈ ts, okTag t = true) :
    tagsArg okTag (.arr (ts.map .str)) = .ok ts := by
  simp only [tagsArg]
  induction ts with
  | nil => rfl
  | cons t r ih =>
    have ht := h t (List.mem_cons_self)
    have := ih (fun u hu => h u (List.mem_cons_of_mem _ hu))
    simp only [List.map_cons, List.mapM_cons, ht, if_true, this]
    rfl

/-- Tags: a list of tags that pass the check reads back from its encoding as the same list -/
theorem tags_roundtrip (okTag : String → Bool) (ts : List String) (h : ∀ t ∈ ts, okTag t = true) :
    tagsDecode okTag (some (tagsEncode ts)) = .ok (some ts) := by
  simp [tagsDecode, tagsNew, tagsEncode, tagsArg_arr okTag ts h]

/-- every `Tags` value the constructor can build round-trips -/
theorem tags_constructed_roundtrip (okTag : String → Bool) (args : List JVal) (ts : List String)
    (h : tagsNew okTag args = .ok ts) : tagsDecode okTag (some (tagsEncode ts)) = .ok (some ts) :=
  tags_roundtrip okTag ts (tagsNew_ok okTag args ts h)

/-! ### JSONData -/

/-- text is stored verbatim, and re-reading the stored text gives the same value -/
theorem jsondata_text_idempotent (validJson : String → Bool) (max : Nat) (s t : String)
    (h : jdFromText validJson max s = .ok t) : t = s ∧ jdFromText validJson max t = .ok t := by
  unfold jdFromText at h
  split at h
  · cases h
  · split at h
    · cases h
    · injection h with h; subst h; exact ⟨rfl, by simp [jdFromText, *]⟩

/-- an object is stored as its `json.dumps` text, never above the size limit; re-reading that text (valid JSON by
the `json` library: hypothesis `hv`) gives the same value -/
theorem jsondata_obj_roundtrip (validJson : String → Bool) (max : Nat) (j : JVal) (t : String)
    (h : jdFromObj max j = .ok t) (hv : validJson t = true) : t.length ≤ max ∧ jdFromText validJson max t = .ok t := by
  have hl : t.length ≤ max := by
    simp only [jdFromObj] at h
    split at h
    · cases h
    · injection h with h; subst h; omega
  exact ⟨hl, by simp [jdFromText, hv, Nat.not_lt.2 hl]⟩

/-- `None` is stored as `{}` and reads back as itself under every size limit in the code -/
theorem jsondata_none_roundtrip (validJson : String → Bool) (hv : validJson "{}" = true) (max : Nat) (hm : 2 ≤ max) :
    jdNew max .null = .ok jdEmpty ∧ jdFromText validJson max jdEmpty = .ok jdEmpty := by
  refine ⟨rfl, ?_⟩
  have : jdEmpty.length = 2 := by decide
  simp [jdFromText, jdEmpty, hv]
  have : ("{}" : String).length = 2 := by decide
  omega

/-! ### MaintenanceInfo -/

/-- **A finalized record cannot be altered**: every modifier raises and there is no new state -/
theorem finalized_immutable (m : MInfo) (h : m.lock = true) (n : String) (e : MEntry) :
    m.add n e = .error "maintenance" ∧ m.rem n = .error "maintenance" ∧ m.pop n = .error "maintenance" := by
  simp [MInfo.add, MInfo.rem, MInfo.pop, h]

/-- `finalize` is the only way to the locked state and it is permanent under every operation that succeeds -/
theorem finalize_locks (m : MInfo) : m.finalize.lock = true ∧ m.finalize.nodes = m.nodes := ⟨rfl, rfl⟩

/-- encoding needs a finalized record; decoding yields one -/
theorem encode_requires_finalize (m : MInfo) : (∃ j, minfoEncode m = .ok j) ↔ m.lock = true := by
  cases h : m.lock <;> simp [minfoEncode, h]

/-- **MaintenanceInfo round trip**: a finalized record reads back from its encoding as the same (finalized) record -/
theorem maintenance_roundtrip (iso : String → Option String) (m : MInfo) (hl : m.lock = true)
    (h : ∀ p ∈ m.nodes, EntryOK iso p.2) (j : JVal) (he : minfoEncode m = .ok j) :
    minfoDecode iso (some j) = .ok (some m) := by
  simp only [minfoEncode, hl] at he
  injection he with he
  subst he
  simp only [minfoDecode, entries_roundtrip iso m.nodes h]
  cases m; simp_all

/-- unknown keys inside an entry are ignored -/
theorem entry_unknown_key (iso : String → Option String) (a b : List (String × JVal)) (k : String) (v : JVal)
    (hk : k ∉ entryFields) : entryOf iso (.obj (a ++ (k, v) :: b)) = entryOf iso (.obj (a ++ b)) := by
  simp [entryOf, hk]

/-! #### the dates, concretely: `isoformat()` / `fromisoformat()` on the texts the library writes -/

/-- **`datetime.fromisoformat(t.isoformat()) == t`**, for every datetime content (year 1..9999, valid calendar day, any
microsecond, no offset or any fixed offset strictly inside ±24h down to the microsecond) -/
theorem iso_roundtrip (t : Iso.DT) (h : t.Valid) : Iso.parseIso t.iso = some t ∧ Iso.isoCanon t.isoStr = some t.isoStr :=
  ⟨Iso.parseIso_iso t h, Iso.isoCanon_isoStr t h⟩

/-- full statement (every fixed offset) fails in CPython itself: an offset of less than one second is written by
`isoformat()` (`+00:00:00.000001`) but `fromisoformat()` reads it back as UTC (known finding
`C03:MaintenanceInfo:lost:subsecond-utc-offset`); `iso_roundtrip` holds for every other offset -/
theorem iso_subsecond_offset_counterexample :
    Iso.parseIso (Iso.DT.iso ⟨2024, 1, 2, 3, 4, 5, 0, some ⟨false, 0, 0, 0, 1⟩⟩) = some ⟨2024, 1, 2, 3, 4, 5, 0, some ⟨false, 0, 0, 0, 0⟩⟩ := by
  decide

/-- an entry as the library builds it: state a member of the enum (or None), dates the `isoformat()` texts of datetimes -/
def EntryDates (e : MEntry) : Prop :=
  (∀ s, e.state = some s → s ∈ stateNames) ∧
  (∀ d, e.deadline = some d → ∃ t : Iso.DT, t.Valid ∧ d = t.isoStr) ∧
  (∀ d, e.expectedEnd = some d → ∃ t : Iso.DT, t.Valid ∧ d = t.isoStr)

theorem entryOK_of_dates (e : MEntry) (h : EntryDates e) : EntryOK Iso.isoCanon e := by
  refine ⟨h.1, ?_, ?_⟩
  · intro d hd
    obtain ⟨t, ht, rfl⟩ := h.2.1 d hd
    exact ⟨Iso.isoStr_ne_empty t, Iso.isoCanon_isoStr t ht⟩
  · intro d hd
    obtain ⟨t, ht, rfl⟩ := h.2.2 d hd
    exact ⟨Iso.isoStr_ne_empty t, Iso.isoCanon_isoStr t ht⟩

/-- **MaintenanceInfo round trip with the dates modelled**: no hypothesis on an abstract ISO function is left -/
theorem maintenance_roundtrip_concrete (m : MInfo) (hl : m.lock = true) (h : ∀ p ∈ m.nodes, EntryDates p.2)
    (j : JVal) (he : minfoEncode m = .ok j) : minfoDecode Iso.isoCanon (some j) = .ok (some m) :=
  maintenance_roundtrip Iso.isoCanon m hl (fun p hp => entryOK_of_dates p.2 (h p hp)) j he

example : EntryDates ⟨some "Maint", some (Iso.DT.isoStr ⟨2030, 12, 31, 23, 59, 59, 999999, some ⟨true, 5, 0, 0, 0⟩⟩), none⟩ := by
  refine ⟨by simp [stateNames], ?_, by simp⟩
  intro d hd
  exact ⟨_, by simp [Iso.DT.Valid, Iso.TZ.Valid, Iso.daysIn], (Option.some.inj hd).symm⟩

example : EntryOK (fun s => some s) ⟨some "Maint", some "2024-01-02T03:04:05", none⟩ := by
  refine ⟨?_, ?_, ?_⟩ <;> simp [stateNames]

/-! ### PathInfo / ERO -/

/-- **`to_json` is total on the constructible values** (in particular on `PathInfo()` / `ERO()` with nothing set) -/
theorem pathinfo_encode_total (p : PathInfo) (h : PIDomain p) :
    (∃ j, pathInfoEncode p = .ok j) ∧ (∃ j, eroEncode p = .ok j) := by
  obtain ⟨t, pl, st⟩ := p
  cases t with
  | none => simp [PIDomain] at h
  | some t => cases t <;> cases pl <;> simp_all [PIDomain, pathInfoEncode, eroEncode, payloadJson]

theorem pathinfo_roundtrip (p : PathInfo) (h : PIDomain p) (hs : p.strict = .bool false) (j : JVal)
    (he : pathInfoEncode p = .ok j) : pathInfoDecode (some j) = .ok (some p) := by
  obtain ⟨t, pl, st⟩ := p
  simp only at hs; subst hs
  cases t with
  | none => simp [PIDomain] at h
  | some t =>
    cases t <;> cases pl <;>
      simp_all [PIDomain, pathInfoEncode, payloadJson, typeStr, PType.str, pathDict]
    all_goals (subst he; simp [pathInfoDecode, pathInfoDecodeCore, piCoreOf, lookup, ptypeOfStr, pathFromDict])
    all_goals (rename_i jv; cases jv <;> simp_all)

theorem ero_roundtrip (p : PathInfo) (h : PIDomain p) (b : Bool) (hs : p.strict = .bool b) (j : JVal)
    (he : eroEncode p = .ok j) : eroDecode (some j) = .ok (some p) := by
  obtain ⟨t, pl, st⟩ := p
  simp only at hs; subst hs
  cases t with
  | none => simp [PIDomain] at h
  | some t =>
    cases b <;> cases t <;> cases pl <;>
      simp_all [PIDomain, eroEncode, payloadJson, typeStr, PType.str, pathDict, pyStr]
    all_goals (subst he; simp [eroDecode, piCoreOf, lookup, ptypeOfStr, pathFromDict, eroStrict])
    all_goals (rename_i jv; cases jv <;> simp_all)

/-- unknown top-level keys are ignored -/
theorem pathinfo_unknown_key (a b : List (String × JVal)) (k : String) (v : JVal)
    (hk : k ∉ ["type", "payload", "strict"]) :
    pathInfoDecode (some (.obj (a ++ (k, v) :: b))) = pathInfoDecode (some (.obj (a ++ b))) ∧
    eroDecode (some (.obj (a ++ (k, v) :: b))) = eroDecode (some (.obj (a ++ b))) := by
  simp only [List.mem_cons, List.mem_nil_iff, or_false, not_or] at hk
  obtain ⟨h1, h2, h3⟩ := hk
  simp only [pathInfoDecode, pathInfoDecodeCore, eroDecode, lookup_insert a b k _ v h1, lookup_insert a b k _ v h2,
    lookup_insert a b k _ v h3, and_self]

/-- unknown keys inside the payload dict are ignored -/
theorem path_unknown_key (a b : List (String × JVal)) (k : String) (v : JVal) (hk : k ∉ ["a2z", "z2a"]) :
    pathFromDict (.obj (a ++ (k, v) :: b)) = pathFromDict (.obj (a ++ b)) := by
  simp only [List.mem_cons, List.mem_nil_iff, or_false, not_or] at hk
  simp [pathFromDict, lookup_insert a b k _ v hk.1, lookup_insert a b k _ v hk.2]

example : PIDomain { type := some .path, payload := .unset } := by simp [PIDomain]
example : PIDomain { type := some .path, payload := .path (.arr [.str "a"]) .null, strict := .bool true } := by simp [PIDomain]

/-! ### typed tuples `"type:value"` -/

/-- **Exact characterisation of the constructor path**, for every value (str or int): the tuple read back from
`get_as_string()` has the same type and the value's text with its trailing blanks stripped. -/
theorem ttuple_fromstring_exact (types : List (List Char)) (ws : Char → Bool) (hsep : ws ':' = false)
    (ty : List Char) (v : JVal) (hty : ty ∈ types) (hc : ':' ∉ ty) (hl : ∀ c, ty.head? = some c → ws c = false) :
    ttFromString types ws (ttEncode ⟨ty, v⟩) = .ok ⟨ty, .str (String.ofList (rstrip ws v.pyStr.toList))⟩ := by
  simp only [ttFromString, ttEncode, strip_encode ws hsep ty _ hl, ttOf, splitFirst_append ty _ hc]
  simp [hty]

/-- ... hence the constructor path is lossless **exactly** for string values that do not end in a blank -/
theorem ttuple_fromstring_iff (types : List (List Char)) (ws : Char → Bool) (hsep : ws ':' = false)
    (ty : List Char) (s : String) (hty : ty ∈ types) (hc : ':' ∉ ty) (hl : ∀ c, ty.head? = some c → ws c = false) :
    ttFromString types ws (ttEncode ⟨ty, .str s⟩) = .ok ⟨ty, .str s⟩ ↔ ∀ c, s.toList.getLast? = some c → ws c = false := by
  rw [ttuple_fromstring_exact types ws hsep ty _ hty hc hl, ← rstrip_eq_self]
  simp only [pyStr]
  constructor
  · intro h
    injection h with h; injection h with _ h; injection h with h
    have := congrArg String.toList h
    simpa using this
  · intro h; rw [h]; simp

/-- an int value always comes back as its decimal text (never as the int) -/
theorem ttuple_int_exact (types : List (List Char)) (ws : Char → Bool) (hsep : ws ':' = false)
    (ty : List Char) (i : Int) (hty : ty ∈ types) (hc : ':' ∉ ty) (hl : ∀ c, ty.head? = some c → ws c = false) :
    ∃ t : String, ttFromString types ws (ttEncode ⟨ty, .int i⟩) = .ok ⟨ty, .str t⟩ ∧ (⟨ty, .str t⟩ : TTuple) ≠ ⟨ty, .int i⟩ :=
  ⟨_, ttuple_fromstring_exact types ws hsep ty _ hty hc hl, by simp⟩

/-- the guarded round trip (string value not ending in a blank) is the `if` direction of the characterisation -/
theorem ttuple_fromstring_roundtrip (types : List (List Char)) (ws : Char → Bool) (hsep : ws ':' = false)
    (ty : List Char) (s : String) (hty : ty ∈ types) (hc : ':' ∉ ty)
    (hl : ∀ c, ty.head? = some c → ws c = false) (hr : ∀ c, s.toList.getLast? = some c → ws c = false) :
    ttFromString types ws (ttEncode ⟨ty, .str s⟩) = .ok ⟨ty, .str s⟩ :=
  (ttuple_fromstring_iff types ws hsep ty s hty hc hl).2 hr

example : ∀ c, "x y".toList.getLast? = some c → wsGen c = false := by decide

/-- **`parse_from_string` is lossless** for every string value (no blank condition) -/
theorem ttuple_parse_roundtrip (types : List (List Char)) (ty : List Char) (s : String) (hty : ty ∈ types) (hc : ':' ∉ ty) :
    ttParse types (ttEncode ⟨ty, .str s⟩) = .ok ⟨ty, .str s⟩ := by
  simp only [ttParse, ttOf, ttEncode, pyStr, splitFirst_append ty s.toList hc]
  simp [hty]

/-- the `only if` direction on a concrete value: a trailing blank of the value is stripped (known finding
`C03:typed_tuple:fromstring:trailing-blank-stripped`) -/
theorem ttuple_fromstring_counterexample :
    ttFromString labelTypes wsGen (ttEncode ⟨"mac".toList, .str "x "⟩) = .ok ⟨"mac".toList, .str "x"⟩ := by rfl

/-- an integer value (documented for capacities) reads back as a string, through both decoders (known findings
`C03:typed_tuple:fromstring:int-value-decodes-as-str`, `C03:typed_tuple:parse:int-value-decodes-as-str`) -/
theorem ttuple_int_counterexample :
    ttFromString capTypes wsGen (ttEncode ⟨"ram".toList, .int 1000⟩) = .ok ⟨"ram".toList, .str "1000"⟩ ∧
    ttParse capTypes (ttEncode ⟨"ram".toList, .int 1000⟩) = .ok ⟨"ram".toList, .str "1000"⟩ := ⟨by rfl, by rfl⟩

/-- the generated type lists satisfy the guard of the partial theorem: no ':' and no blank at either end; ':' is not a blank -/
theorem tuple_types_clean :
    (Gen.Fields.tupleTypes.all fun p => p.2.all fun t =>
      !t.toList.contains ':' && (t.toList.head?.all fun c => !wsGen c)) = true ∧ wsGen ':' = false := by decide

/-! ### Gateway -/

open Gen.Fields in
theorem gw_decode_own (valid) (a b : String) (l : Fields) (hl : WellTyped labels valid l)
    (ha : a ∈ names labels) (hb : b ∈ names labels) (hab : a ≠ b) (ham : a ≠ "mac") (hbm : b ≠ "mac")
    (hsa : isSet (l a) = true) (hsb : isSet (l b) = true) :
    decode labels valid (encode labels (gwPick a b l)) = .ok (some (gwPick a b l)) := by
  have hw := gwPick_wellTyped valid a b l hl ha hb hsa hsb
  have hr := labels_lossless valid _ hw
  cases he : encode labels (gwPick a b l) with
  | none =>
    have := hr.1 he
    have hv := (gwPick_values a b l hab ham hbm (by decide)).1
    rw [this] at hv
    have hd : defaults labels a = .null := by
      obtain ⟨f, hf, rfl⟩ := List.mem_map.1 ha
      rw [show defaults labels f.name = f.dflt from dfltOf_field labels (by decide) f hf]
      exact (by decide : ∀ f ∈ labels.fields, f.dflt = JVal.null) f hf
    rw [← hv, hd] at hsa; simp [isSet, isNull] at hsa
  | some j => exact hr.2 j he

open Gen.Fields in
/-- **Gateway round trip.**  Whatever `Gateway(lab)` builds from a well-typed `Labels` value reads back from its
own `to_json` as the same gateway (`from_json` = `Labels.from_json` followed by the constructor's selection). -/
theorem gateway_roundtrip (valid) (l g : Fields) (hl : WellTyped labels valid l)
    (hg : gatewayNew labels valid (some l) = .ok (some g)) :
    gatewayDecode labels valid (gatewayEncode labels (some g)) = .ok (some g) := by
  have hdm : defaults labels "mac" = .null := by decide
  simp only [gatewayNew] at hg
  by_cases h4 : (isSet (l "ipv4_subnet") && isSet (l "ipv4")) = true
  · have h4' := Bool.and_eq_true_iff.1 h4
    simp only [h4, if_true] at hg
    rw [gatewayKeep valid "ipv4_subnet" "ipv4" l hl (by decide) (by decide) h4'.1 h4'.2] at hg
    injection hg with hg; injection hg with hg; subst hg
    have hw := gwPick_wellTyped valid "ipv4_subnet" "ipv4" l hl (by decide) (by decide) h4'.1 h4'.2
    obtain ⟨v1, v2, _, _, _⟩ := gwPick_values "ipv4_subnet" "ipv4" l (by decide) (by decide) (by decide) hdm
    simp only [gatewayDecode, gatewayEncode,
      gw_decode_own valid "ipv4_subnet" "ipv4" l hl (by decide) (by decide) (by decide) (by decide) (by decide) h4'.1 h4'.2]
    have c4 : (isSet (gwPick "ipv4_subnet" "ipv4" l "ipv4_subnet") && isSet (gwPick "ipv4_subnet" "ipv4" l "ipv4")) = true := by
      rw [v1, v2]; exact h4
    simp only [gatewayNew, c4, if_true]
    rw [gatewayKeep valid "ipv4_subnet" "ipv4" _ hw (by decide) (by decide) (by rw [v1]; exact h4'.1) (by rw [v2]; exact h4'.2),
      gwPick_idem _ _ _ (by decide) (by decide) (by decide) hdm]
  · simp only [h4] at hg
    by_cases h6 : (isSet (l "ipv6_subnet") && isSet (l "ipv6")) = true
    · have h6' := Bool.and_eq_true_iff.1 h6
      simp only [h6, if_true, Bool.false_eq_true, if_false] at hg
      rw [gatewayKeep valid "ipv6_subnet" "ipv6" l hl (by decide) (by decide) h6'.1 h6'.2] at hg
      injection hg with hg; injection hg with hg; subst hg
      have hw := gwPick_wellTyped valid "ipv6_subnet" "ipv6" l hl (by decide) (by decide) h6'.1 h6'.2
      obtain ⟨v1, v2, _, _, v5⟩ := gwPick_values "ipv6_subnet" "ipv6" l (by decide) (by decide) (by decide) hdm
      simp only [gatewayDecode, gatewayEncode,
        gw_decode_own valid "ipv6_subnet" "ipv6" l hl (by decide) (by decide) (by decide) (by decide) (by decide) h6'.1 h6'.2]
      have n4 : (isSet (gwPick "ipv6_subnet" "ipv6" l "ipv4_subnet") && isSet (gwPick "ipv6_subnet" "ipv6" l "ipv4")) = false := by
        rw [v5 "ipv4_subnet" (by decide) (by decide) (by decide)]
        have : defaults labels "ipv4_subnet" = .null := by decide
        simp [this, isSet, isNull]
      have c6 : (isSet (gwPick "ipv6_subnet" "ipv6" l "ipv6_subnet") && isSet (gwPick "ipv6_subnet" "ipv6" l "ipv6")) = true := by
        rw [v1, v2]; exact h6
      simp only [gatewayNew, n4, c6, if_true, Bool.false_eq_true, if_false]
      rw [gatewayKeep valid "ipv6_subnet" "ipv6" _ hw (by decide) (by decide) (by rw [v1]; exact h6'.1) (by rw [v2]; exact h6'.2),
        gwPick_idem _ _ _ (by decide) (by decide) (by decide) hdm]
    · simp [h6, gwFinish] at hg

open Gen.Fields in
/-- an unset gateway is encoded as empty and read back as absent -/
theorem gateway_unset : gatewayEncode labels none = none ∧ ∀ valid, gatewayDecode labels valid none = .ok none := by
  refine ⟨rfl, fun valid => ?_⟩
  simp [gatewayDecode, decode, gatewayNew]

open Gen.Fields in
/-- the constructor is idempotent on a gateway's own labels (what `from_json` relies on) -/
theorem gateway_ctor_idempotent (valid) (l g : Fields) (hl : WellTyped labels valid l)
    (hg : gatewayNew labels valid (some l) = .ok (some g)) : gatewayNew labels valid (some g) = .ok (some g) := by
  have h := gateway_roundtrip valid l g hl hg
  simp only [gatewayDecode, gatewayEncode] at h
  split at h
  · cases h
  · rename_i l' hd
    have hdm : defaults labels "mac" = .null := by decide
    -- the decoded labels are the gateway's own labels (Labels round trip), so the constructor maps g to g
    simp only [gatewayNew] at hg
    by_cases h4 : (isSet (l "ipv4_subnet") && isSet (l "ipv4")) = true
    · have h4' := Bool.and_eq_true_iff.1 h4
      simp only [h4, if_true] at hg
      rw [gatewayKeep valid "ipv4_subnet" "ipv4" l hl (by decide) (by decide) h4'.1 h4'.2] at hg
      injection hg with hg; injection hg with hg; subst hg
      rw [gw_decode_own valid "ipv4_subnet" "ipv4" l hl (by decide) (by decide) (by decide) (by decide) (by decide) h4'.1 h4'.2] at hd
      injection hd with hd; subst hd; exact h
    · simp only [h4] at hg
      by_cases h6 : (isSet (l "ipv6_subnet") && isSet (l "ipv6")) = true
      · have h6' := Bool.and_eq_true_iff.1 h6
        simp only [h6, if_true, Bool.false_eq_true, if_false] at hg
        rw [gatewayKeep valid "ipv6_subnet" "ipv6" l hl (by decide) (by decide) h6'.1 h6'.2] at hg
        injection hg with hg; injection hg with hg; subst hg
        rw [gw_decode_own valid "ipv6_subnet" "ipv6" l hl (by decide) (by decide) (by decide) (by decide) (by decide) h6'.1 h6'.2] at hd
        injection hd with hd; subst hd; exact h
      · simp [h6, gwFinish] at hg

open Gen.Fields in
/-- **Gateway re-encode stability**: whatever the gateway's own text decodes to encodes to the identical value / text -/
theorem gateway_reencode_stable (valid) (l g g' : Fields) (hl : WellTyped labels valid l)
    (hg : gatewayNew labels valid (some l) = .ok (some g))
    (hd : gatewayDecode labels valid (gatewayEncode labels (some g)) = .ok (some g')) :
    gatewayEncode labels (some g') = gatewayEncode labels (some g) ∧ toJson labels g' = toJson labels g := by
  rw [gateway_roundtrip valid l g hl hg] at hd
  injection hd with hd; injection hd with hd; subst hd
  exact ⟨rfl, rfl⟩

open Gen.Fields in
/-- unknown keys in a gateway's text are ignored, wherever they stand and whatever they hold -/
theorem gateway_unknown_key (valid) (a b : List (String × JVal)) (k : String) (v : JVal) (hk : k ∉ names labels) :
    gatewayDecode labels valid (some (.obj (a ++ (k, v) :: b))) = gatewayDecode labels valid (some (.obj (a ++ b))) := by
  simp only [gatewayDecode, unknown_key_anywhere labels valid a b k v hk]

example : ∃ g, gatewayNew Gen.Fields.labels (fun _ _ => true)
    (some (setF (setF (defaults Gen.Fields.labels) "ipv4_subnet" (.str "10.0.0.0/8")) "ipv4" (.str "10.0.0.1"))) = .ok (some g) :=
  ⟨_, rfl⟩

/-! ## Aliasing: histories of reads and caller-side in-place mutations

`Hist.World` separates the value object's own state from the objects the caller owns (arguments it passed, results it
received).  The theorems say that in such a world nothing the caller does to its objects can be seen through the value
object; the correspondence (`hist` lines with `edit` = mutate-arg / mutate-result steps on the real Python objects) checks
that JSONData, Tags and a finalized MaintenanceInfo *are* such worlds, and that the JSONField family is a `RefWorld`. -/
open Hist

/-- **Reads are functions of the value object's state only**, in every history: whatever sequence of getter calls and
in-place changes of caller-owned objects (arguments, earlier results) precedes it, a read returns what the getter computes
from the *initial* state, and the state never changes. -/
theorem history_reads_depend_on_state_only {σ : Type} (get : σ → String → JVal → Option JVal) (w : World σ) (steps : List Step) :
    (finalWorld get w steps).obj = w.obj ∧
    ∀ (k : Nat) (g : String) (a : JVal), steps[k]? = some (.read g a) → (run get w steps)[k]? = some (get w.obj g a) :=
  ⟨finalWorld_obj get steps w, run_read get steps w⟩

/-- ... in particular they do not depend on the caller's objects at all -/
theorem history_reads_ignore_owned {σ : Type} (get : σ → String → JVal → Option JVal) (obj : σ) (owned owned' : List JVal)
    (steps : List Step) (k : Nat) (g : String) (a : JVal) (h : steps[k]? = some (.read g a)) :
    (run get ⟨obj, owned⟩ steps)[k]? = (run get ⟨obj, owned'⟩ steps)[k]? := by
  rw [run_read get steps _ k g a h, run_read get steps _ k g a h]

/-- **JSONData: the observable value is `parse (text)`** at every point of every history (`.data` after any number of
changes to the constructor argument or to objects `.data` returned earlier), and `.json` is the text. -/
theorem jsondata_value_is_function_of_text (text : String) (owned : List JVal) (steps : List Step) (k : Nat) (a : JVal) :
    (steps[k]? = some (.read "data" a) → (run jdGet ⟨text, owned⟩ steps)[k]? = some (JParse.parse text)) ∧
    (steps[k]? = some (.read "json" a) → (run jdGet ⟨text, owned⟩ steps)[k]? = some (some (.str text))) := by
  constructor <;> intro h <;> rw [run_read jdGet steps _ k _ a h] <;> simp [jdGet]

/-- `==` / `hash` are computed from the text: a value equals the value rebuilt from its own text, always -/
theorem jsondata_eq_own_text (text : String) : jdGet text "eq" (.str text) = some (.bool true) := by
  simp [jdGet]

/-- Tags and a finalized MaintenanceInfo: same statement for their readers -/
theorem tags_reads_stable (ts : List String) (owned : List JVal) (steps : List Step) (k : Nat) (g : String) (a : JVal)
    (h : steps[k]? = some (.read g a)) : (run tagsGet ⟨ts, owned⟩ steps)[k]? = some (tagsGet ts g a) :=
  run_read tagsGet steps _ k g a h

theorem maintenance_reads_stable (m : MInfo) (owned : List JVal) (steps : List Step) (k : Nat) (g : String) (a : JVal)
    (h : steps[k]? = some (.read g a)) :
    (run miGet ⟨m, owned⟩ steps)[k]? = some (miGet m g a) ∧ (finalWorld miGet ⟨m, owned⟩ steps).obj = m :=
  ⟨run_read miGet steps _ k g a h, finalWorld_obj miGet steps _⟩

/-- the source of `JSONField.update` copies list values (regenerated from /repo on every run) -/
theorem update_copies : Gen.Fields.updateCopiesLists = true := by decide

/-- **Copy-with-changes is independent of the original, in every history.**  With a copying `update` no list is ever
shared, and the original after any history is what the growth steps on *its own* lists make of it - growing the lists of
the copy (`growY`) never reaches it. -/
theorem update_copy_independent (c : ClassSpec) (x : Fields) (steps : List RefStep) :
    (refRun c Gen.Fields.updateCopiesLists { x := x } steps).shared = [] ∧
    (refRun c Gen.Fields.updateCopiesLists { x := x } steps).x = growXOnly x steps := by
  rw [update_copies]; exact refRun_x c steps { x := x } rfl

/-- the repaired defect (/repo 56cd47c) as a theorem about the sharing `update`: growing a list of the copy changes the original -/
theorem update_shared_counterexample :
    let x := setF (defaults Gen.Fields.labels) "vlan_range" (.arr [.str "100-200"])
    (refRun Gen.Fields.labels false { x := x } [.takeUpdate, .growY "vlan_range" (.str "5-5")]).x "vlan_range"
      = .arr [.str "100-200", .str "5-5"] ∧
    (refRun Gen.Fields.labels true { x := x } [.takeUpdate, .growY "vlan_range" (.str "5-5")]).x "vlan_range"
      = .arr [.str "100-200"] := by
  constructor <;> decide

/-- **By-reference list fields keep the value lossless.**  In a str-or-list class, after any history of in-place growth
of the caller's lists (which *are* the fields) and of `update` copies, the original is still well-typed, hence still
reads back from its own encoding as itself. -/
theorem history_keeps_roundtrip (c : ClassSpec) (valid : String → JVal → Bool) (hn : (names c).Nodup) (hs : SpecSane c = true)
    (hg : c.guard = .strOrList ∨ c.guard = .strOrStrList) (hd : ∀ f ∈ c.fields, isContainer f.dflt = false)
    (x : Fields) (hx : WellTyped c valid x) (steps : List RefStep) (hok : GrowOK valid steps) :
    RoundTrips c valid (refRun c Gen.Fields.updateCopiesLists { x := x } steps).x := by
  rw [(update_copy_independent c x steps).2]
  exact lossless c valid hn hs _ (growXOnly_wellTyped c valid hg hd steps x hx hok)

/-- the three list-capable generated classes satisfy the side conditions -/
theorem list_classes_sane : ∀ c ∈ Gen.Fields.all, (c.guard = .strOrList ∨ c.guard = .strOrStrList) →
    (names c).Nodup ∧ SpecSane c = true ∧ ∀ f ∈ c.fields, isContainer f.dflt = false := by decide

example : GrowOK (fun _ _ => true) [.growX "vlan_range" (.str "5-5"), .takeUpdate, .growY "vlan" (.str "7")] := by
  intro k item _
  exact ⟨by simp_all [isStr] <;> (rename_i h; rcases h with ⟨_, rfl⟩ <;> rfl), fun _ _ => rfl⟩

/-! ## Text level: `json.dumps` / `json.loads` inside the statements

`JParse.parse` is the model of `json.loads` (checked against CPython on every run), `JVal.render` of `json.dumps`.
`JParse.parse_render` proves `parse (render j) = some j` for every float-free value with distinct object keys, so the
round trips above hold for the *texts* the codecs store, not only for the JSON values in between. -/
open JParse

/-- **`json.loads(json.dumps(j)) == j`** for every JSON value without floats whose objects have distinct keys -/
theorem json_roundtrip (j : JVal) (hp : plain j = true) : parse j.render = some j := parse_render j hp

/-- **JSONField round trip on text**: `from_json(to_json(x)) == x` with `json.dumps` / `json.loads` inside the statement
(values without floats: every class but Location's coordinates) -/
theorem jsonfield_text_roundtrip (c : ClassSpec) (valid : String → JVal → Bool) (hn : (names c).Nodup) (hs : SpecSane c = true)
    (x : Fields) (hx : WellTyped c valid x) (hp : ∀ f ∈ c.fields, plain (x f.name) = true) :
    (encode c x = none → x = defaults c ∧ decodeText c valid "None" (toJson c x) = .ok none) ∧
    (∀ j, encode c x = some j → decodeText c valid "None" (toJson c x) = .ok (some x)) := by
  obtain ⟨h0, h1⟩ := lossless c valid hn hs x hx
  constructor
  · intro he
    exact ⟨h0 he, by simp [toJson, he, decodeText]⟩
  · intro j he
    have hj := encode_some c x j he
    have hplain : plain j = true := by
      subst hj
      simp only [plain, Bool.and_eq_true, decide_eq_true_eq]
      constructor
      · apply plainK_of_forall
        intro p hpm
        rw [sort_mem] at hpm
        obtain ⟨f, hf, _, _, hv⟩ := (kept_mem c.drop c x p.1 p.2).1 hpm
        rw [hv]; exact hp f hf
      · exact sort_keys_nodup _ (hn.sublist (kept_keys_sublist c.drop c x))
    have hne : j.render ≠ "" ∧ j.render ≠ "None" := by
      subst hj
      exact ⟨render_obj_ne _ _ (Or.inl rfl), render_obj_ne _ _ (Or.inr rfl)⟩
    simp only [toJson, he, decodeText, hne.1, hne.2, or_self, if_false, parse_render j hplain]
    exact h1 j he


/-- every class the translator finds, outside `str or float` (Location), for every well-typed value -/
theorem all_classes_text_roundtrip : ∀ c ∈ Gen.Fields.all, c.guard ≠ .strOrFloat → ∀ (valid : String → JVal → Bool) (x : Fields),
    WellTyped c valid x → ∀ j, encode c x = some j → decodeText c valid Gen.Fields.neo4jNone (toJson c x) = .ok (some x) := by
  intro c hc hg valid x hx j he
  obtain ⟨hn, hs, hdd⟩ := specs_sane c hc
  have hd : ∀ f ∈ c.fields, plain f.dflt = true := (by decide : ∀ c ∈ Gen.Fields.all, ∀ f ∈ c.fields, plain f.dflt = true) c hc
  refine (jsonfield_text_roundtrip c valid hn hs x hx ?_).2 j he
  intro f hf
  rcases hx.1 f hf with ⟨e, _⟩ | ⟨hdom, _⟩
  · rw [e]; exact hd f hf
  · exact inDomain_plain c.guard _ hg hdom

/-- ... and `Location`: a coordinate is a float carried as the text `json.dumps` writes (a number lexeme with a fraction or an
exponent, `isFloatLex`); with that the text round trip holds for it as well -/
theorem location_text_roundtrip (valid : String → JVal → Bool) (x : Fields) (hx : WellTyped Gen.Fields.location valid x)
    (hf : ∀ f ∈ Gen.Fields.location.fields, ∀ r, x f.name = .float r → isFloatLex r.toList = true) :
    ∀ j, encode Gen.Fields.location x = some j →
      decodeText Gen.Fields.location valid Gen.Fields.neo4jNone (toJson Gen.Fields.location x) = .ok (some x) := by
  intro j he
  obtain ⟨hn, hs, _⟩ := specs_sane Gen.Fields.location (by simp [Gen.Fields.all])
  refine (jsonfield_text_roundtrip _ valid hn hs x hx ?_).2 j he
  intro f hfm
  rcases hx.1 f hfm with ⟨e, _⟩ | ⟨hdom, _⟩
  · rw [e]; exact (by decide : ∀ f ∈ Gen.Fields.location.fields, plain f.dflt = true) f hfm
  · cases hv : x f.name with
    | float r => simp only [plain]; exact hf f hfm r hv
    | _ => rw [hv] at hdom; simp_all [inDomain, Gen.Fields.location, plain]

example : decodeText Gen.Fields.location (fun _ _ => true) "None" (toJson Gen.Fields.location equator) = .ok (some equator) :=
  location_text_roundtrip _ equator (equator_wellTyped Gen.Fields.location rfl rfl (Or.inr rfl))
    (by
      intro f hf r hr
      simp only [Gen.Fields.location, List.mem_cons, List.mem_nil_iff, or_false] at hf
      rcases hf with rfl | rfl | rfl <;> simp [equator, setF, defaults, dfltOf, Gen.Fields.location] at hr
      subst hr; decide)
    _ rfl

/-- **Tags on text** -/
theorem tags_text_roundtrip (okTag : String → Bool) (ts : List String) (h : ∀ t ∈ ts, okTag t = true) :
    tagsDecodeText okTag (tagsEncode ts).render = .ok (some ts) := by
  have hp : plain (tagsEncode ts) = true := by
    simp only [tagsEncode, plain]
    apply plainL_strs
    simp [isStr]
  simp only [tagsDecodeText, tagsEncode, render_arr_ne _ _ (Or.inl rfl), render_arr_ne _ _ (Or.inr rfl), or_self, if_false]
  rw [show JVal.arr (ts.map .str) = tagsEncode ts from rfl, parse_render _ hp]
  exact tags_roundtrip okTag ts h

/-- **JSONData built from an object**: the stored text is valid JSON by the model of `json.loads` itself (no hypothesis on
an abstract validity predicate) and `.data` is the object, for every float-free object with distinct keys -/
theorem jsondata_obj_value (max : Nat) (j : JVal) (t : String) (hp : plain j = true) (hj : j ≠ .null)
    (h : jdNew max j = .ok t) :
    jdGet t "data" .null = some j ∧ jdFromText (fun s => (parse s).isSome) max t = .ok t := by
  have ht : t = j.render ∧ t.length ≤ max := by
    cases j <;> simp_all [jdNew, jdFromObj] <;> (split at h <;> simp_all <;> omega)
  obtain ⟨rfl, hl⟩ := ht
  refine ⟨by simp [jdGet, parse_render j hp], ?_⟩
  simp [jdFromText, parse_render j hp, Nat.not_lt.2 hl]

/-- **MaintenanceInfo on text**, dates and JSON both concrete: a finalized record with distinct node names whose dates are
`isoformat()` texts reads back from its own `to_json()` text as itself -/
theorem maintenance_text_roundtrip (m : MInfo) (hl : m.lock = true) (hn : (m.nodes.map (·.1)).Nodup)
    (h : ∀ p ∈ m.nodes, EntryDates p.2) (j : JVal) (he : minfoEncode m = .ok j) :
    minfoDecodeText Iso.isoCanon j.render = .ok (some m) := by
  have hj : j = .obj (m.nodes.map fun p => (p.1, entryJson p.2)) := by
    simp only [minfoEncode, hl] at he
    injection he with he; exact he.symm
  have hp : plain j = true := by
    subst hj
    simp only [plain, Bool.and_eq_true, decide_eq_true_eq, List.map_map]
    constructor
    · apply plainK_of_forall
      intro p hpm
      obtain ⟨q, _, rfl⟩ := List.mem_map.1 hpm
      simp [entryJson, plain, plainK, plain_optStr]
    · simpa [Function.comp_def] using hn
  have hne : j.render ≠ "" := by subst hj; exact render_obj_ne _ _ (Or.inl rfl)
  simp only [minfoDecodeText, hne, if_false, parse_render j hp]
  exact maintenance_roundtrip_concrete m hl h j he

open Gen.Fields in
/-- **Gateway on text**: `Gateway.from_json(g.to_json())` is `g`, for every gateway the constructor builds -/
theorem gateway_text_roundtrip (valid) (l g : Fields) (hl : WellTyped labels valid l)
    (hg : gatewayNew labels valid (some l) = .ok (some g)) :
    gatewayDecodeText labels valid neo4jNone (toJson labels g) = .ok (some g) := by
  have hidem := gateway_ctor_idempotent valid l g hl hg
  have hrt := gateway_roundtrip valid l g hl hg
  -- the gateway's own labels are well-typed and encode to a non-empty object
  simp only [gatewayDecode, gatewayEncode] at hrt
  cases he : encode labels g with
  | none =>
    rw [he] at hrt
    simp [decode, gatewayNew] at hrt
  | some j =>
    have hwt : WellTyped labels valid g := by
      simp only [gatewayNew] at hg
      by_cases h4 : (isSet (l "ipv4_subnet") && isSet (l "ipv4")) = true
      · have h4' := Bool.and_eq_true_iff.1 h4
        simp only [h4, if_true] at hg
        rw [gatewayKeep valid "ipv4_subnet" "ipv4" l hl (by decide) (by decide) h4'.1 h4'.2] at hg
        injection hg with hg; injection hg with hg; subst hg
        exact gwPick_wellTyped valid _ _ l hl (by decide) (by decide) h4'.1 h4'.2
      · simp only [h4] at hg
        by_cases h6 : (isSet (l "ipv6_subnet") && isSet (l "ipv6")) = true
        · have h6' := Bool.and_eq_true_iff.1 h6
          simp only [h6, if_true, Bool.false_eq_true, if_false] at hg
          rw [gatewayKeep valid "ipv6_subnet" "ipv6" l hl (by decide) (by decide) h6'.1 h6'.2] at hg
          injection hg with hg; injection hg with hg; subst hg
          exact gwPick_wellTyped valid _ _ l hl (by decide) (by decide) h6'.1 h6'.2
        · simp [h6, gwFinish] at hg
    have ht := all_classes_text_roundtrip labels (by simp [Gen.Fields.all]) (by decide) valid g hwt j he
    simp only [gatewayDecodeText, ht, hidem]

/-- the payload holds no float (hop lists are lists of names, a graph reference is a string) -/
def PayloadPlain : Payload → Prop
  | .unset => True
  | .raw j => plain j = true
  | .path a z => plain a = true ∧ plain z = true

/-- **PathInfo / ERO on text** -/
theorem pathinfo_text_roundtrip (p : PathInfo) (h : PIDomain p) (hp : PayloadPlain p.payload) :
    (p.strict = .bool false → ∀ j, pathInfoEncode p = .ok j → pathInfoDecodeText j.render = .ok (some p)) ∧
    (∀ b, p.strict = .bool b → ∀ j, eroEncode p = .ok j → eroDecodeText j.render = .ok (some p)) := by
  have key : ∀ j, (pathInfoEncode p = .ok j ∨ eroEncode p = .ok j) → plain j = true ∧ j.render ≠ "" := by
    intro j hj
    obtain ⟨t, pl, st⟩ := p
    have hobj : ∃ kvs, j = .obj kvs := by
      rcases hj with hj | hj <;> (simp only [pathInfoEncode, eroEncode] at hj; split at hj <;> simp_all <;> exact ⟨_, hj.symm⟩)
    refine ⟨?_, by obtain ⟨kvs, rfl⟩ := hobj; exact render_obj_ne _ _ (Or.inl rfl)⟩
    cases t with
    | none => simp [PIDomain] at h
    | some t =>
      rcases hj with hj | hj <;> cases t <;> cases pl <;>
        simp_all [PIDomain, PayloadPlain, pathInfoEncode, eroEncode, payloadJson, pathDict] <;>
        (subst hj; simp [plain, plainK, *]) <;> decide
  constructor
  · intro hs j he
    obtain ⟨h1, h2⟩ := key j (Or.inl he)
    simp only [pathInfoDecodeText, h2, if_false, parse_render j h1]
    exact pathinfo_roundtrip p h hs j he
  · intro b hs j he
    obtain ⟨h1, h2⟩ := key j (Or.inr he)
    simp only [eroDecodeText, h2, if_false, parse_render j h1]
    exact ero_roundtrip p h b hs j he

example : PayloadPlain (.path (.arr [.str "n1", .str "n2"]) .null) := by simp [PayloadPlain, plain, plainL]


/-! ### Failed calls: the state after an exception (`Model/CodecFail.lean`)

A method called on an existing value object and REJECTED must leave a value of the codec's domain behind - for the validating
setters the very same value.  The in-place semantics is tied to the code by the `tt.seq` / `jf.seq` / `pi.seq` / `mi.run`
correspondence lines, which carry the state after every step, rejected ones too. -/

/-- **a rejected `parse_from_string` leaves the tuple unchanged** (type, value, encoding): the method validates the type before it
assigns (seeded C03-r4-3 swapped the two; the `tt.seq` correspondence lines compare the state after every rejected call) -/
theorem ttuple_parse_failed_unchanged (types : List (List Char)) (t : TTuple) (s : List Char) (e : Err)
    (h : ttParse types s = .error e) : ttStep types t s = (t, some e) := by
  simp [ttStep, inPlace, h]

/-- over ALL histories of `parse_from_string` calls, accepted or rejected: the type of the tuple stays one of the allowed types -/
theorem ttuple_history_type_ok (types : List (List Char)) (ss : List (List Char)) (t : TTuple) (ht : t.type ∈ types) :
    (ttRun types t ss).type ∈ types := by
  induction ss generalizing t with
  | nil => simpa [ttRun] using ht
  | cons s ss ih =>
    have := ih (ttStep types t s).1 (ttStep_type types t s ht)
    simpa [ttRun] using this

/-- ... hence whatever state a tuple was brought into through the constructor and any such history, its own encoding decodes: to the
same type and the text of the value (the value itself when it is a str; cf. `ttuple_int_counterexample`) -/
theorem ttuple_history_roundtrip (types : List (List Char)) (hc : ∀ ty ∈ types, ':' ∉ ty)
    (ss : List (List Char)) (t : TTuple) (ht : t.type ∈ types) :
    ttParse types (ttEncode (ttRun types t ss)) = .ok ⟨(ttRun types t ss).type, .str (ttRun types t ss).val.pyStr⟩ := by
  have h := ttuple_history_type_ok types ss t ht
  generalize ttRun types t ss = u at h
  simp only [ttParse, ttOf, ttEncode, splitFirst_append u.type _ (hc _ h)]
  simp [h]

/-- **state after a rejected `_set_fields`**: the keywords before the rejected one were applied, nothing else -/
theorem setfields_failed_prefix (c : ClassSpec) (valid) (fg : Bool) (kvs : List (String × JVal)) (x y : Fields) (e : Err)
    (h : setFieldsIP c valid fg kvs x = (y, some e)) :
    ∃ pre bad post, kvs = pre ++ bad :: post ∧ setFields c valid fg pre x = .ok y ∧ setFields c valid fg [bad] y = .error e := by
  induction kvs generalizing x with
  | nil => simp [setFieldsIP] at h
  | cons kv rest ih =>
    obtain ⟨k, v⟩ := kv
    unfold setFieldsIP at h
    cases hg : guardCheck c.guard v with
    | error e' =>
      simp only [hg] at h
      injection h with h1 h2; injection h2 with h2; subst h1; subst h2
      exact ⟨[], (k, v), rest, rfl, rfl, by simp [setFields, hg]⟩
    | ok u =>
      simp only [hg] at h
      by_cases hk : (names c).contains k = true
      · by_cases hv : valid k v = true
        · rw [if_pos hk, if_pos hv] at h
          obtain ⟨pre, bad, post, h1, h2, h3⟩ := ih _ h
          exact ⟨(k, v) :: pre, bad, post, by simp [h1], by unfold setFields; simp only [hg]; rw [if_pos hk, if_pos hv]; exact h2, h3⟩
        · rw [if_pos hk, if_neg hv] at h
          injection h with h1 h2; injection h2 with h2; subst h1; subst h2
          exact ⟨[], (k, v), rest, rfl, rfl, by unfold setFields; simp only [hg]; rw [if_pos hk, if_neg hv]⟩
      · by_cases ha : (!c.strictFields && c.attrs.contains k) = true
        · rw [if_neg hk, if_pos ha] at h
          injection h with h1 h2; injection h2 with h2; subst h1; subst h2
          exact ⟨[], (k, v), rest, rfl, rfl, by unfold setFields; simp only [hg]; rw [if_neg hk, if_pos ha]⟩
        · cases fg
          · rw [if_neg hk, if_neg ha] at h
            simp only [Bool.false_eq_true, if_false] at h
            injection h with h1 h2; injection h2 with h2; subst h1; subst h2
            exact ⟨[], (k, v), rest, rfl, rfl, by unfold setFields; simp only [hg]; rw [if_neg hk, if_neg ha]; simp⟩
          · rw [if_neg hk, if_neg ha] at h
            simp only [if_true] at h
            obtain ⟨pre, bad, post, h1, h2, h3⟩ := ih _ h
            exact ⟨(k, v) :: pre, bad, post, by simp [h1], by unfold setFields; simp only [hg]; rw [if_neg hk, if_neg ha]; simp only [if_true]; exact h2, h3⟩

/-- a rejected `_set_fields` with ONE keyword (what the library itself does on existing objects: gateway.py, component_catalog.py)
leaves the instance unchanged -/
theorem setfields_single_failed_unchanged (c : ClassSpec) (valid) (fg : Bool) (kv : String × JVal) (x y : Fields) (e : Err)
    (h : setFieldsIP c valid fg [kv] x = (y, some e)) : y = x := by
  obtain ⟨pre, bad, post, h1, h2, _⟩ := setfields_failed_prefix c valid fg [kv] x y e h
  cases pre with
  | nil => simp [setFields] at h2; exact h2.symm
  | cons p pre => simp at h1

/-- every state a history of `_set_fields` calls (accepted or rejected, any keywords) can bring a constructed instance into is one the
constructor builds: the theorems about constructible values (`roundtrip_iff`, `lossless`, ...) apply to it -/
theorem setfields_history_constructible (c : ClassSpec) (valid) (calls : List (List (String × JVal))) (x : Fields)
    (hx : ∃ kw, construct c valid kw = .ok x) : ∃ kw, construct c valid kw = .ok (setFieldsRun c valid x calls) := by
  induction calls generalizing x with
  | nil => simpa [setFieldsRun] using hx
  | cons kvs calls ih =>
    have : ∃ kw, construct c valid kw = .ok (setFieldsIP c valid false kvs x).1 := by
      obtain ⟨kw, hkw⟩ := hx
      cases hs : setFields c valid false kvs x with
      | ok y =>
        rw [(setFieldsIP_refines c valid false kvs x).1 y hs]
        exact ⟨kw ++ kvs, by unfold construct at hkw ⊢; rw [setFields_append c valid false kw kvs _ x hkw]; exact hs⟩
      | error e =>
        have h2 := (setFieldsIP_refines c valid false kvs x).2 e hs
        obtain ⟨pre, bad, post, _, h3, _⟩ := setfields_failed_prefix c valid false kvs x (setFieldsIP c valid false kvs x).1 e
          (by rw [← h2])
        exact ⟨kw ++ pre, by unfold construct at hkw ⊢; rw [setFields_append c valid false kw pre _ x hkw]; exact h3⟩
    have := ih _ this
    simpa [setFieldsRun] using this

/-- concrete witness (the corpus case `corpus/C03/failed_set_fields_partial.json` replays it on the implementation):
`Capacities(core=1)._set_fields(ram=5, disk=-1)` raises AssertionError and leaves `ram = 5` behind -/
theorem setfields_failed_unchanged_counterexample :
    let x := setF (defaults Gen.Fields.capacities) "core" (.int 1)
    let r := setFieldsIP Gen.Fields.capacities (fun _ _ => true) false [("ram", .int 5), ("disk", .int (-1))] x
    r.2 = some "assertion" ∧ r.1 "ram" = .int 5 ∧ x "ram" = .int 0 := by decide

/-- a rejected `PathInfo.set` / `ERO.set` (payload of the wrong kind) leaves the object unchanged -/
theorem pathinfo_set_failed_unchanged (p : PathInfo) (pl : Payload) (e : Err) (h : piSet p pl = .error e) :
    piStep p pl = (p, some e) := by simp [piStep, inPlace, h]

/-- after ANY history of `set` calls (accepted or rejected) a PathInfo / ERO is still a value of the codec's domain: `to_json`
is total on it and it reads back (`pathinfo_roundtrip`) -/
theorem pathinfo_history_domain (pls : List Payload) (p : PathInfo) (h : PIDomain p) :
    PIDomain (piRun p pls) ∧ (∃ j, pathInfoEncode (piRun p pls) = .ok j) ∧ (∃ j, eroEncode (piRun p pls) = .ok j) := by
  have hd : PIDomain (piRun p pls) := by
    induction pls generalizing p with
    | nil => simpa [piRun] using h
    | cons pl pls ih => simpa [piRun] using ih _ (piStep_domain p pl h)
  exact ⟨hd, pathinfo_encode_total _ hd⟩

/-- a rejected modifier (finalized record, absent name) leaves the record unchanged -/
theorem maintenance_failed_unchanged (m : MInfo) (op : MOp) (e : Err) (h : miApply m op = .error e) :
    miStep m op = (m, some e) := by simp [miStep, inPlace, h]

/-- lifted to histories: whatever sequence of modifiers is tried on a finalized record, it stays the record it was -/
theorem maintenance_history_finalized (ops : List MOp) (m : MInfo) (h : m.lock = true) : miRunOps m ops = m := by
  induction ops with
  | nil => rfl
  | cons op ops ih =>
    have : (miStep m op).1 = m := by
      obtain ⟨nodes, lock⟩ := m
      simp only at h; subst h
      cases op <;> simp [miStep, inPlace, miApply, MInfo.add, MInfo.rem, MInfo.pop, MInfo.finalize, Except.map]
    simp only [miRunOps, List.foldl_cons, this]
    exact ih

/-- non-vacuity: the generated type lists are colon-free; a history with rejected calls (`vlans:200`, no separator) in between -/
example : (∀ ty ∈ labelTypes, ':' ∉ ty) ∧ "vlan".toList ∈ labelTypes ∧
    ttRun labelTypes ⟨"vlan".toList, .str "100"⟩ ["vlans:200".toList, "mac:aa".toList, "nocolon".toList] = ⟨"mac".toList, .str "aa"⟩ ∧
    ttStep labelTypes ⟨"vlan".toList, .str "100"⟩ "vlans:200".toList = (⟨"vlan".toList, .str "100"⟩, some "tuple") := by decide

example : PIDomain { type := some .path, payload := .unset } ∧
    piStep { type := some .path, payload := .path (.arr [.str "a"]) .null } (.raw (.str "g")) =
      ({ type := some .path, payload := .path (.arr [.str "a"]) .null }, some "assertion") := by
  constructor
  · simp [PIDomain]
  · rfl

example : ∃ kw, construct Gen.Fields.capacities (fun _ _ => true) kw = .ok (setF (defaults Gen.Fields.capacities) "core" (.int 1)) :=
  ⟨[("core", .int 1)], by rfl⟩

example : (MInfo.empty.finalize).lock = true := rfl

/-! ## handles that outlive finalize (Model/CodecPhase.lean; flags probed by gen/miphase.py)

"A finalized maintenance record cannot be altered" - also not through an entry object the caller obtained while the
record was still being built (the object given to `add`, what `get` handed out for editing in place). -/
section phase
open Phase

/-- the ownership behaviour the probes observed on the code -/
def genFlags : Flags :=
  { addKeepsArg := Gen.MiPhase.addKeepsArg, getOpenHandsOutOwn := Gen.MiPhase.getOpenHandsOutOwn,
    finalizeCopies := Gen.MiPhase.finalizeCopies, getLockedCopies := Gen.MiPhase.getLockedCopies }

/-- the code copies where the guarantee needs it: at finalize and when a finalized record hands an entry out; modifiers are refused -/
theorem phase_flags_safe : genFlags.finalizeCopies = true ∧ genFlags.getLockedCopies = true ∧ Gen.MiPhase.addLockedRefused = true := by decide

/-- finalize itself does not change what the record shows, whatever was done to it before -/
theorem phase_finalize_keeps_view {α : Type} (f : Flags) (hf : f.finalizeCopies = true) (d : α) (build : List (Op α)) :
    view (run f (init d) (build ++ [.finalize])) = view (run f (init d) build) := by
  rw [run_append]
  exact (finalize_sep f hf _ (wf_run f build _ (wf_init d))).2

/-- for EVERY build history (adds, gets that hand out the record's own entries, edits through them, earlier finalizes) and
every later history (edits through every handle ever obtained, gets, rejected adds, further finalizes): the content of the
record after the later history is its content at finalize.  Only the two copying flags are needed - what `add` and `get`
do while the record is open is irrelevant. -/
theorem phase_finalized_immutable {α : Type} (f : Flags) (hf : f.finalizeCopies = true) (hg : f.getLockedCopies = true)
    (d : α) (build after : List (Op α)) :
    view (run f (init d) (build ++ [.finalize] ++ after)) = view (run f (init d) (build ++ [.finalize])) := by
  rw [run_append f (build ++ [Op.finalize]) after, run_append f build [Op.finalize]]
  have w := wf_run f build _ (wf_init d)
  have h := finalize_sep f hf _ w
  exact sep_run f hf hg after _ (wf_step f _ .finalize w) h.1

/-- ... and so for the code as probed, without hypotheses -/
theorem phase_finalized_immutable_code {α : Type} (d : α) (build after : List (Op α)) :
    view (run genFlags (init d) (build ++ [.finalize] ++ after)) = view (run genFlags (init d) (build ++ [.finalize])) :=
  phase_finalized_immutable genFlags phase_flags_safe.1 phase_flags_safe.2.1 d build after

example : ∃ f : Flags, f.finalizeCopies = true ∧ f.getLockedCopies = true := ⟨⟨true, true, true, true⟩, rfl, rfl⟩

/-- copying on the way IN (at add) instead of at finalize is not enough: a handle from `get` on the open record survives -/
theorem phase_no_copy_at_finalize_counterexample :
    let f : Flags := { addKeepsArg := false, getOpenHandsOutOwn := true, finalizeCopies := false, getLockedCopies := true }
    view (run f (init 0) [.add "n" 1, .get "n", .finalize, .edit 1 2]) = [("n", 2)] ∧
    view (run f (init 0) [.add "n" 1, .get "n", .finalize]) = [("n", 1)] := by
  decide

end phase

/-! ## the validator object the typed-tuple classes share (Model/CodecShared.lean) -/

/-- **histories over several categories.**  A validator that remembers verdicts under the key (category, name) answers every lookup
of every history - any categories, any names, any order, from an empty memo - with membership of the name in the table of the
category asked: exactly the test `ttNew` / `ttOf` make on the tuple's own table.  (Holds for every key that separates
(category, name) pairs: `CodecShared.runLookups_ok`.) -/
theorem ttuple_shared_validator_history (tbl : String → List (List Char)) (qs : List (String × List Char)) :
    CodecShared.runLookups (fun c t => (c, t)) tbl [] qs = qs.map (fun q => (tbl q.1).contains q.2) := by
  rw [CodecShared.runLookups_ok _ tbl (by intro c t c' t' h; exact Prod.mk.inj h) qs [] (by intro p hp; simp at hp)]
  simp [CodecShared.verdict]

/-- remembering verdicts under the NAME alone is not such a validator: a name refused in one category is then refused in the
category that has it -/
theorem ttuple_validator_memo_by_name_counterexample :
    let tbl : Bool → List Nat := fun c => if c then [1] else []
    CodecShared.runLookups (fun _ t => t) tbl [] [(false, 1), (true, 1)] = [false, false] ∧
    [(false, 1), (true, 1)].map (fun q => CodecShared.verdict tbl q.1 q.2) = [false, true] := by
  decide

/-- ... and the running code was such a validator on the probe histories of gen/ttshared.py (every name of every category offered to
every tuple class through the three entry points, own category first / foreign categories first / rotated, everything twice):
every verdict was the one of the class's own table.  (The differential lines `tt.new / tt.from / tt.parse` with foreign names in a
seeded order and the oracle family `tt_cross` check the same on every run.) -/
theorem ttuple_validator_history_free_code : Gen.TTShared.validatorHistoryFree = true := by decide

end FimVerif.C03
