import FimVerif.Drivers.Proto
import FimVerif.Model.Sched
import FimVerif.Generated.LockCfg
open Lean FimVerif.Proto FimVerif.Lock FimVerif.Sched

def nat? (j : Json) : Option Nat := j.getNat?.toOption

def micro? (j : Json) : Option Micro :=
  match j with
  | .arr #[.str "acq"] => some .acq
  | .arr #[.str "rel"] => some .rel
  | .arr #[.str "loc"] => some .loc
  | .arr #[.str "rdg"] => some .rdg
  | .arr #[.str "delAll"] => some .delAll
  | .arr #[.str "reinit"] => some .reinit
  | .arr #[.str "ld", c] => do some (.ld (← nat? c))
  | .arr #[.str "st", c, k] => do some (.st (← nat? c) (← nat? k))
  | .arr #[.str "ins", c, g, off] => do some (.ins (← nat? c) (← nat? g) (← nat? off))
  | .arr #[.str "rmOne", g] => do some (.rmOne (← nat? g))
  | .arr #[.str "ctor", .bool w] => some (.ctor w)
  | .arr #[.str "read", c] => do some (.read (← nat? c))
  | .arr #[.str "del", g] => do some (.del (← nat? g))
  | .arr #[.str "delSpace", c] => do some (.delSpace (← nat? c))
  | .arr #[.str "bump", c, k] => do some (.bump (← nat? c) (← nat? k))
  | .arr #[.str "bumpReg", c, k] => do some (.bumpReg (← nat? c) (← nat? k))
  | .arr #[.str "setCtr", c, v] => do some (.setCtr (← nat? c) (← nat? v))
  | .arr #[.str "add", c, g, k] => do some (.add (← nat? c) (← nat? g) (← nat? k))
  | .arr #[.str "addFrom", c, g, lo, k] => do some (.addFrom (← nat? c) (← nat? g) (← nat? lo) (← nat? k))
  | _ => none

def micros? (j : Json) : Option (List Micro) :=
  match j with
  | .arr xs => xs.toList.mapM micro?
  | _ => none

def nats? (j : Json) : Option (List Nat) :=
  match j with
  | .arr xs => xs.toList.mapM nat?
  | _ => none

def out? : String → Option Out
  | "norm" => some .norm
  | "ret" => some .ret
  | "exc" => some .exc
  | _ => none

def lockJson : LockSt → Json
  | none => Json.str "err"
  | some (h, n) => Json.arr #[Json.bool h, Json.num (JsonNumber.fromNat n)]

def num (n : Nat) : Json := Json.num (JsonNumber.fromNat n)

def nodeLe (a b : Node) : Bool :=
  a.space < b.space || (a.space == b.space && (a.id < b.id || (a.id == b.id && a.owner ≤ b.owner)))

def insertSorted (n : Node) : List Node → List Node
  | [] => [n]
  | m :: l => if nodeLe n m then n :: m :: l else m :: insertSorted n l

def sortNodes (l : List Node) : List Node := l.foldr insertSorted []

def handle (j : Json) : Json :=
  match j with
  | .arr #[.str "path", .str name, g, k, tr, .str o] =>
    -- is the observed trace of one call (on graph g, importing k nodes) a path of the generated skeleton with its symbols
    -- instantiated, and what does the lock model say?
    match FimVerif.Gen.LockCfg.methods.lookup name, micros? tr, nat? g, nat? k with
    | some s0, some t, some g, some k =>
      let s := instStmt g k s0
      let isP := if o == "done" then isPath s t .norm || isPath s t .ret else isPath s t .exc
      ok (Json.mkObj [("cmp", Json.mkObj [("path", Json.bool isP), ("lock", lockJson (lockRun t))]),
                      ("info", Json.mkObj [("accepts", Json.bool (accepts t))])])
    | none, _, _, _ => err "unknown-method"
    | _, _, _, _ => err "bad-args"
  | .arr #[.str "obligations", .str name] =>
    match FimVerif.Gen.LockCfg.methods.lookup name with
    | some s => ok (Json.mkObj [("balanced", Json.bool (balanced s)), ("neutral", Json.bool (lockNeutral s)),
                                ("disciplined", Json.bool (disciplined s)), ("helper", Json.bool (disciplinedHelper s))])
    | none => err "unknown-method"
  | .arr #[.str "methods"] =>
    ok (Json.mkObj [("locking", ofStrs (FimVerif.Gen.LockCfg.locking.map (·.1))),
                    ("lockfree", ofStrs (FimVerif.Gen.LockCfg.lockfree.map (·.1))),
                    ("helpers", ofStrs (FimVerif.Gen.LockCfg.helpers.map (·.1)))])
  | .arr #[.str "sched", .arr progs, sched, ctrs] =>
    match progs.toList.mapM micros?, nats? sched, nats? ctrs with
    | some ps, some sc, some cs =>
      let s := run sc (init ps)
      let n := ps.length
      let fin := (List.range n).all fun t => (s.thr t).prog.isEmpty
      let skipped := (sc.foldl (fun (acc : Sys × Nat) t => match step t acc.1 with
        | none => (acc.1, acc.2 + 1) | some s' => (s', acc.2)) (init ps, 0)).2
      ok (Json.mkObj [
        ("cmp", Json.mkObj [
          ("lock", match s.lock with | none => Json.null | some t => num t),
          ("relErr", Json.bool s.relErr),
          ("gen", num s.sh.gen),
          ("ctr", Json.arr (cs.map fun c => num (s.sh.ctr c)).toArray),
          ("nodes", Json.arr ((sortNodes (dictView s.sh.nodes)).map fun nd =>
              Json.arr #[num nd.space, num nd.id, num nd.owner]).toArray),
          ("finished", Json.bool fin),
          ("skipped", num skipped)]),
        ("info", Json.mkObj [
          ("accepts", Json.arr (ps.map fun p => Json.bool (accepts p)).toArray),
          ("raw", num s.sh.nodes.length)])])
    | _, _, _ => err "bad-args"
  | _ => err "bad-request"

def main : IO Unit := run handle
