import FimVerif.Drivers.Proto
import FimVerif.Model.Catalog
open Lean FimVerif.Proto FimVerif.Catalog FimVerif.Gen.Catalog

def optStr (j : Json) : Option String := j.getStr?.toOption
def jOptStr : Option String → Json
  | some s => Json.str s
  | none => Json.null

def parseBdf (j : Json) : Option Bdf :=
  match j with
  | .arr #[.str "none"] => some .none
  | .arr #[.str "scalar", n] => (n.getNat?.toOption).map .scalar
  | .arr #[.str "list", n] => (n.getNat?.toOption).map .list
  | _ => none

def parseOptList {α} (j : Json) (f : Json → Option α) : Option (Option (List α)) :=
  match j with
  | .null => some none
  | .arr xs => (xs.toList.mapM f).map some
  | _ => none

def ifaceJson (i : GIface) : Json :=
  Json.mkObj [("name", Json.str i.name), ("kind", Json.str i.kind), ("bw", Json.num (JsonNumber.fromNat i.bw)),
    ("units", Json.num (JsonNumber.fromNat i.units)), ("nodeId", jOptStr i.nodeId),
    ("localNames", ofStrs i.localNames), ("localIsList", Json.bool i.localIsList),
    ("labelIdx", match i.labelIdx with | some k => Json.num (JsonNumber.fromNat k) | none => Json.null)]

def compJson (g : GComp) : Json :=
  Json.mkObj [("model", Json.str g.model), ("type", Json.str g.type), ("details", Json.str g.details),
    ("nsName", jOptStr g.nsName), ("nsType", jOptStr g.nsType), ("nsId", jOptStr g.nsId),
    ("ifaces", Json.arr (g.ifaces.map ifaceJson).toArray)]

def sizeJson (s : Size) : Json :=
  Json.arr #[Json.num (JsonNumber.fromNat s.core), Json.num (JsonNumber.fromNat s.ram), Json.num (JsonNumber.fromNat s.disk)]

def parseCOp (j : Json) : Option COp :=
  match j with
  | .arr #[.str "get", h, .str n, _] => (h.getNat?.toOption).map (COp.get · n)
  | .arr #[.str "fresh", h, c, r, d] =>
    match h.getNat?.toOption, c.getNat?.toOption, r.getNat?.toOption, d.getNat?.toOption with
    | some h, some c, some r, some d => some (.fresh h ⟨c, r, d⟩)
    | _, _, _, _ => none
  | .arr #[.str "aug", .str op, h, h2] =>
    match h.getNat?.toOption, h2.getNat?.toOption with
    | some h, some h2 => if op == "iadd" then some (.aug true h h2) else if op == "isub" then some (.aug false h h2) else none
    | _, _ => none
  | .arr #[.str "bin", .str op, h3, h, h2] =>
    match h3.getNat?.toOption, h.getNat?.toOption, h2.getNat?.toOption with
    | some h3, some h, some h2 => some (.bin op h3 h h2)
    | _, _, _ => none
  | .arr #[.str "use", .str op, h, h2] =>
    match h.getNat?.toOption, h2.getNat?.toOption with
    | some h, some h2 => some (.use op h h2)
    | _, _ => none
  | .arr #[.str "scribble", h] => (h.getNat?.toOption).map COp.scribble
  | .arr #[.str "query", .str n] => some (.query n)
  | .arr #[.str "pick", c, r, d] =>
    match c.getNat?.toOption, r.getNat?.toOption, d.getNat?.toOption with
    | some c, some r, some d => some (.pick ⟨c, r, d⟩)
    | _, _, _ => none
  | .arr #[.str "pickh", h] => (h.getNat?.toOption).map COp.pickh
  | _ => none

def coutJson : COut → Json
  | .caps (some s) => ok (sizeJson s)
  | .caps none => ok Json.null
  | .name n => ok (jOptStr n)

def genReply (r : Except GErr GComp) : Json :=
  match r with
  | .ok g => ok (compJson g)
  | .error .notFound => err "catalog"
  | .error .runtime => err "runtime"
  | .error .type => err "type"
  | .error .index => err "index"

def handle (j : Json) : Json :=
  match j with
  | .arr #[.str "capsess", _, .arr ops] =>
    match ops.toList.mapM parseCOp with
    | some ops =>
      let (st, outs) := crun ⟨instanceCatalog, []⟩ ops
      ok (Json.mkObj [("out", Json.arr (outs.map coutJson).toArray),
        ("damaged", if st.cat == instanceCatalog then Json.null else Json.str "catalogue-changed")])
    | none => err "bad-args"
  | .arr #[.str "genm", .str name, .str member, _, nsId, ids, labels, parent] =>
    match parseOptList ids optStr, parseOptList labels parseBdf with
    | some ids, some labels =>
      match generateM componentCatalog name member (optStr nsId) ids labels (optStr parent) with
      | some r => genReply r
      | none => err "bad-member"
    | _, _ => err "bad-args"
  | .arr #[.str "pick", c, r, d] =>
    match c.getNat?.toOption, r.getNat?.toOption, d.getNat?.toOption with
    | some c, some r, some d => ok (jOptStr (pick instanceCatalog ⟨c, r, d⟩))
    | _, _, _ => err "bad-args"
  | .arr #[.str "caps", .str n] =>
    match capsOf instanceCatalog n with
    | some s => ok (Json.arr #[Json.num (JsonNumber.fromNat s.core), Json.num (JsonNumber.fromNat s.ram), Json.num (JsonNumber.fromNat s.disk)])
    | none => ok Json.null
  | .arr #[.str "enum"] => ok (ofStrs (enumNames componentCatalog))
  | .arr #[.str "session", .arr rs] =>
    let one (r : Json) : Option (String × String × Option (List String) × Option (List Bdf)) :=
      match r with
      | .arr #[.str model, .str type, ids, labels] =>
        match parseOptList ids optStr, parseOptList labels parseBdf with
        | some ids, some labels => some (model, type, ids, labels)
        | _, _ => none
      | _ => none
    match rs.toList.mapM one with
    | some reqs => ok (Json.arr ((sessionObjs componentCatalog 0 reqs).map (fun l => Json.arr (l.map (fun (n : Nat) => Json.num (JsonNumber.fromNat n))).toArray)).toArray)
    | none => err "bad-args"
  | .arr #[.str "gen", .str name, .str model, .str type, nsId, ids, labels, parent] =>
    match parseOptList ids optStr, parseOptList labels parseBdf with
    | some ids, some labels =>
      match generate componentCatalog name model type (optStr nsId) ids labels (optStr parent) with
      | .ok g => ok (compJson g)
      | .error .notFound => err "catalog"
      | .error .runtime => err "runtime"
      | .error .type => err "type"
      | .error .index => err "index"
    | _, _ => err "bad-args"
  | _ => err "bad-request"

def main : IO Unit := run handle
