import FimVerif.Drivers.Proto
import FimVerif.Model.Topo
/-! Line-protocol interpreter of `Model/Topo.lean`, shared by the C07 and C09 drivers.
One JSON object per line (`op`, `fl`, `u`, arguments); reply `["ok", {ret, cache, snap}]` or
`["err", kind, snap]`; `snap` is the whole model after the call (the harness sorts it). -/
namespace FimVerif.TopoRun
open Lean FimVerif FimVerif.Proto FimVerif.Topo

def nidOfString (s : String) : Nid :=
  if s.length ≥ 2 && s.front == 'g' && (s.drop 1).all Char.isDigit then .gen (s.drop 1).toNat! else .user s
def nidToString : Nid → String
  | .user s => s
  | .gen n => "g" ++ toString n

def optStr (j : Json) (k : String) : Option String := (j.getObjValAs? String k).toOption
def optNid (j : Json) (k : String) : Option Nid := (optStr j k).map nidOfString
def getNat (j : Json) (k : String) : Nat := (j.getObjValAs? Nat k).toOption.getD 0
def getStr (j : Json) (k : String) : String := (optStr j k).getD ""
def getArr (j : Json) (k : String) : Option (List Json) :=
  match j.getObjVal? k with
  | .ok (.arr xs) => some xs.toList
  | _ => none

def propArg (j : Json) : PropArg :=
  match j with
  | .arr #[.str "!", .str k] => .bad (Err.ofWire k)
  | .arr #[.str k, .str v] => .ok k v
  | _ => .bad (.named "bad-prop")
def propArgs (j : Json) (k : String) : List PropArg := ((getArr j k).getD []).map propArg

def ifArg (j : Json) : IfArg :=
  match j with
  | .arr #[.str nid, .str name] => .iface (nidOfString nid) name
  | _ => .bogus
def ifArgs (j : Json) (k : String) : Option (List IfArg) := (getArr j k).map (·.map ifArg)

def cacheOf (j : Json) (k : String) : Cache :=
  ((getArr j k).getD []).filterMap (fun x => match x with
    | .arr #[.str name, .str nid] => some (name, nidOfString nid)
    | _ => none)
def cacheJson (c : Cache) : Json := Json.arr (c.map (fun p => Json.arr #[Json.str p.1, Json.str (nidToString p.2)])).toArray

def refJson (r : Ref) : Json := Json.arr #[Json.str r.cls.toString, Json.str (nidToString r.nid)]
def snapJson (s : Topo) : Json :=
  Json.mkObj [
    ("nodes", Json.arr (s.nodes.map (fun n => Json.arr #[Json.str n.cls.toString, Json.str (nidToString n.nid), Json.str n.name,
        Json.str n.typ, Json.arr (n.props.map (fun p => Json.arr #[Json.str p.1, Json.str p.2])).toArray])).toArray),
    ("edges", Json.arr (s.edges.map (fun e => Json.arr #[refJson e.a, refJson e.b,
        Json.str (match e.rel with | .has => "has" | .connects => "connects")])).toArray)]

def clsOf (k : String) : Cls :=
  if k == "node" then .networkNode else if k == "comp" then .component else if k == "svc" then .networkService
  else if k == "iface" then .connectionPoint else .link

def flOf (j : Json) : Flavour := if getStr j "fl" == "sub" then .substrate else .experiment

def finish {α : Type} (r : Except Err α × Topo) (ret : α → Json) (cache : α → Json) : Topo × Json :=
  match r with
  | (.ok a, s) => (s, Json.arr #[Json.str "ok", Json.mkObj [("ret", ret a), ("cache", cache a), ("snap", snapJson s)]])
  | (.error e, s) => (s, Json.arr #[Json.str "err", Json.str e.toWire, snapJson s])

def nidJ (n : Nid) : Json := Json.str (nidToString n)
def nul {α : Type} : α → Json := fun _ => Json.null

def svcArgs (j : Json) : SvcArgs :=
  ⟨getStr j "name", optNid j "nid", optStr j "nstype", optStr j "tech", optStr j "site", propArgs j "props", (ifArgs j "ifs").getD []⟩

def portSpecs (j : Json) (k : String) : List (String × String × List PropArg) :=
  ((getArr j k).getD []).filterMap (fun x => match x with
    | .arr #[.str n, .str suf, .arr ps] => some (n, suf, ps.toList.map propArg)
    | _ => none)
def facIfs (j : Json) (k : String) : Option (List (String × List PropArg)) :=
  (getArr j k).map (fun l => l.filterMap (fun x => match x with
    | .arr #[.str n, .arr ps] => some (n, ps.toList.map propArg)
    | _ => none))

/-- the request as a call of the op alphabet `Topo.TopoOp` (what `C09.atomic_op` quantifies over) -/
def opOf (j : Json) : Option TopoOp :=
  let op := getStr j "op"
  let fl := flOf j
  let u := getNat j "u"
  let ifa := ifArg ((j.getObjVal? "if").toOption.getD Json.null)
  if op == "add_node" then
    some (.addNode fl u ⟨getStr j "name", optNid j "nid", optStr j "site", optStr j "ntype", propArgs j "props"⟩)
  else if op == "add_component" then
    some (.addComponent fl u (nidOfString (getStr j "parent"))
      ⟨getStr j "name", optNid j "nid", optStr j "ctype", optStr j "model", optNid j "ns_nid",
       (getArr j "if_nids").map (·.filterMap (fun x => x.getStr?.toOption.map nidOfString)),
       (j.getObjValAs? Nat "n_labels").toOption, propArgs j "props"⟩)
  else if op == "add_storage" then
    some (.addStorage fl u (nidOfString (getStr j "parent")) (getStr j "name") (optNid j "nid") (propArgs j "props"))
  else if op == "node_add_service" then some (.nodeAddService fl u (nidOfString (getStr j "parent")) (svcArgs j))
  else if op == "add_service" then some (.addService fl u (svcArgs j))
  else if op == "add_link" then
    some (.addLink fl u (getStr j "name") (optNid j "nid") (optStr j "ltype") (ifArgs j "ifs") (optStr j "tech") (propArgs j "props"))
  else if op == "ns_add_interface" then
    some (.nsAddInterface fl u (nidOfString (getStr j "svc")) (cacheOf j "cache") (getStr j "name") (optNid j "nid")
      (optStr j "itype") (propArgs j "props"))
  else if op == "ns_remove_interface" then some (.nsRemoveInterface fl (nidOfString (getStr j "svc")) (getStr j "name"))
  else if op == "connect" then some (.connect fl u (nidOfString (getStr j "svc")) (cacheOf j "cache") ifa)
  else if op == "disconnect" then some (.disconnect (cacheOf j "cache") ifa)
  else if op == "add_facility" then
    some (.addFacility fl u (getStr j "name") (optNid j "nid") (optStr j "site") (optStr j "nstype") (propArgs j "nsprops")
      (facIfs j "ifs") (propArgs j "props"))
  else if op == "add_switch" then
    some (.addSwitch fl u (getStr j "name") (optNid j "nid") (optStr j "site") (optStr j "nstype") (propArgs j "nsprops")
      (portSpecs j "ports"))
  else if op == "remove_node" then some (.removeNode (getStr j "name"))
  else if op == "remove_facility" then some (.removeFacility (getStr j "name"))
  else if op == "remove_switch" then some (.removeSwitch (getStr j "name"))
  else if op == "remove_link" then some (.removeLink (getStr j "name"))
  else if op == "remove_service" then some (.removeService (getStr j "name"))
  else if op == "node_remove_service" then some (.nodeRemoveService (nidOfString (getStr j "parent")) (getStr j "name"))
  else if op == "remove_component" then some (.removeComponent (nidOfString (getStr j "parent")) (getStr j "name"))
  else if op == "set_props" then some (.setProps (nidOfString (getStr j "nid")) (propArgs j "props"))
  else if op == "unset_prop" then some (.unsetProp (nidOfString (getStr j "nid")) (optStr j "gname"))
  else if op == "rename" then some (.rename (clsOf (getStr j "kind")) (nidOfString (getStr j "nid")) (getStr j "name"))
  else none

def strPairs (j : Json) (k : String) : List (String × String) :=
  ((getArr j k).getD []).filterMap (fun x => match x with
    | .arr #[.str a, .str b] => some (a, b)
    | _ => none)

def svcHandle (j : Json) (k : String) : Option SvcHandle :=
  match j.getObjVal? k with
  | .ok o => match o with
    | .obj _ => some ⟨nidOfString (getStr o "nid"), getStr o "name", cacheOf o "cache"⟩
    | _ => none
  | _ => none

def getBool (j : Json) (k : String) : Bool := (j.getObjValAs? Bool k).toOption.getD false

/-- the requests of the second alphabet `Topo.XOp` (what `C09.atomic_xop` quantifies over) -/
def xopOf (j : Json) : Option XOp :=
  let op := getStr j "op"
  let fl := flOf j
  let u := getNat j "u"
  if op == "add_child_interface" then
    some (.addChildInterface fl u (nidOfString (getStr j "port")) (cacheOf j "cache") (getStr j "name") (optNid j "nid")
      (optStr j "vlan") (strPairs j "vlan_tbl") (propArgs j "props"))
  else if op == "remove_child_interface" then
    some (.removeChildInterface (nidOfString (getStr j "port")) (cacheOf j "cache") (getStr j "name"))
  else if op == "peer" then
    some (.peer fl u (nidOfString (getStr j "svc")) (getStr j "sname") (cacheOf j "cache") (svcHandle j "other") (propArgs j "props"))
  else if op == "unpeer" then some (.unpeer (cacheOf j "cache") (svcHandle j "other"))
  else if op == "add_port_mirror" then some (.addPortMirror fl u (svcArgs j) (getBool j "to_ok") (getBool j "from_ok"))
  else if op == "add_component_mt" then
    some (.addComponentMT fl u (nidOfString (getStr j "parent"))
      ⟨getStr j "name", optNid j "nid", optStr j "ctype", optStr j "model", optNid j "ns_nid",
       (getArr j "if_nids").map (·.filterMap (fun x => x.getStr?.toOption.map nidOfString)),
       (j.getObjValAs? Nat "n_labels").toOption, propArgs j "props"⟩ (getStr j "mt_model", getStr j "mt_type"))
  else if op == "prune" then
    some (.prune (((getArr j "nodes").getD []).filterMap (fun x => x.getStr?.toOption))
      (((getArr j "comps").getD []).filterMap (fun x => match x with
        | .arr #[.str a, .str b, .str c] => some (nidOfString a, b, nidOfString c)
        | _ => none))
      (((getArr j "nss").getD []).filterMap (fun x => x.getStr?.toOption.map nidOfString))
      (((getArr j "ifs").getD []).filterMap (fun x => x.getStr?.toOption.map nidOfString)))
  else none

def finishX (r : Except Err OutX × Topo) : Topo × Json :=
  match r with
  | (.ok a, s) => (s, Json.arr #[Json.str "ok", Json.mkObj [
      ("ret", match a.ret with | some n => Json.str (nidToString n) | none => Json.null),
      ("cache", match a.cache with | some c => cacheJson c | none => Json.null),
      ("cache2", match a.cache2 with | some c => cacheJson c | none => Json.null),
      ("snap", snapJson s)]])
  | (.error e, s) => (s, Json.arr #[Json.str "err", Json.str e.toWire, snapJson s])

def outRet (o : Out) : Json := match o.ret with | some n => nidJ n | none => Json.null
def outCache (o : Out) : Json := match o.cache with | some c => cacheJson c | none => Json.null

/-- every building call goes through `Topo.step` -/
def step (s : Topo) (j : Json) : Topo × Json :=
  let op := getStr j "op"
  match opOf j with
  | some o => finish (Topo.step o s) outRet outCache
  | none =>
    match xopOf j with
    | some x => finishX (Topo.stepX x s)
    | none =>
    if op == "reset" then (Topo.empty, ok Json.null)
    else if op == "snap" then (s, ok (snapJson s))
    else if op == "views" then
      (s, ok (Json.mkObj [("nodes", ofStrs (viewNodes s)), ("facilities", ofStrs (viewFacilities s)),
                          ("links", ofStrs (viewLinks s)), ("services", ofStrs (viewServices s))]))
    else (s, err "bad-op")

end FimVerif.TopoRun
