import FimVerif.Drivers.TopoRun
import FimVerif.Proofs.C07
import FimVerif.Model.TopoView
import FimVerif.Model.TopoExt
/-! C07 driver: the shared interpreter of `Model/Topo.lean` plus
* `{"op":"inv"}` - evaluates every conjunct of `Topo.Inv` (Proofs/Lemmas/TopoInv.lean) on the current model state;
* `{"op":"covered","call":{…}}` - reads the request of a building call as a `TopoOp` / `XOp` (the argument extraction of
  `TopoRun.step` itself: `TopoRun.opOf` / `xopOf`) and evaluates the guards `C07.CoveredS` / `CoveredD` (`CoveredSX` / `CoveredDX`) of the history theorems
  and `InvS` / `InvD` in the current state, i.e. before the call. -/
open Lean FimVerif FimVerif.Proto FimVerif.Topo FimVerif.TopoRun

def stepC07 (s : Topo) (j : Json) : Topo × Json :=
  let op := getStr j "op"
  if op == "inv" then
    (s, ok (Json.mkObj ((verdicts s ++ [("invS", decide (InvS s)), ("invSN", decide (InvSN s))]).map (fun p => (p.1, Json.bool p.2)))))
  else if op == "covered" then
    let call := (j.getObjVal? "call").toOption.getD Json.null
    match opOf call with
    | none =>
      match xopOf call with
      | none => (s, err "bad-call")
      | some x =>
        (s, ok (Json.mkObj [("coveredD", Json.bool (decide (FimVerif.C07.CoveredDX s x))), ("coveredS", Json.bool (decide (FimVerif.C07.CoveredSX s x))),
                            ("coveredN", Json.bool (decide (FimVerif.C07.CoveredSX s x))), ("invSN", Json.bool (decide (InvSN s))),
                            ("invD", Json.bool (decide (InvD s))), ("invS", Json.bool (decide (InvS s)))]))
    | some o =>
      (s, ok (Json.mkObj [("coveredD", Json.bool (decide (FimVerif.C07.CoveredD s o))), ("coveredS", Json.bool (decide (FimVerif.C07.CoveredS s o))),
                          ("coveredN", Json.bool (decide (FimVerif.C07.CoveredN s o))), ("invSN", Json.bool (decide (InvSN s))),
                          ("invD", Json.bool (decide (InvD s))), ("invS", Json.bool (decide (InvS s)))]))
  else if op == "set_props" && writesNameOrType (propArgs j "props") then
    -- the keywords `name` / `type` (Model/TopoExt.lean; the shared `Topo.setProps` covers the others)
    finish (setPropsNT (nidOfString (getStr j "nid")) (propArgs j "props") s) nul nul
  else if op == "view_calls" then
    -- one view object over the current model; the calls are applied to it in turn; reply: per call the outcome and the view's keys
    let kind := if getStr j "view" == "nodes" then FimVerif.TopoView.Kind.nodes else if getStr j "view" == "facilities" then .facilities
      else if getStr j "view" == "links" then .links else .services
    let calls : List FimVerif.TopoView.Call := ((getArr j "calls").getD []).filterMap (fun x => match x with
      | .arr #[.str c, .str k] =>
        some (if c == "len" then .len else if c == "keys" then .keys else if c == "contains" then .contains k
              else if c == "getitem" then .getitem k else if c == "get" then .get k else .mutator c k)
      | _ => none)
    let step (acc : FimVerif.TopoView.VState × List Json) (c : FimVerif.TopoView.Call) : FimVerif.TopoView.VState × List Json :=
      let r := FimVerif.TopoView.call c acc.1
      let out : Json := match r.1 with
        | .ok (.nat n) => Json.arr #[Json.str "ok", Json.num n]
        | .ok (.strs l) => Json.arr #[Json.str "ok", ofStrs l]
        | .ok (.bool b) => Json.arr #[Json.str "ok", Json.bool b]
        | .ok .unit => Json.arr #[Json.str "ok", Json.null]
        | .error e => Json.arr #[Json.str "err", Json.str e.toWire]
      (r.2, acc.2 ++ [Json.arr #[out, ofStrs r.2.keys]])
    let fin := calls.foldl step (FimVerif.TopoView.openView kind s, [])
    (s, ok (Json.arr fin.2.toArray))
  else FimVerif.TopoRun.step s j

def main : IO Unit := runState FimVerif.Topo.Topo.empty stepC07
