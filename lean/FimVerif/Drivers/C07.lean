import FimVerif.Drivers.TopoRun
import FimVerif.Proofs.C07
/-! C07 driver: the shared interpreter of `Model/Topo.lean` plus
* `{"op":"inv"}` - evaluates every conjunct of `Topo.Inv` (Proofs/Lemmas/TopoInv.lean) on the current model state;
* `{"op":"covered","call":{…}}` - reads the request of a building call as a `TopoOp` (same argument extraction as
  `TopoRun.step`) and evaluates the guards `C07.CoveredS` / `C07.CoveredD` of the history theorems (Proofs/C07.lean, no Mathlib)
  and `InvS` / `InvD` in the current state, i.e. before the call. -/
open Lean FimVerif FimVerif.Proto FimVerif.Topo FimVerif.TopoRun

def opOfJson (j : Json) : Option TopoOp :=
  let op := getStr j "op"
  let fl := flOf j
  let u := getNat j "u"
  let ifa := ifArg ((j.getObjVal? "if").toOption.getD Json.null)
  if op == "add_node" then some (.addNode fl u ⟨getStr j "name", optNid j "nid", optStr j "site", optStr j "ntype", propArgs j "props"⟩)
  else if op == "add_component" then
    some (.addComponent fl u (nidOfString (getStr j "parent"))
      ⟨getStr j "name", optNid j "nid", optStr j "ctype", optStr j "model", optNid j "ns_nid",
       (getArr j "if_nids").map (·.filterMap (fun x => x.getStr?.toOption.map nidOfString)),
       (j.getObjValAs? Nat "n_labels").toOption, propArgs j "props"⟩)
  else if op == "add_storage" then
    some (.addStorage fl u (nidOfString (getStr j "parent")) (getStr j "name") (optNid j "nid") (propArgs j "props"))
  else if op == "node_add_service" then some (.nodeAddService fl u (nidOfString (getStr j "parent")) (svcArgs j))
  else if op == "add_service" then some (.addService fl u (svcArgs j))
  else if op == "add_link" then
    some (.addLink fl u (getStr j "name") (optNid j "nid") (optStr j "ltype") (ifArgs j "ifs") (optStr j "tech") (propArgs j "props"))
  else if op == "ns_add_interface" then
    some (.nsAddInterface fl u (nidOfString (getStr j "svc")) (cacheOf j "cache") (getStr j "name") (optNid j "nid") (optStr j "itype")
      (propArgs j "props"))
  else if op == "ns_remove_interface" then some (.nsRemoveInterface fl (nidOfString (getStr j "svc")) (getStr j "name"))
  else if op == "connect" then some (.connect fl u (nidOfString (getStr j "svc")) (cacheOf j "cache") ifa)
  else if op == "disconnect" then some (.disconnect (cacheOf j "cache") ifa)
  else if op == "add_facility" then
    some (.addFacility fl u (getStr j "name") (optNid j "nid") (optStr j "site") (optStr j "nstype") (propArgs j "nsprops")
      (facIfs j "ifs") (propArgs j "props"))
  else if op == "add_switch" then
    some (.addSwitch fl u (getStr j "name") (optNid j "nid") (optStr j "site") (optStr j "nstype") (propArgs j "nsprops")
      (portSpecs j "ports"))
  else if op == "remove_node" then some (.removeNode (getStr j "name"))
  else if op == "remove_facility" then some (.removeFacility (getStr j "name"))
  else if op == "remove_switch" then some (.removeSwitch (getStr j "name"))
  else if op == "remove_link" then some (.removeLink (getStr j "name"))
  else if op == "remove_service" then some (.removeService (getStr j "name"))
  else if op == "node_remove_service" then some (.nodeRemoveService (nidOfString (getStr j "parent")) (getStr j "name"))
  else if op == "remove_component" then some (.removeComponent (nidOfString (getStr j "parent")) (getStr j "name"))
  else if op == "set_props" then some (.setProps (nidOfString (getStr j "nid")) (propArgs j "props"))
  else if op == "unset_prop" then some (.unsetProp (nidOfString (getStr j "nid")) (optStr j "gname"))
  else if op == "rename" then some (.rename (clsOf (getStr j "kind")) (nidOfString (getStr j "nid")) (getStr j "name"))
  else none

def stepC07 (s : Topo) (j : Json) : Topo × Json :=
  let op := getStr j "op"
  if op == "inv" then
    (s, ok (Json.mkObj ((verdicts s ++ [("invS", decide (InvS s)), ("invSN", decide (InvSN s))]).map (fun p => (p.1, Json.bool p.2)))))
  else if op == "covered" then
    match opOfJson ((j.getObjVal? "call").toOption.getD Json.null) with
    | none => (s, err "bad-call")
    | some o =>
      (s, ok (Json.mkObj [("coveredD", Json.bool (decide (FimVerif.C07.CoveredD s o))), ("coveredS", Json.bool (decide (FimVerif.C07.CoveredS s o))),
                          ("coveredN", Json.bool (decide (FimVerif.C07.CoveredN s o))), ("invSN", Json.bool (decide (InvSN s))),
                          ("invD", Json.bool (decide (InvD s))), ("invS", Json.bool (decide (InvS s)))]))
  else FimVerif.TopoRun.step s j

def main : IO Unit := runState FimVerif.Topo.Topo.empty stepC07
