import FimVerif.Drivers.TopoRun
import FimVerif.Proofs.Lemmas.TopoInv
/-! C07 driver: the shared interpreter of `Model/Topo.lean` plus `{"op":"inv"}`, which evaluates every conjunct of
`Topo.Inv` (Proofs/Lemmas/TopoInv.lean) on the current model state. -/
open Lean FimVerif FimVerif.Proto

def stepC07 (s : FimVerif.Topo.Topo) (j : Json) : FimVerif.Topo.Topo × Json :=
  if FimVerif.TopoRun.getStr j "op" == "inv" then
    (s, ok (Json.mkObj ((FimVerif.Topo.verdicts s).map (fun p => (p.1, Json.bool p.2)))))
  else FimVerif.TopoRun.step s j

def main : IO Unit := runState FimVerif.Topo.Topo.empty stepC07
