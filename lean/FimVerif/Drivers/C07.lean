import FimVerif.Drivers.TopoRun
open FimVerif FimVerif.Proto

def main : IO Unit := runState FimVerif.Topo.Topo.empty FimVerif.TopoRun.step
