import FimVerif.Drivers.Proto
import FimVerif.Model.Validate16
open Lean FimVerif.Proto FimVerif.V16 FimVerif.Regex

def toItem : Json → Item
  | .str s => .str s.toList
  | _ => .other

def toVal : Json → Val
  | .null => .none
  | .str s => .str s.toList
  | .arr xs => .list (xs.toList.map toItem)
  | _ => .other

def toKw : Json → Option (List (String × Val))
  | .arr xs => xs.toList.mapM fun p =>
      match p with
      | .arr #[.str k, v] => some (k, toVal v)
      | _ => none
  | _ => none

def ofItem : Item → Json
  | .str s => .str (String.ofList s)
  | .other => .null

def ofVal : Val → Json
  | .none => .null
  | .str s => .str (String.ofList s)
  | .list xs => .arr (xs.map ofItem).toArray
  | .other => .num 0

def ofObj (o : LObj) : Json :=
  .arr ((toDict o).map fun (k, v) => Json.arr #[.str k, ofVal v]).toArray

def toPath : String → Option Path
  | "ctor" => some .ctor | "setf" => some .setf | "update" => some .update
  | "json" => some .json | "elem" => some .elem | _ => none

def toTArg : Json → TArg
  | .arr xs => .many (xs.toList.map toItem)
  | j => .one (toItem j)

/-- wire JSON -> JVal: integers only; an object travels as `{"o": [[key, value], ...]}` (member order kept) -/
partial def toJ : Json → Option FimVerif.JVal
  | .null => some .null
  | .bool b => some (.bool b)
  | .num n => match (Json.num n).getInt? with
    | .ok i => some (.int i)
    | .error _ => none
  | .str s => some (.str s)
  | .arr xs => (xs.toList.mapM toJ).map FimVerif.JVal.arr
  | .obj kvs =>
    match kvs.get? "o" with
    | some (.arr items) =>
      (items.toList.mapM fun (it : Json) =>
        match it with
        | Json.arr #[Json.str k, v] => (toJ v).map fun v' => (k, v')
        | _ => none).map FimVerif.JVal.obj
    | _ => none

def reply {α} (r : Res α) (f : α → Json) : Json :=
  match r with
  | .ok v => ok (f v)
  | .error e => err e

def handle (j : Json) : Json :=
  match j with
  | .arr #[.str "labels", .str p, b, k] =>
    match toPath p, toKw b, toKw k with
    | some path, some bkw, some kw =>
      match setFields false defaultObj bkw with
      | .error _ => err "base"
      | .ok base => reply (enter path base kw) ofObj
    | _, _, _ => err "bad-args"
  | .arr #[.str "tags", .arr args] =>
    reply (tagsCtor (args.toList.map toTArg)) (fun l => Json.arr (l.map (fun s => Json.str (String.ofList s))).toArray)
  | .arr #[.str "name", .str cls, v] => reply (setName cls (toVal v)) (fun s => Json.str (String.ofList s))
  | .arr #[.str "create", .str own, .str kind, .str variant, .str parent, v] =>
    reply (createNamed own kind variant parent.toList (toVal v)) (fun s => Json.str (String.ofList s))
  | .arr #[.str "ehist", .str cls, .str init, .arr ops] =>
    let ops' := ops.toList.filterMap fun o =>
      match o with
      | .arr #[.str e, v] =>
        (match e with
         | "rename" => some NameEntry.rename | "assign" => some NameEntry.assign
         | "set_property" => some NameEntry.setProperty | "set_properties" => some NameEntry.setProperties | _ => none).map (fun x => (x, toVal v))
      | _ => none
    let r := runElem { cls := cls, name := init.toList, handle := init.toList } ops'
    ok (Json.arr #[.str (String.ofList r.name), .str (String.ofList r.handle)])
  | .arr #[.str "kept", .str cls, .str init, .arr ops] =>
    -- one kept sliver: a history of set_name / set_boot_script calls (the route - setter, set_property, set_properties - dispatches
    -- to the same setter), then the object is encoded and decoded
    let ops' := ops.toList.filterMap fun o =>
      match o with
      | .arr #[.str "name", _, v] => some (SetOp.name (toVal v))
      | .arr #[.str "boot", _, v] => some (SetOp.boot (toVal v))
      | _ => none
    let s := runSliver repoKept { cls := cls, name := .str init.toList, boot := .none } ops'
    let show_ : Val → Json := fun v => match v with
      | .none => Json.null
      | .str x => Json.str (String.ofList x)
      | _ => Json.str "<other>"
    let back := match reDecode repoKept s with
      | .ok s' => if s' = s then "same" else "differs"
      | .error _ => "err"
    ok (Json.arr #[show_ s.name, show_ s.boot, .str back])
  | .arr #[.str "boot", v] => reply (setBoot (toVal v)) (fun o => match o with | none => Json.null | some s => Json.str (String.ofList s))
  | .arr #[.str "jsonstr", .str cls, .num n, .bool valid] => reply (jsonStr cls n.mantissa.toNat valid) (fun _ => Json.bool true)
  | .arr #[.str "jsonobj", .str cls, .bool dok, .num n] => reply (jsonObj cls dok n.mantissa.toNat) (fun _ => Json.bool true)
  | .arr #[.str "jsontext", .str cls, .str text] => reply (jsonText cls text) (fun _ => Json.bool true)
  | .arr #[.str "jsonval", .str cls, v] =>
    match toJ v with
    | some j => reply (jsonValue cls j) (fun t => Json.num t.length)
    | none => err "bad-args"
  | .arr #[.str "match", .str which, .str s] =>
    -- raw matcher on one named regex (used to compare the matcher itself with CPython's re)
    match (FimVerif.Gen.Validators.labelRegex.lookup which) with
    | some r => ok (Json.arr #[.bool (r.matches s.toList), .bool (accepts .pyDollar r s.toList)])
    | none => err "bad-regex"
  | _ => err "bad-request"

def main : IO Unit := run handle
