import FimVerif.Drivers.Proto
import FimVerif.Model.Deleg
/-! Line-protocol driver for C12.  JSON values travel in an order-preserving wire form:
objects `{"o":[[k,v],…]}`, arrays `{"a":[…]}`, floats `{"f":0}`; everything else as itself. -/
open Lean FimVerif.Proto FimVerif.Deleg

partial def fromWire (j : Json) : Option JVal :=
  match j with
  | .null => some .null
  | .bool b => some (.bool b)
  | .str s => some (.str s)
  | .num n => if n.exponent == 0 then some (.int n.mantissa) else some .flt
  | Json.arr _ => none
  | .obj _ =>
    match j.getObjVal? "o" with
    | .ok (.arr kvs) =>
      (kvs.toList.mapM fun (kv : Json) =>
        match kv with
        | Json.arr #[Json.str k, v] => (fromWire v).map (fun v' => (k, v'))
        | _ => none).map JVal.obj
    | _ =>
      match j.getObjVal? "a" with
      | .ok (.arr xs) => (xs.toList.mapM fromWire).map JVal.arr
      | _ => match j.getObjVal? "f" with
        | .ok _ => some .flt
        | _ => none

partial def toWire (v : JVal) : Json :=
  match v with
  | .null => .null
  | .bool b => .bool b
  | .int i => .num (JsonNumber.fromInt i)
  | .flt => Json.mkObj [("f", .num 0)]
  | .str s => .str s
  | .arr l => Json.mkObj [("a", .arr (l.map toWire).toArray)]
  | .obj kv => Json.mkObj [("o", .arr (kv.map (fun p => Json.arr #[.str p.1, toWire p.2])).toArray)]

def errName : Err → String
  | .assertion => "assertion" | .delegation => "delegation" | .pool => "pool" | .key => "key"
  | .type => "type" | .attribute => "attribute" | .capacity => "capacity" | .label => "label"
  | .unmodelled => "unmodelled"

def tyOf (s : String) : Option DType :=
  if s == "CAPACITY" then some .cap else if s == "LABEL" then some .lab else none
def tyName : DType → String | .cap => "CAPACITY" | .lab => "LABEL"
def fmtOf (s : String) : Option Fmt :=
  if s == "SinglePool" then some .single else if s == "PoolDefinition" then some .definition
  else if s == "PoolReference" then some .reference else none
def fmtName : Fmt → String
  | .single => "SinglePool" | .definition => "PoolDefinition" | .reference => "PoolReference"

def optStr (j : Json) : Option (Option String) :=
  match j with
  | .null => some none
  | .str s => some (some s)
  | _ => none

def strJson : Option String → Json
  | none => .null
  | some s => .str s

/-- `[kind, wire]` or null -/
def detSpec (j : Json) : Option (Option (DType × JVal)) :=
  match j with
  | .null => some none
  | .arr #[.str k, w] => do
    let ty ← tyOf k
    let v ← fromWire w
    pure (some (ty, v))
  | _ => none

structure DSpec where
  ty : DType
  id : String
  fmt : Fmt
  pool : Option String
  det : Option (DType × JVal)

def dspec (j : Json) : Option DSpec := do
  let ty ← tyOf (← (j.getObjValAs? String "ty").toOption)
  let id ← (j.getObjValAs? String "id").toOption
  let fmt ← fmtOf (← (j.getObjValAs? String "fmt").toOption)
  let pool ← optStr (← (j.getObjVal? "pool").toOption)
  let det ← detSpec (← (j.getObjVal? "det").toOption)
  pure { ty, id, fmt, pool, det }

def dspecs (j : Json) : Option (List DSpec) :=
  match j with
  | .arr xs => xs.toList.mapM dspec
  | _ => none

/-- build a `Delegations` through the API, one delegation after the other:
details object, `Delegation(...)`, `set_details`, `add_delegations` -/
def buildDelegs (cty : DType) (specs : List DSpec) : Except Err (Delegations Det) :=
  specs.foldlM (fun ds s => do
    let x ← match s.det with
      | none => pure none
      | some (k, j) => (mkDet k j).map some
    let d ← mkDelegation s.ty s.id s.fmt s.pool
    let d ← match x with
      | none => pure d
      | some x => setDetails detOps d x
    addDelegation ds d) { ty := cty, items := [] }

/-- construct the arguments of one call (details object, `Delegation(...)`, `set_details` each) -/
def buildArgs (specs : List DSpec) : Except Err (List (Delegation Det)) :=
  specs.mapM (fun s => do
    let x ← match s.det with
      | none => pure none
      | some (k, j) => (mkDet k j).map some
    let d ← mkDelegation s.ty s.id s.fmt s.pool
    match x with
      | none => pure d
      | some x => setDetails detOps d x)

/-- a sequence of `add_delegations(*args)` calls; stops at the first exception; the container as it is then -/
def runCalls (cty : DType) (calls : List (List DSpec)) : Delegations Det × Option Err :=
  let rec go (ds : Delegations Det) : List (List DSpec) → Delegations Det × Option Err
    | [] => (ds, none)
    | c :: rest =>
      match buildArgs c with
      | .error e => (ds, some e)
      | .ok args =>
        match addDelegations ds args with
        | (ds', some e) => (ds', some e)
        | (ds', none) => go ds' rest
  go { ty := cty, items := [] } calls

def dvalWire : DVal → Json
  | .none => .null
  | .int i => .num (JsonNumber.fromInt i)
  | .bool b => .bool b
  | .str s => .str s
  | .strs l => .arr (l.map Json.str).toArray

def detJson : Option Det → Json
  | none => .null
  | some d => .arr #[.str (tyName d.kind), .arr (d.fields.map (fun p => Json.arr #[.str p.1, dvalWire p.2])).toArray]

def delegJson (d : Delegation Det) : Json :=
  .arr #[.str d.id, .str (fmtName d.fmt), strJson d.pool, detJson d.details, .str (tyName d.ty)]

def delegsJson (ds : Delegations Det) : Json :=
  .arr #[.str (tyName ds.ty), .arr (ds.items.map delegJson).toArray]

def sortStr (l : List String) : List String := l.mergeSort (fun a b => decide (a ≤ b))

def nodeDelegsJson (r : NodeDelegs Det) : Json :=
  let r' := r.mergeSort (fun a b => decide (a.1 ≤ b.1))
  .arr (r'.map (fun e => Json.arr #[.str e.1, delegsJson e.2])).toArray

def poolJson (p : Pool Det) : Json :=
  .arr #[.str p.pid, .str (tyName p.ty), strJson p.deleg, strJson p.on_, ofStrs (sortStr p.for_), detJson p.details]

def poolsJson (ps : Pools Det) : Json :=
  let l := ps.byId.mergeSort (fun a b => decide (a.pid ≤ b.pid))
  .arr (l.map poolJson).toArray

structure PSpec where
  ty : DType
  id : String
  deleg : Option String
  on_ : Option String
  for_ : List String
  det : Option (DType × JVal)
  ctor : Bool
  forOps : List (String × List String)

def forOp (j : Json) : Option (String × List String) :=
  match j with
  | .arr #[.str "add1", .str n] => some ("add1", [n])
  | .arr #[.str k, l] => (getStrs l).map (fun l => (k, l))
  | _ => none

def pspec (j : Json) : Option PSpec := do
  let ty ← tyOf (← (j.getObjValAs? String "ty").toOption)
  let id ← (j.getObjValAs? String "id").toOption
  let deleg ← optStr (← (j.getObjVal? "deleg").toOption)
  let on_ ← optStr (← (j.getObjVal? "on").toOption)
  let for_ ← getStrs (← (j.getObjVal? "for").toOption)
  let det ← detSpec (← (j.getObjVal? "det").toOption)
  let mode ← (j.getObjValAs? String "mode").toOption
  let forOps ← match j.getObjVal? "forops" with
    | .ok (.arr xs) => xs.toList.mapM forOp
    | _ => some []
  pure { ty, id, deleg, on_, for_, det, ctor := mode == "ctor", forOps }

def pspecs (j : Json) : Option (List PSpec) :=
  match j with
  | .arr xs => xs.toList.mapM pspec
  | _ => none

/-- `Pool(...)`, the `set_defined_for` / `add_defined_for` calls of the spec, `set_pool_details` -/
def buildPool (s : PSpec) : Except Err (Pool Det) := do
  let p : Pool Det :=
    if s.ctor then mkPool s.ty s.id s.deleg s.on_ s.for_
    else { ty := s.ty, pid := s.id, deleg := s.deleg, on_ := s.on_, for_ := s.for_.foldl addSet [], details := none }
  let p ← s.forOps.foldlM (fun (p : Pool Det) op =>
    if op.1 == "set" then setDefinedFor p op.2 else pure (addDefinedFor p op.2)) p
  match s.det with
    | none => pure p
    | some (k, j) => do
      let x ← mkDet k j
      pure { p with details := some x }

/-- construct the pools one after the other, `add_pool` each, then `build_index_by_delegation_id` -/
def buildFamily (cty : DType) (specs : List PSpec) : Except Err (Pools Det) := do
  let ps ← specs.foldlM (fun ps s => do
    let p ← buildPool s
    addPool ps p) (emptyPools cty)
  buildIndex ps

inductive PStep where
  | add (s : PSpec) | index | gen

def pstep (j : Json) : Option PStep :=
  match j with
  | .arr #[.str "add", x] => (pspec x).map PStep.add
  | .arr #[.str "index"] => some .index
  | .arr #[.str "gen"] => some .gen
  | _ => none

def errJson : Option Err → Json
  | none => .null
  | some e => .str (errName e)

def reply {α : Type} (f : α → Json) : Except Err α → Json
  | .ok a => ok (f a)
  | .error e => err (errName e)

def handle (j : Json) : Json :=
  match j with
  | .arr #[.str op, .str tys, x] =>
    match tyOf tys with
    | none => err "bad-type"
    | some ty =>
      if op == "enc" then
        match dspecs x with
        | some specs => reply toWire (do let ds ← buildDelegs ty specs; encode detOps ds)
        | none => err "bad-args"
      else if op == "build" then
        match dspecs x with
        | some specs => reply delegsJson (buildDelegs ty specs)
        | none => err "bad-args"
      else if op == "rt" then
        match dspecs x with
        | some specs => reply delegsJson (do
            let ds ← buildDelegs ty specs
            let t ← encode detOps ds
            decode detOps ty t)
        | none => err "bad-args"
      else if op == "dec" then
        match fromWire x with
        | some v => reply delegsJson (decode detOps ty v)
        | none => err "bad-args"
      else if op == "pools" then
        match pspecs x with
        | some specs => reply nodeDelegsJson (do let ps ← buildFamily ty specs; generate detOps ps)
        | none => err "bad-args"
      else if op == "prt" then
        match pspecs x with
        | some specs => reply poolsJson (do
            let ps ← buildFamily ty specs
            let r ← generate detOps ps
            let r' ← recode detOps ty r
            incorporateAll (emptyPools ty) r')
        | none => err "bad-args"
      else if op == "calls" then
        match x with
        | .arr cs =>
          match cs.toList.mapM dspecs with
          | some calls =>
            let r := runCalls ty calls
            ok (.arr #[delegsJson r.1, errJson r.2])
          | none => err "bad-args"
        | _ => err "bad-args"
      else if op == "pseq" then
        match x with
        | .arr st =>
          match st.toList.mapM pstep with
          | some steps =>
            let r := steps.foldl (fun (acc : Pools Det × List Json) step =>
              match step with
              | .add s =>
                match (do let p ← buildPool s; addPool acc.1 p) with
                | .ok ps => (ps, acc.2 ++ [Json.null])
                | .error e => (acc.1, acc.2 ++ [Json.str (errName e)])
              | .index =>
                let r := buildIndexS acc.1
                (r.1, acc.2 ++ [errJson r.2])
              | .gen => (acc.1, acc.2 ++ [reply nodeDelegsJson (generate detOps acc.1)])) (emptyPools ty, [])
            ok (.arr r.2.toArray)
          | none => err "bad-args"
        | _ => err "bad-args"
      else if op == "inc" then
        match x with
        | .arr nodes =>
          let parsed := nodes.toList.mapM (fun n =>
            match n with
            | .arr #[.str node, .str cty, specs] => do
              let c ← tyOf cty
              let s ← dspecs specs
              pure (node, c, s)
            | _ => none)
          match parsed with
          | some l => reply poolsJson (l.foldlM (fun ps (e : String × DType × List DSpec) => do
              let ds ← buildDelegs e.2.1 e.2.2
              incorporate ps e.1 ds) (emptyPools ty))
          | none => err "bad-args"
        | _ => err "bad-args"
      else err "bad-op"
  | _ => err "bad-request"

def main : IO Unit := run handle
