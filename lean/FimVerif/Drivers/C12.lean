import FimVerif.Drivers.Proto
import FimVerif.Model.DelegDet
import FimVerif.Model.DelegHeap
/-! Line-protocol driver for C12.  JSON values travel in an order-preserving wire form:
objects `{"o":[[k,v],…]}`, arrays `{"a":[…]}`, floats `{"f":0}`; everything else as itself.
Details are the C03 model of `Capacities` / `Labels` on the regenerated class specifications (`Model/DelegDet.lean`);
the label value validators are not run (the harness offers only values they accept). -/
open Lean FimVerif.Proto FimVerif.Deleg

partial def fromWire (j : Json) : Option JVal :=
  match j with
  | .null => some .null
  | .bool b => some (.bool b)
  | .str s => some (.str s)
  | .num n => if n.exponent == 0 then some (.int n.mantissa) else some .flt
  | Json.arr _ => none
  | .obj _ =>
    match j.getObjVal? "o" with
    | .ok (.arr kvs) =>
      (kvs.toList.mapM fun (kv : Json) =>
        match kv with
        | Json.arr #[Json.str k, v] => (fromWire v).map (fun v' => (k, v'))
        | _ => none).map JVal.obj
    | _ =>
      match j.getObjVal? "a" with
      | .ok (.arr xs) => (xs.toList.mapM fromWire).map JVal.arr
      | _ => match j.getObjVal? "f" with
        | .ok _ => some .flt
        | _ => none

partial def toWire (v : JVal) : Json :=
  match v with
  | .null => .null
  | .bool b => .bool b
  | .int i => .num (JsonNumber.fromInt i)
  | .flt => Json.mkObj [("f", .num 0)]
  | .str s => .str s
  | .arr l => Json.mkObj [("a", .arr (l.map toWire).toArray)]
  | .obj kv => Json.mkObj [("o", .arr (kv.map (fun p => Json.arr #[.str p.1, toWire p.2])).toArray)]

/-- the driver's details: `Labels` validators accept everything they are offered -/
def dOps : DetailOps CDet := cOps (fun _ _ => true)
def mkD (ty : DType) (j : JVal) : Except Err CDet := dOps.fromDict ty j

def errName : Err → String
  | .assertion => "assertion" | .delegation => "delegation" | .pool => "pool" | .key => "key"
  | .type => "type" | .attribute => "attribute" | .capacity => "capacity" | .label => "label" | .query => "query"
  | .unmodelled => "unmodelled"

def tyOf (s : String) : Option DType :=
  if s == "CAPACITY" then some .cap else if s == "LABEL" then some .lab else none
def tyName : DType → String | .cap => "CAPACITY" | .lab => "LABEL"
def fmtOf (s : String) : Option Fmt :=
  if s == "SinglePool" then some .single else if s == "PoolDefinition" then some .definition
  else if s == "PoolReference" then some .reference else none
def fmtName : Fmt → String
  | .single => "SinglePool" | .definition => "PoolDefinition" | .reference => "PoolReference"

def optStr (j : Json) : Option (Option String) :=
  match j with
  | .null => some none
  | .str s => some (some s)
  | _ => none

def strJson : Option String → Json
  | none => .null
  | some s => .str s

/-- `[kind, wire]` or null -/
def detSpec (j : Json) : Option (Option (DType × JVal)) :=
  match j with
  | .null => some none
  | .arr #[.str k, w] => do
    let ty ← tyOf k
    let v ← fromWire w
    pure (some (ty, v))
  | _ => none

structure DSpec where
  ty : DType
  id : String
  fmt : Fmt
  pool : Option String
  det : Option (DType × JVal)

def dspec (j : Json) : Option DSpec := do
  let ty ← tyOf (← (j.getObjValAs? String "ty").toOption)
  let id ← (j.getObjValAs? String "id").toOption
  let fmt ← fmtOf (← (j.getObjValAs? String "fmt").toOption)
  let pool ← optStr (← (j.getObjVal? "pool").toOption)
  let det ← detSpec (← (j.getObjVal? "det").toOption)
  pure { ty, id, fmt, pool, det }

def dspecs (j : Json) : Option (List DSpec) :=
  match j with
  | .arr xs => xs.toList.mapM dspec
  | _ => none

/-- build a `Delegations` through the API, one delegation after the other:
details object, `Delegation(...)`, `set_details`, `add_delegations` -/
def buildDelegs (cty : DType) (specs : List DSpec) : Except Err (Delegations CDet) :=
  specs.foldlM (fun ds s => do
    let x ← match s.det with
      | none => pure none
      | some (k, j) => (mkD k j).map some
    let d ← mkDelegation s.ty s.id s.fmt s.pool
    let d ← match x with
      | none => pure d
      | some x => setDetails dOps d x
    addDelegation ds d) { ty := cty, items := [] }

/-- construct the arguments of one call (details object, `Delegation(...)`, `set_details` each) -/
def buildArgs (specs : List DSpec) : Except Err (List (Delegation CDet)) :=
  specs.mapM (fun s => do
    let x ← match s.det with
      | none => pure none
      | some (k, j) => (mkD k j).map some
    let d ← mkDelegation s.ty s.id s.fmt s.pool
    match x with
      | none => pure d
      | some x => setDetails dOps d x)

/-- a sequence of `add_delegations(*args)` calls; stops at the first exception; the container as it is then -/
def runCalls (cty : DType) (calls : List (List DSpec)) : Delegations CDet × Option Err :=
  let rec go (ds : Delegations CDet) : List (List DSpec) → Delegations CDet × Option Err
    | [] => (ds, none)
    | c :: rest =>
      match buildArgs c with
      | .error e => (ds, some e)
      | .ok args =>
        match addDelegations ds args with
        | (ds', some e) => (ds', some e)
        | (ds', none) => go ds' rest
  go { ty := cty, items := [] } calls

/-- an attribute value as `canon` prints it (lists as plain arrays; nothing else can be stored in a field) -/
def cvalWire : CVal → Json
  | .null => .null
  | .int i => .num (JsonNumber.fromInt i)
  | .bool b => .bool b
  | .str s => .str s
  | .arr l => .arr (l.map (fun x => match x with | .str s => Json.str s | _ => Json.null)).toArray
  | _ => .str "?"

def detJson : Option CDet → Json
  | none => .null
  | some d => .arr #[.str (tyName d.kind), .arr ((cItems d).map (fun p => Json.arr #[.str p.1, cvalWire p.2])).toArray]

def delegJson (d : Delegation CDet) : Json :=
  .arr #[.str d.id, .str (fmtName d.fmt), strJson d.pool, detJson d.details, .str (tyName d.ty)]

def delegsJson (ds : Delegations CDet) : Json :=
  .arr #[.str (tyName ds.ty), .arr (ds.items.map delegJson).toArray]

def sortStr (l : List String) : List String := l.mergeSort (fun a b => decide (a ≤ b))

def nodeDelegsJson (r : NodeDelegs CDet) : Json :=
  let r' := r.mergeSort (fun a b => decide (a.1 ≤ b.1))
  .arr (r'.map (fun e => Json.arr #[.str e.1, delegsJson e.2])).toArray

def poolJson (p : Pool CDet) : Json :=
  .arr #[.str p.pid, .str (tyName p.ty), strJson p.deleg, strJson p.on_, ofStrs (sortStr p.for_), detJson p.details]

def poolsJson (ps : Pools CDet) : Json :=
  let l := ps.byId.mergeSort (fun a b => decide (a.pid ≤ b.pid))
  .arr (l.map poolJson).toArray

structure PSpec where
  ty : DType
  id : String
  deleg : Option String
  on_ : Option String
  for_ : List String
  det : Option (DType × JVal)
  ctor : Bool
  forOps : List (String × List String)

def forOp (j : Json) : Option (String × List String) :=
  match j with
  | .arr #[.str "add1", .str n] => some ("add1", [n])
  | .arr #[.str k, l] => (getStrs l).map (fun l => (k, l))
  | _ => none

def pspec (j : Json) : Option PSpec := do
  let ty ← tyOf (← (j.getObjValAs? String "ty").toOption)
  let id ← (j.getObjValAs? String "id").toOption
  let deleg ← optStr (← (j.getObjVal? "deleg").toOption)
  let on_ ← optStr (← (j.getObjVal? "on").toOption)
  let for_ ← getStrs (← (j.getObjVal? "for").toOption)
  let det ← detSpec (← (j.getObjVal? "det").toOption)
  let mode ← (j.getObjValAs? String "mode").toOption
  let forOps ← match j.getObjVal? "forops" with
    | .ok (.arr xs) => xs.toList.mapM forOp
    | _ => some []
  pure { ty, id, deleg, on_, for_, det, ctor := mode == "ctor", forOps }

def pspecs (j : Json) : Option (List PSpec) :=
  match j with
  | .arr xs => xs.toList.mapM pspec
  | _ => none

/-- `Pool(...)`, the `set_defined_for` / `add_defined_for` calls of the spec, `set_pool_details` -/
def buildPool (s : PSpec) : Except Err (Pool CDet) := do
  let p : Pool CDet ←
    if s.ctor then newPool s.ty s.id s.deleg s.on_ s.for_
    else do
      let p ← newPool s.ty s.id s.deleg none []
      pure { p with on_ := s.on_, for_ := s.for_.foldl addSet [] }
  let p ← s.forOps.foldlM (fun (p : Pool CDet) op =>
    if op.1 == "set" then setDefinedFor p op.2 else pure (addDefinedFor p op.2)) p
  match s.det with
    | none => pure p
    | some (k, j) => do
      let x ← mkD k j
      pure { p with details := some x }

/-- construct the pools one after the other, `add_pool` each, then `build_index_by_delegation_id` -/
def buildFamily (cty : DType) (specs : List PSpec) : Except Err (Pools CDet) := do
  let ps ← specs.foldlM (fun ps s => do
    let p ← buildPool s
    addPool ps p) (emptyPools cty)
  buildIndex ps

inductive PStep where
  | add (s : PSpec) | index | gen
  /-- a setter call on the r-th constructed Pool object (which may sit in the container, and in its index) -/
  | mut (r : Nat) (what : String) (val : Json)

def pstep (j : Json) : Option PStep :=
  match j with
  | .arr #[.str "add", x] => (pspec x).map PStep.add
  | .arr #[.str "index"] => some .index
  | .arr #[.str "gen"] => some .gen
  | .arr #[.str "mut", r, .str what, val] => (r.getNat?.toOption).map (fun r => PStep.mut r what val)
  | _ => none

/-- the setter `what(val)` on a pool value: `set_delegation_id`, `set_defined_on`, `set_pool_details`, `add_defined_for`
(one node / a list), `set_defined_for` -/
def mutPool (what : String) (val : Json) (p : Pool CDet) : Except Err (Pool CDet) :=
  if what == "deleg" then
    match val with
    | .str k => .ok (mSetDeleg k p)
    | _ => .error .assertion
  else if what == "on" then
    match val with
    | .str n => .ok (mSetOn n p)
    | _ => .error .assertion
  else if what == "det" then
    match detSpec val with
    | some (some (k, j)) => do
      let x ← mkD k j
      pure (mSetDetails x p)
    | _ => .error .assertion
  else if what == "add1" then
    match val with
    | .str n => .ok (addDefinedFor p [n])
    | _ => .error .assertion
  else
    match getStrs val with
    | some l => if what == "addl" then .ok (addDefinedFor p l) else setDefinedFor p l
    | none => .error .assertion

/-- the nodes of a generated dictionary in the requested order: the listed ones first (as often as listed), the rest sorted -/
def reorder (order : List String) (r : NodeDelegs CDet) : NodeDelegs CDet :=
  order.filterMap (fun n => r.find? (fun e => e.1 == n)) ++
    (r.filter (fun e => !order.contains e.1)).mergeSort (fun a b => decide (a.1 ≤ b.1))

def errJson : Option Err → Json
  | none => .null
  | some e => .str (errName e)

def reply {α : Type} (f : α → Json) : Except Err α → Json
  | .ok a => ok (f a)
  | .error e => err (errName e)

def handle (j : Json) : Json :=
  match j with
  | .arr #[.str op, .str tys, x] =>
    match tyOf tys with
    | none => err "bad-type"
    | some ty =>
      if op == "enc" then
        match dspecs x with
        | some specs => reply toWire (do let ds ← buildDelegs ty specs; encode dOps ds)
        | none => err "bad-args"
      else if op == "build" then
        match dspecs x with
        | some specs => reply delegsJson (buildDelegs ty specs)
        | none => err "bad-args"
      else if op == "rt" then
        match dspecs x with
        | some specs => reply delegsJson (do
            let ds ← buildDelegs ty specs
            let t ← encode dOps ds
            decode dOps ty t)
        | none => err "bad-args"
      else if op == "dec" then
        match fromWire x with
        | some v => reply delegsJson (decode dOps ty v)
        | none => err "bad-args"
      else if op == "pools" then
        match pspecs x with
        | some specs => reply nodeDelegsJson (do let ps ← buildFamily ty specs; generate dOps ps)
        | none => err "bad-args"
      else if op == "prt" then
        match pspecs x with
        | some specs => reply poolsJson (do
            let ps ← buildFamily ty specs
            let r ← generate dOps ps
            let r' ← recode dOps ty r
            incorporateAll (emptyPools ty) r')
        | none => err "bad-args"
      else if op == "prto" then
        match x.getObjVal? "fam", x.getObjVal? "order" with
        | .ok f, .ok o =>
          match pspecs f, getStrs o with
          | some specs, some order => reply poolsJson (do
              let ps ← buildFamily ty specs
              let r ← generate dOps ps
              let r' ← recode dOps ty r
              incorporateAll (emptyPools ty) (reorder order r'))
          | _, _ => err "bad-args"
        | _, _ => err "bad-args"
      else if op == "topo" then
        match x.getObjVal? "spec", x.getObjVal? "elems" with
        | .ok spec, .ok (.arr rows) =>
          let elems := rows.toList.mapM (fun r =>
            match r with
            | .arr #[.str node, .bool st, c, l] => do
              let cd ← detSpec c
              let ld ← detSpec l
              pure (node, st, cd, ld)
            | _ => none)
          let fams := do
            let fs ← (spec.getObjVal? "families").toOption
            let fc ← pspecs (← (fs.getObjVal? "CAPACITY").toOption)
            let fl ← pspecs (← (fs.getObjVal? "LABEL").toOption)
            let did ← (spec.getObjValAs? String "delegation").toOption
            pure (fc, fl, did)
          match elems, fams with
          | some els, some (fc, fl, did) =>
            reply (fun (ws : List (DType × List (String × JVal))) =>
                Json.arr (ws.map (fun r => Json.arr #[.str (tyName r.1),
                  .arr ((r.2.mergeSort (fun a b => decide (a.1 ≤ b.1))).map (fun e => Json.arr #[.str e.1, toWire e.2])).toArray])).toArray) (do
              let capPools ← buildFamily .cap fc
              let labPools ← buildFamily .lab fl
              let es ← els.mapM (fun (e : String × Bool × Option (DType × JVal) × Option (DType × JVal)) => do
                let c ← match e.2.2.1 with
                  | none => pure none
                  | some (k, j) => (mkD k j).map some
                let l ← match e.2.2.2 with
                  | none => pure none
                  | some (k, j) => (mkD k j).map some
                pure ({ node := e.1, stitch := e.2.1, caps := c, labs := l } : Elem CDet))
              singleDelegation dOps did es labPools capPools)
          | _, _ => err "bad-args"
        | _, _ => err "bad-args"
      else if op == "ann" then
        match x.getObjVal? "fam", x.getObjVal? "dels" with
        | .ok f, .ok (.arr nodes) =>
          let parsed := nodes.toList.mapM (fun n =>
            match n with
            | .arr #[.str node, .str cty, specs] => do
              let c ← tyOf cty
              let s ← dspecs specs
              pure (node, c, s)
            | _ => none)
          match pspecs f, parsed with
          | some specs, some l => reply (fun (r : DType × List (String × JVal)) =>
                Json.arr #[.str (tyName r.1), .arr ((r.2.mergeSort (fun a b => decide (a.1 ≤ b.1))).map (fun e => Json.arr #[.str e.1, toWire e.2])).toArray]) (do
              let ps ← buildFamily ty specs
              let dels ← l.mapM (fun (e : String × DType × List DSpec) => do
                let ds ← buildDelegs e.2.1 e.2.2
                pure (e.1, ds))
              annotate dOps ps dels)
          | _, _ => err "bad-args"
        | _, _ => err "bad-args"
      else if op == "calls" then
        match x with
        | .arr cs =>
          match cs.toList.mapM dspecs with
          | some calls =>
            let r := runCalls ty calls
            ok (.arr #[delegsJson r.1, errJson r.2])
          | none => err "bad-args"
        | _ => err "bad-args"
      else if op == "pseq" then
        match x with
        | .arr st =>
          match st.toList.mapM pstep with
          | some steps =>
            let r := steps.foldl (fun (acc : HPools CDet × List Json) step =>
              match step with
              | .add s =>
                match buildPool s with
                | .error e => (acc.1, acc.2 ++ [Json.str (errName e)])
                | .ok p =>
                  let n := hNew acc.1 p
                  match hAddPool n.1 n.2 with
                  | .ok ps => (ps, acc.2 ++ [Json.null])
                  | .error e => (n.1, acc.2 ++ [Json.str (errName e)])
              | .mut r what val =>
                if r < acc.1.heap.length then
                  match mutPool what val (acc.1.deref r) with
                  | .ok p => (hMut acc.1 r (fun _ => p), acc.2 ++ [Json.null])
                  | .error e => (acc.1, acc.2 ++ [Json.str (errName e)])
                else (acc.1, acc.2 ++ [Json.str "skip"])
              | .index =>
                let r := hIndex acc.1
                (r.1, acc.2 ++ [errJson r.2])
              | .gen => (acc.1, acc.2 ++ [reply nodeDelegsJson (generate dOps acc.1.view)])) (hEmpty ty, [])
            ok (.arr r.2.toArray)
          | none => err "bad-args"
        | _ => err "bad-args"
      else if op == "inc" then
        match x with
        | .arr nodes =>
          let parsed := nodes.toList.mapM (fun n =>
            match n with
            | .arr #[.str node, .str cty, specs] => do
              let c ← tyOf cty
              let s ← dspecs specs
              pure (node, c, s)
            | _ => none)
          match parsed with
          | some l => reply poolsJson (l.foldlM (fun ps (e : String × DType × List DSpec) => do
              let ds ← buildDelegs e.2.1 e.2.2
              incorporate ps e.1 ds) (emptyPools ty))
          | none => err "bad-args"
        | _ => err "bad-args"
      else err "bad-op"
  | _ => err "bad-request"

def main : IO Unit := run handle
