import FimVerif.Drivers.Proto
import FimVerif.Model.Store
import FimVerif.Model.DStore
/-! JSON codec shared by the C04 / C05 drivers: requests → `Store.Op`, results / snapshots → JSON.
    Lists are emitted in model order; the harness canonicalises both sides with the same function. -/
namespace FimVerif.StoreCodec
open Lean FimVerif.Proto FimVerif.Store

partial def valOfJson : Json → Option Val
  | .str s => some (.str s)
  | .null => some .none
  | .bool b => some (.bool b)
  | .num n => match (Json.num n).getInt? with
    | .ok i => some (.int i)
    | .error _ => none
  | .arr #[a, b] => do some (.pair (← valOfJson a) (← valOfJson b))
  | j => some (.json j.compress)          -- any other list / dict: opaque, by canonical text

partial def valToJson : Val → Json
  | .str s => .str s
  | .none => .null
  | .pair a b => .arr #[valToJson a, valToJson b]
  | .int n => .num (JsonNumber.fromInt n)
  | .bool b => .bool b
  | .json t => match Json.parse t with
    | .ok j => j
    | .error _ => .str ("<bad-json>" ++ t)

def propsOfJson (j : Json) : Option Props :=
  match j with
  | .obj kvs => kvs.toList.mapM fun (k, v) => do some (k, ← valOfJson v)
  | _ => none

def optPropsOfJson (j : Json) : Option (Option Props) :=
  match j with
  | .null => some none
  | _ => (propsOfJson j).map some

/-- properties as a list of pairs (a model dictionary may hold a key twice only if the model is wrong;
    the list form keeps that visible) -/
def propsToJson (p : Props) : Json := .arr (p.map (fun (k, v) => Json.arr #[.str k, valToJson v])).toArray

def natOfJson (j : Json) : Option Nat := j.getNat?.toOption

def igraphOfJson (j : Json) : Option IGraph := do
  let ns ← (j.getObjVal? "nodes").toOption
  let es ← (j.getObjVal? "edges").toOption
  let ns ← match ns with | .arr a => a.toList.mapM propsOfJson | _ => none
  let es ← match es with
    | .arr a => a.toList.mapM fun e => match e with
      | .arr #[x, y, p] => do some (← natOfJson x, ← natOfJson y, ← propsOfJson p)
      | _ => none
    | _ => none
  some ⟨ns, es⟩

def policyOfJson (j : Json) : Option (Option (List (String × Policy))) :=
  match j with
  | .null => some none
  | .obj kvs => (kvs.toList.mapM fun ((k, v) : String × Json) => match v with
      | Json.str "discard" => some (k, Policy.discard)
      | Json.str "overwrite" => some (k, Policy.overwrite)
      | Json.str "combine" => some (k, Policy.combine)
      | Json.str _ => some (k, Policy.other)
      | _ => none).map some
  | _ => none

def opOfJson (j : Json) : Option Op :=
  match j with
  | .arr #[.str "add_node", .str g, .str nid, .str label, p] => do some (.addNode g nid label (← optPropsOfJson p))
  | .arr #[.str "delete_node", .str g, .str nid] => some (.deleteNode g nid)
  | .arr #[.str "add_link", .str g, .str a, .str rel, .str b, p] => do some (.addLink g a rel b (← optPropsOfJson p))
  | .arr #[.str "update_node_property", .str g, .str nid, .str k, v] => do some (.updateNodeProperty g nid k (← valOfJson v))
  | .arr #[.str "unset_node_property", .str g, .str nid, .str k] => some (.unsetNodeProperty g nid k)
  | .arr #[.str "update_nodes_property", .str g, .str k, v] => do some (.updateNodesProperty g k (← valOfJson v))
  | .arr #[.str "update_node_properties", .str g, .str nid, p] => do some (.updateNodeProperties g nid (← propsOfJson p))
  | .arr #[.str "update_link_property", .str g, .str a, .str b, .str kind, .str k, v] => do
      some (.updateLinkProperty g a b kind k (← valOfJson v))
  | .arr #[.str "unset_link_property", .str g, .str a, .str b, .str kind, .str k] => some (.unsetLinkProperty g a b kind k)
  | .arr #[.str "update_link_properties", .str g, .str a, .str b, .str kind, p] => do
      some (.updateLinkProperties g a b kind (← propsOfJson p))
  | .arr #[.str "delete_graph", .str g] => some (.deleteGraph g)
  | .arr #[.str "add_graph", .str g, ig] => do some (.addGraph g (← igraphOfJson ig))
  | .arr #[.str "add_graph_direct", .str g, ig] => do some (.addGraphDirect g (← igraphOfJson ig))
  | .arr #[.str "clone", .str g, .str g2] => some (.clone g g2)
  | .arr #[.str "merge_nodes", .str g, .str nid, .str g2, pol] => do some (.mergeNodes g nid g2 (← policyOfJson pol))
  | .arr #[.str "get_node_properties", .str g, .str nid] => some (.getNodeProperties g nid)
  | .arr #[.str "get_link_properties", .str g, .str a, .str b] => some (.getLinkProperties g a b)
  | .arr #[.str "list_all_node_ids", .str g] => some (.listAllNodeIds g)
  | .arr #[.str "nodes_by_class", .str g, .str l] => some (.nodesByClass g l)
  | .arr #[.str "nodes_by_class_and_type", .str g, .str l, .str t] => some (.nodesByClassAndType g l t)
  | .arr #[.str "node_exists", .str g, .str nid, .str l] => some (.nodeExists g nid l)
  | .arr #[.str "graph_exists", .str g] => some (.graphExists g)
  | .arr #[.str "check_node_unique", .str g, .str l, .str n] => some (.checkNodeUnique g l n)
  | .arr #[.str "find_matching_nodes", .str g, .str o] => some (.findMatchingNodes g o)
  | .arr #[.str "delete_all_graphs", _] => some .delAllGraphs
  | _ => none

def errToStr : Err → String
  | .query => "query" | .import_ => "import" | .key => "key" | .type_ => "type"
  | .attribute => "attribute" | .assertion => "assertion" | .runtime => "runtime"

def optValToJson : Option Val → Json
  | some v => valToJson v
  | none => .str "<missing>"

def outToJson : Out → Json
  | .unit => .null
  | .bool b => .bool b
  | .vals l => .arr (l.map optValToJson).toArray
  | .nodeProps l p => .arr #[valToJson l, propsToJson p]
  | .linkProps l p => .arr #[valToJson l, propsToJson p]
  | .int n => .num (JsonNumber.fromNat n)

def resToJson : Except Err Out → Json
  | .ok o => ok (outToJson o)
  | .error e => err (errToStr e)

def nodesToJson (ns : List SNode) : Json :=
  .arr (ns.map fun n => Json.arr #[.num (JsonNumber.fromNat n.iid), propsToJson n.attrs]).toArray
def edgesToJson (es : List SEdge) : Json :=
  .arr (es.map fun e => Json.arr #[.num (JsonNumber.fromNat e.a), .num (JsonNumber.fromNat e.b), propsToJson e.attrs]).toArray

def snapToJson (s : Store) : Json :=
  Json.mkObj [("next", .num (JsonNumber.fromNat s.nextId)), ("nodes", nodesToJson s.nodes), ("edges", edgesToJson s.edges)]

def dsnapToJson (d : FimVerif.DStore.DStore) : Json :=
  Json.mkObj [
    ("graphs", Json.mkObj (d.graphs.map fun (g, ns, es) => (g, Json.mkObj [("nodes", nodesToJson ns), ("edges", edgesToJson es)]))),
    ("ids", Json.mkObj (d.ids.map fun (g, n) => (g, Json.num (JsonNumber.fromNat n))))]

end FimVerif.StoreCodec
