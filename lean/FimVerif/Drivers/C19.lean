import FimVerif.Drivers.Proto
import FimVerif.Generated.Cypher
/-!
Driver for C19.  Requests:
  ["render", key, variant, idents, values, maps]    idents/values: [[name, text]...]; maps: [[name, [[identPairs, valuePairs]...]]...]
     -> ok {text, supplied, vf, reachable, defects, unbound, missing}
  ["lint", text, [supplied...]]                     -> ok {defects, unbound, missing}
  ["variants", key]                                 -> ok number of variants generated for the call site
-/
open Lean FimVerif.Proto FimVerif.Cypher

def ofS (s : String) : Text := s.toList.map Char.toNat

def pairs (j : Json) : Option (List (Text × Text)) :=
  match j with
  | .arr xs => xs.toList.mapM fun x =>
      match x with
      | .arr #[.str a, .str b] => some (ofS a, ofS b)
      | _ => none
  | _ => none

def rowOf (j : Json) : Option Row :=
  match j with
  | .arr #[a, b] => do
      let i ← pairs a
      let v ← pairs b
      pure ⟨i, v⟩
  | _ => none

def mapsOf (j : Json) : Option (List (Text × List Row)) :=
  match j with
  | .arr xs => xs.toList.mapM fun x =>
      match x with
      | .arr #[.str n, .arr rs] => do
          let rows ← rs.toList.mapM rowOf
          pure (ofS n, rows)
      | _ => none
  | _ => none

def txt (t : Text) : Json := Json.str (String.ofList (t.map Char.ofNat))

def lintJson (l : Lint) : List (String × Json) :=
  [("defects", ofStrs l.defects), ("unbound", Json.arr (l.unbound.map txt).toArray),
   ("missing", Json.arr (l.missing.map txt).toArray)]

def handle (j : Json) : Json :=
  match j with
  | .arr #[.str "render", .str key, vj, ij, vvj, mj] =>
    match vj.getNat?.toOption, pairs ij, pairs vvj, mapsOf mj with
    | some variant, some ids, some vals, some maps =>
      match FimVerif.Gen.Cypher.ops.find? (fun o => o.key == ofS key && o.variant == variant) with
      | some op =>
        let e : Env := ⟨ids, vals, maps⟩
        let t := render e op.tpl
        ok (Json.mkObj ([("text", txt t), ("supplied", Json.arr (op.supplied.map txt).toArray), ("vf", Json.bool (valueFree op.tpl)),
                         ("reachable", Json.bool (op.reachable e))]
                        ++ lintJson (lint t op.supplied)))
      | none => err "no-such-op"
    | _, _, _, _ => err "bad-args"
  | .arr #[.str "lint", .str text, sj] =>
    match getStrs sj with
    | some sup => ok (Json.mkObj (lintJson (lint (ofS text) (sup.map ofS))))
    | none => err "bad-args"
  | .arr #[.str "variants", .str key] =>
    ok (Json.num (JsonNumber.fromNat (FimVerif.Gen.Cypher.ops.filter (fun o => o.key == ofS key)).length))
  | _ => err "bad-request"

def main : IO Unit := run handle
