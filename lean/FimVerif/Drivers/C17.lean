import FimVerif.Drivers.Proto
import FimVerif.Model.Diff
import FimVerif.Proofs.Lemmas.C17Script
import FimVerif.Generated.DiffCfg
open Lean FimVerif.Proto FimVerif.Diff

/-! Driver for C17: `["node"|"svc"|"iface", A, B]` → the table-driven model's `diff A B` (`nodeDiffC` … of `Model/Diff.lean` on
the table `Generated/DiffCfg.lean` extracted from the source in this run) as `["ok", null | {slot: [...]}]` / `["err", kind]`.
Property values arrive as canonical strings or null; components and interfaces arrive with the *name* of their type, which is
resolved here against the kinds the extracted table says the methods descend below.  Flags go out as the integer the extracted
member values give.  `["cfg"]` → what the harness needs to know of the table. -/

def cfg : Cfg := FimVerif.Gen.DiffCfg.cfg

def optStr (j : Json) : Option (Option String) :=
  match j with
  | .null => some none
  | .str s => some (some s)
  | _ => none

def parseProps (j : Json) : Option (Props String) :=
  match j with
  | .arr #[l, c, u] => do
    let l ← optStr l; let c ← optStr c; let u ← optStr u
    pure { labels := l, caps := c, ud := u }
  | _ => none

def field (j : Json) (k : String) : Option Json := (j.getObjVal? k).toOption

def optList {α} (j : Json) (p : Json → Option α) : Option (Option (List α)) :=
  match j with
  | .null => some none
  | .arr xs => (xs.toList.mapM p).map some
  | _ => none

def parseLeaf (j : Json) : Option (Leaf String) := do
  let n ← (← field j "n").getStr?.toOption
  let p ← parseProps (← field j "p")
  pure { name := n, props := p }

def parseIface (j : Json) : Option (Iface String) := do
  let n ← (← field j "n").getStr?.toOption
  let p ← parseProps (← field j "p")
  let t ← (← field j "t").getStr?.toOption
  let d := (cfg.svc.recKinds .ifs).contains t
  let subs ← optList (← field j "subs") parseLeaf
  pure { name := n, props := p, dedicated := d, subs := subs }

def parseSvc (j : Json) : Option (Svc String) := do
  let n ← (← field j "n").getStr?.toOption
  let p ← parseProps (← field j "p")
  let ifs ← optList (← field j "ifs") parseIface
  pure { name := n, props := p, ifs := ifs }

def parseComp (j : Json) : Option (Comp String) := do
  let n ← (← field j "n").getStr?.toOption
  let p ← parseProps (← field j "p")
  let t ← (← field j "t").getStr?.toOption
  let s := (cfg.node.recKinds .comps).contains t
  let svcs ← optList (← field j "svcs") parseSvc
  pure { name := n, props := p, smart := s, svcs := svcs }

def parseNode (j : Json) : Option (Node String) := do
  let n ← (← field j "n").getStr?.toOption
  let p ← parseProps (← field j "p")
  let comps ← optList (← field j "comps") parseComp
  let svcs ← optList (← field j "svcs") parseSvc
  pure { name := n, props := p, comps := comps, svcs := svcs }

def modJson (l : List (String × Flags)) : Json :=
  Json.arr (l.map fun (p : String × Flags) => Json.arr #[Json.str p.1, Json.num (JsonNumber.fromNat (encodeC cfg.flagVal p.2))]).toArray

def tdiffJson (d : Option TDiff) : Json :=
  match d with
  | none => Json.null
  | some d => Json.mkObj [
      ("added.nodes", ofStrs d.addedNodes), ("added.components", ofStrs d.addedComps), ("added.services", ofStrs d.addedSvcs),
      ("added.interfaces", ofStrs d.addedIfs),
      ("removed.nodes", ofStrs d.removedNodes), ("removed.components", ofStrs d.removedComps), ("removed.services", ofStrs d.removedSvcs),
      ("removed.interfaces", ofStrs d.removedIfs),
      ("modified.nodes", modJson d.modNodes), ("modified.components", modJson d.modComps),
      ("modified.services", modJson d.modSvcs), ("modified.interfaces", modJson d.modIfs)]

/-! scripts (`Lemmas/C17Script.lean`): `["apply", kind, A, script]` → the edited tree, `["expect", kind, A, script]` → the
report the script predicts.  Used to tie `applyX` to the real add_/remove_/set_ methods and `expX` to the real diff. -/

def parsePScript (j : Json) : Option (PScript String) := do
  let g (k : String) : Option (Option (Option String)) :=
    match field j k with
    | none => some none
    | some (.arr #[v]) => (optStr v).map some
    | some _ => none
  pure { labels := ← g "labels", caps := ← g "caps", ud := ← g "ud" }

def parseEdits {α ε} (j : Json) (pa : Json → Option α) (pe : Json → Option ε) : Option (List (DEdit α ε)) :=
  match j with
  | .arr xs => xs.toList.mapM fun e =>
    match e with
    | .arr #[.str "add", x] => (pa x).map DEdit.add
    | .arr #[.str "rm", .str k] => some (DEdit.remove k)
    | .arr #[.str "mod", .str k, sc] => (pe sc).map (DEdit.modify k)
    | _ => none
  | _ => none

def parseIfaceScript (j : Json) : Option (IfaceScript String) := do
  pure { pe := ← parsePScript (← field j "pe"), subs := ← parseEdits (← field j "subs") parseLeaf parsePScript }

def parseSvcScript (j : Json) : Option (SvcScript String) := do
  pure { pe := ← parsePScript (← field j "pe"), ifs := ← parseEdits (← field j "ifs") parseIface parseIfaceScript }

def parseCompScript (j : Json) : Option (CompScript String) := do
  let sv ← field j "svc"
  let svc ← (match sv with | .null => some none | x => (parseSvcScript x).map some)
  pure { pe := ← parsePScript (← field j "pe"), svc := svc }

def parseNodeScript (j : Json) : Option (NodeScript String) := do
  pure { pe := ← parsePScript (← field j "pe"), comps := ← parseEdits (← field j "comps") parseComp parseCompScript,
         svcs := ← parseEdits (← field j "svcs") parseSvc parseSvcScript }

def optJ (o : Option String) : Json := match o with | none => Json.null | some s => Json.str s
def propsJson (p : Props String) : Json := Json.arr #[optJ p.labels, optJ p.caps, optJ p.ud]
def listJ {α} (o : Option (List α)) (f : α → Json) : Json :=
  match o with | none => Json.null | some l => Json.arr (l.map f).toArray
def leafJson (l : Leaf String) : Json := Json.mkObj [("n", Json.str l.name), ("p", propsJson l.props)]
def ifaceJson (i : Iface String) : Json :=
  Json.mkObj [("n", Json.str i.name), ("p", propsJson i.props), ("d", Json.bool i.dedicated), ("subs", listJ i.subs leafJson)]
def svcJson (s : Svc String) : Json := Json.mkObj [("n", Json.str s.name), ("p", propsJson s.props), ("ifs", listJ s.ifs ifaceJson)]
def compJson (c : Comp String) : Json :=
  Json.mkObj [("n", Json.str c.name), ("p", propsJson c.props), ("s", Json.bool c.smart), ("svcs", listJ c.svcs svcJson)]
def nodeJson (n : Node String) : Json :=
  Json.mkObj [("n", Json.str n.name), ("p", propsJson n.props), ("comps", listJ n.comps compJson), ("svcs", listJ n.svcs svcJson)]

def handleScript (op kind : String) (a sc : Json) : Json :=
  if kind == "node" then
    match parseNode a, parseNodeScript sc with
    | some x, some s => if op == "apply" then ok (nodeJson (applyNode s x)) else ok (tdiffJson (expNode s x))
    | _, _ => err "bad-args"
  else if kind == "svc" then
    match parseSvc a, parseSvcScript sc with
    | some x, some s => if op == "apply" then ok (svcJson (applySvc s x)) else ok (tdiffJson (expSvc s x))
    | _, _ => err "bad-args"
  else if kind == "iface" then
    match parseIface a, parseIfaceScript sc with
    | some x, some s => if op == "apply" then ok (ifaceJson (applyIface s x)) else ok (tdiffJson (expIface s x))
    | _, _ => err "bad-args"
  else err "bad-op"

def flagName : FlagK → String
  | .labels => "LABELS"
  | .caps => "CAPACITIES"
  | .ud => "USER_DATA"
  | .sub => "SUB_INTERFACES"

def cfgJson : Json :=
  Json.mkObj [("compKinds", ofStrs (cfg.node.recKinds .comps)), ("ifaceKinds", ofStrs (cfg.svc.recKinds .ifs)),
    ("flagVal", Json.mkObj (cfg.flagVal.map fun e => (flagName e.1, Json.num (JsonNumber.fromNat e.2))))]

def handle (j : Json) : Json :=
  match j with
  | .arr #[.str "cfg"] => ok cfgJson
  | .arr #[.str op, .str kind, a, sc] => handleScript op kind a sc
  | .arr #[.str kind, a, b] =>
    if kind == "node" then
      match parseNode a, parseNode b with
      | some x, some y =>
        match nodeDiffC cfg x y with
        | .ok d => ok (tdiffJson d)
        | .error e => err e
      | _, _ => err "bad-args"
    else if kind == "svc" then
      match parseSvc a, parseSvc b with
      | some x, some y => ok (tdiffJson (svcDiffC cfg x y))
      | _, _ => err "bad-args"
    else if kind == "iface" then
      match parseIface a, parseIface b with
      | some x, some y => ok (tdiffJson (ifaceDiffC cfg x y))
      | _, _ => err "bad-args"
    else err "bad-op"
  | _ => err "bad-request"

def main : IO Unit := run handle
