import FimVerif.Drivers.Proto
import FimVerif.Model.Diff
import FimVerif.Proofs.Lemmas.C17Script
import FimVerif.Generated.DiffCfg
import FimVerif.Model.DiffVal
import FimVerif.Proofs.Lemmas.C17Sym
open Lean FimVerif.Proto FimVerif.Diff FimVerif.DiffVal

/-! Driver for C17: `["node"|"svc"|"iface", A, B]` → the table-driven model's `diff A B` (`nodeDiffC` … of `Model/Diff.lean` on
the table `Generated/DiffCfg.lean` extracted from the source in this run) as `["ok", null | {slot: [...]}]` / `["err", kind]`.
Property values arrive as canonical strings or null; components and interfaces arrive with the *name* of their type, which is
resolved here against the kinds the extracted table says the methods descend below.  Flags go out as the integer the extracted
member values give.  `["cfg"]` → what the harness needs to know of the table. -/

def cfg : Cfg := FimVerif.Gen.DiffCfg.cfg

def optStr (j : Json) : Option (Option String) :=
  match j with
  | .null => some none
  | .str s => some (some s)
  | _ => none

def parseProps (j : Json) : Option (Props String) :=
  match j with
  | .arr #[l, c, u] => do
    let l ← optStr l; let c ← optStr c; let u ← optStr u
    pure { labels := l, caps := c, ud := u }
  | _ => none

def field (j : Json) (k : String) : Option Json := (j.getObjVal? k).toOption

def optList {α} (j : Json) (p : Json → Option α) : Option (Option (List α)) :=
  match j with
  | .null => some none
  | .arr xs => (xs.toList.mapM p).map some
  | _ => none

def parseLeaf (j : Json) : Option (Leaf String) := do
  let n ← (← field j "n").getStr?.toOption
  let p ← parseProps (← field j "p")
  pure { name := n, props := p }

def parseIface (j : Json) : Option (Iface String) := do
  let n ← (← field j "n").getStr?.toOption
  let p ← parseProps (← field j "p")
  let t ← (← field j "t").getStr?.toOption
  let d := (cfg.svc.recKinds .ifs).contains t
  let subs ← optList (← field j "subs") parseLeaf
  pure { name := n, props := p, dedicated := d, subs := subs }

def parseSvc (j : Json) : Option (Svc String) := do
  let n ← (← field j "n").getStr?.toOption
  let p ← parseProps (← field j "p")
  let ifs ← optList (← field j "ifs") parseIface
  pure { name := n, props := p, ifs := ifs }

def parseComp (j : Json) : Option (Comp String) := do
  let n ← (← field j "n").getStr?.toOption
  let p ← parseProps (← field j "p")
  let t ← (← field j "t").getStr?.toOption
  let s := (cfg.node.recKinds .comps).contains t
  let svcs ← optList (← field j "svcs") parseSvc
  pure { name := n, props := p, smart := s, svcs := svcs }

def parseNode (j : Json) : Option (Node String) := do
  let n ← (← field j "n").getStr?.toOption
  let p ← parseProps (← field j "p")
  let comps ← optList (← field j "comps") parseComp
  let svcs ← optList (← field j "svcs") parseSvc
  pure { name := n, props := p, comps := comps, svcs := svcs }

def modJson (l : List (String × Flags)) : Json :=
  Json.arr (l.map fun (p : String × Flags) => Json.arr #[Json.str p.1, Json.num (JsonNumber.fromNat (encodeC cfg.flagVal p.2))]).toArray

def tdiffJson (d : Option TDiff) : Json :=
  match d with
  | none => Json.null
  | some d => Json.mkObj [
      ("added.nodes", ofStrs d.addedNodes), ("added.components", ofStrs d.addedComps), ("added.services", ofStrs d.addedSvcs),
      ("added.interfaces", ofStrs d.addedIfs),
      ("removed.nodes", ofStrs d.removedNodes), ("removed.components", ofStrs d.removedComps), ("removed.services", ofStrs d.removedSvcs),
      ("removed.interfaces", ofStrs d.removedIfs),
      ("modified.nodes", modJson d.modNodes), ("modified.components", modJson d.modComps),
      ("modified.services", modJson d.modSvcs), ("modified.interfaces", modJson d.modIfs)]

/-! scripts (`Lemmas/C17Script.lean`): `["apply", kind, A, script]` → the edited tree, `["expect", kind, A, script]` → the
report the script predicts.  Used to tie `applyX` to the real add_/remove_/set_ methods and `expX` to the real diff. -/

def parsePScript (j : Json) : Option (PScript String) := do
  let g (k : String) : Option (Option (Option String)) :=
    match field j k with
    | none => some none
    | some (.arr #[v]) => (optStr v).map some
    | some _ => none
  pure { labels := ← g "labels", caps := ← g "caps", ud := ← g "ud" }

def parseEdits {α ε} (j : Json) (pa : Json → Option α) (pe : Json → Option ε) : Option (List (DEdit α ε)) :=
  match j with
  | .arr xs => xs.toList.mapM fun e =>
    match e with
    | .arr #[.str "add", x] => (pa x).map DEdit.add
    | .arr #[.str "rm", .str k] => some (DEdit.remove k)
    | .arr #[.str "mod", .str k, sc] => (pe sc).map (DEdit.modify k)
    | _ => none
  | _ => none

def parseIfaceScript (j : Json) : Option (IfaceScript String) := do
  pure { pe := ← parsePScript (← field j "pe"), subs := ← parseEdits (← field j "subs") parseLeaf parsePScript }

def parseSvcScript (j : Json) : Option (SvcScript String) := do
  pure { pe := ← parsePScript (← field j "pe"), ifs := ← parseEdits (← field j "ifs") parseIface parseIfaceScript }

def parseCompScript (j : Json) : Option (CompScript String) := do
  let sv ← field j "svc"
  let svc ← (match sv with | .null => some none | x => (parseSvcScript x).map some)
  pure { pe := ← parsePScript (← field j "pe"), svc := svc }

def parseNodeScript (j : Json) : Option (NodeScript String) := do
  pure { pe := ← parsePScript (← field j "pe"), comps := ← parseEdits (← field j "comps") parseComp parseCompScript,
         svcs := ← parseEdits (← field j "svcs") parseSvc parseSvcScript }

def optJ (o : Option String) : Json := match o with | none => Json.null | some s => Json.str s
def propsJson (p : Props String) : Json := Json.arr #[optJ p.labels, optJ p.caps, optJ p.ud]
def listJ {α} (o : Option (List α)) (f : α → Json) : Json :=
  match o with | none => Json.null | some l => Json.arr (l.map f).toArray
def leafJson (l : Leaf String) : Json := Json.mkObj [("n", Json.str l.name), ("p", propsJson l.props)]
def ifaceJson (i : Iface String) : Json :=
  Json.mkObj [("n", Json.str i.name), ("p", propsJson i.props), ("d", Json.bool i.dedicated), ("subs", listJ i.subs leafJson)]
def svcJson (s : Svc String) : Json := Json.mkObj [("n", Json.str s.name), ("p", propsJson s.props), ("ifs", listJ s.ifs ifaceJson)]
def compJson (c : Comp String) : Json :=
  Json.mkObj [("n", Json.str c.name), ("p", propsJson c.props), ("s", Json.bool c.smart), ("svcs", listJ c.svcs svcJson)]
def nodeJson (n : Node String) : Json :=
  Json.mkObj [("n", Json.str n.name), ("p", propsJson n.props), ("comps", listJ n.comps compJson), ("svcs", listJ n.svcs svcJson)]

def handleScript (op kind : String) (a sc : Json) : Json :=
  if kind == "node" then
    match parseNode a, parseNodeScript sc with
    | some x, some s => if op == "apply" then ok (nodeJson (applyNode s x)) else ok (tdiffJson (expNode s x))
    | _, _ => err "bad-args"
  else if kind == "svc" then
    match parseSvc a, parseSvcScript sc with
    | some x, some s => if op == "apply" then ok (svcJson (applySvc s x)) else ok (tdiffJson (expSvc s x))
    | _, _ => err "bad-args"
  else if kind == "iface" then
    match parseIface a, parseIfaceScript sc with
    | some x, some s => if op == "apply" then ok (ifaceJson (applyIface s x)) else ok (tdiffJson (expIface s x))
    | _, _ => err "bad-args"
  else err "bad-op"

def flagName : FlagK → String
  | .labels => "LABELS"
  | .caps => "CAPACITIES"
  | .ud => "USER_DATA"
  | .sub => "SUB_INTERFACES"

def cfgJson : Json :=
  Json.mkObj [("compKinds", ofStrs (cfg.node.recKinds .comps)), ("ifaceKinds", ofStrs (cfg.svc.recKinds .ifs)),
    ("flagVal", Json.mkObj (cfg.flagVal.map fun e => (flagName e.1, Json.num (JsonNumber.fromNat e.2)))),
    ("dictKeyOnly", Json.bool cfg.dictKeyOnly)]

/-! the value classes' own equality (`Model/DiffVal.lean`): `["veq", "L"|"C"|"U", a, b]` → `[a == b, a != b]` as Python evaluates
them (`a`, `b`: null or an instance: field dictionary as `[[field, value], …]` / decoded JSON value), `["canon", "U", a]` → the
canonical form.  JSON values on the wire: null, true, false, `["n", token]`, `["s", string]`, `["a", [v…]]`, `["o", [[k, v]…]]`. -/

def parseFV (j : Json) : Option FV :=
  match j with
  | .null => some .null
  | .str s => some (.str s)
  | .num n => if n.exponent == 0 then some (.int n.mantissa) else none
  | .arr xs => (xs.toList.mapM fun (x : Json) => x.getStr?.toOption).map FV.strs
  | _ => none

def parseFields (j : Json) : Option Fields :=
  match j with
  | .arr xs => xs.toList.mapM fun e =>
    match e with
    | .arr #[.str k, v] => (parseFV v).map fun x => (k, x)
    | _ => none
  | _ => none

partial def parseJ (j : Json) : Option J :=
  match j with
  | .null => some J.null
  | .bool b => some (J.bool b)
  | .arr #[.str "n", .str t] => some (J.num t)
  | .arr #[.str "s", .str t] => some (J.str t)
  | .arr #[.str "a", .arr xs] => (xs.toList.mapM parseJ).map fun l => J.arr (l.foldr J.cons J.nil)
  | .arr #[.str "o", .arr xs] =>
    let ms : Option (List (String × J)) := xs.toList.mapM fun (e : Json) =>
      match e with
      | Json.arr #[Json.str k, v] => (parseJ v).map fun x => (k, x)
      | _ => none
    ms.map fun l => J.obj (List.foldr (fun e t => J.mem e.1 e.2 t) J.nil l)
  | _ => none

mutual
partial def jJson : J → Json
  | .null => Json.null
  | .bool b => Json.bool b
  | .num t => Json.arr #[Json.str "n", Json.str t]
  | .str t => Json.arr #[Json.str "s", Json.str t]
  | .arr l => Json.arr #[Json.str "a", Json.arr (jItems l).toArray]
  | .obj m => Json.arr #[Json.str "o", Json.arr (jMembers m).toArray]
  | _ => Json.str "?"
partial def jItems : J → List Json
  | .cons h t => jJson h :: jItems t
  | _ => []
partial def jMembers : J → List Json
  | .mem k v t => Json.arr #[Json.str k, jJson v] :: jMembers t
  | _ => []
end

def optArg {α} (p : Json → Option α) (j : Json) : Option (Option α) :=
  match j with
  | .null => some none
  | x => (p x).map some

/-- a `JSONData` instance on the wire: `["v", value]` -/
def parseInst (j : Json) : Option J :=
  match j with
  | .arr #[.str "v", x] => parseJ x
  | _ => none

def eqReply (e : Bool) : Json := ok (Json.arr #[Json.bool e, Json.bool (!e)])

def handleVeq (cls : String) (a b : Json) : Json :=
  if cls == "L" || cls == "C" then
    let m := missingFV (if cls == "L" then cfg.vals.labelsMissing else cfg.vals.capsMissing)
    match optArg parseFields a, optArg parseFields b with
    | some x, some y => eqReply (optEq (fieldsEq m) x y)
    | _, _ => err "bad-args"
  else if cls == "U" then
    match optArg parseInst a, optArg parseInst b with
    | some x, some y => eqReply (optEq udEq x y)
    | _, _ => err "bad-args"
  else if cls == "UX" then   -- two instances of different `JSONData` subclasses
    match parseInst a, parseInst b with
    | some x, some y => eqReply (if cfg.vals.udSameClass then false else udEq x y)
    | _, _ => err "bad-args"
  else err "bad-op"

/-! `["dictops", [["set", leaf] | ["pop", name] …]]` → the dictionary `dictRun` (`Lemmas/C17Sym.lean`: `add_*` is `d[name] = x`,
`remove_*` is `d.pop(name)`) builds from the empty one, against the real `InterfaceInfo.add_interface / remove_interface`. -/
def parseDictOps (j : Json) : Option (List (DictOp (Leaf String))) :=
  match j with
  | .arr xs => xs.toList.mapM fun (e : Json) =>
    match e with
    | Json.arr #[Json.str "set", x] => (parseLeaf x).map DictOp.set
    | Json.arr #[Json.str "pop", Json.str k] => some (DictOp.pop k)
    | _ => none
  | _ => none

def handle (j : Json) : Json :=
  match j with
  | .arr #[.str "cfg"] => ok cfgJson
  | .arr #[.str "classes", .str ka, .str kb] =>
    -- slivers of two unrelated classes: the abstract `diff` every method calls first asserts `isinstance(self, other.__class__)`
    if ka != kb && cfg.classGuard then err "assertion" else err "not-modelled"
  | .arr #[.str "dictops", ops] =>
    match parseDictOps ops with
    | some l => ok (Json.arr ((dictRun l []).map leafJson).toArray)
    | none => err "bad-args"
  | .arr #[.str "veq", .str cls, a, b] => handleVeq cls a b
  | .arr #[.str "canon", .str "U", a] =>
    match parseJ a with
    | some x => ok (jJson x.canon)
    | none => err "bad-args"
  | .arr #[.str op, .str kind, a, sc] => handleScript op kind a sc
  | .arr #[.str kind, a, b] =>
    if kind == "node" then
      match parseNode a, parseNode b with
      | some x, some y =>
        match nodeDiffC cfg x y with
        | .ok d => ok (tdiffJson d)
        | .error e => err e
      | _, _ => err "bad-args"
    else if kind == "svc" then
      match parseSvc a, parseSvc b with
      | some x, some y => ok (tdiffJson (svcDiffC cfg x y))
      | _, _ => err "bad-args"
    else if kind == "iface" then
      match parseIface a, parseIface b with
      | some x, some y => ok (tdiffJson (ifaceDiffC cfg x y))
      | _, _ => err "bad-args"
    else err "bad-op"
  | _ => err "bad-request"

def main : IO Unit := run handle
