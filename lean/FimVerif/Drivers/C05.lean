import FimVerif.Drivers.StoreCodec
import FimVerif.Model.AGraph
import FimVerif.Model.ARef
open Lean FimVerif.Proto FimVerif.Store FimVerif.StoreCodec

/-- requests: `["S", op…]` shared-store model, `["D", op…]` one-graph-per-id model, `["A", op…]` the reference
    model (`AGraph.step` on the content of the addressed graph); `[_, "snap"]` / `["A", "content", g]` return
    state; `[_, "reset"]` starts a new history. -/
structure St where
  s : Store
  d : FimVerif.DStore.DStore
  a : List (String × AGraph)
  r : ARef := ARef.init

def getA (st : St) (g : String) : AGraph := (FimVerif.AMap.get g st.a).getD AGraph.empty

def outWithGraphId (g : String) : Except Err Out → Except Err Out
  | .ok (.nodeProps l p) => .ok (.nodeProps l (p ++ [("GraphID", .str g)]))
  | r => r

def contentToJson (A : AGraph) : Json :=
  Json.mkObj [("nodes", .arr (A.nodes.map propsToJson).toArray),
              ("edges", .arr (A.edges.map fun e => Json.arr #[optValToJson e.1, optValToJson e.2.1, propsToJson e.2.2]).toArray)]

def keyToJson (k : Key) : Json := .arr #[optValToJson k.1, optValToJson k.2]

/-- the whole reference store: node dictionaries and links between keys -/
def arefToJson (R : ARef) : Json :=
  Json.mkObj [("nodes", .arr (R.nodes.map propsToJson).toArray),
              ("edges", .arr (R.edges.map fun e => Json.arr #[keyToJson e.1, keyToJson e.2.1, propsToJson e.2.2]).toArray)]

def stepReq (st : St) (j : Json) : St × Json :=
  match j with
  | .arr #[.str "R", .str "reset"] => ({ st with r := ARef.init }, ok .null)
  | .arr #[.str "R", .str "snap"] => (st, ok (arefToJson st.r))
  | .arr #[.str "R", .str "content", .str g] => (st, ok (contentToJson (ARef.view st.r g)))
  | .arr #[.str "S", .str "abs"] => (st, ok (arefToJson (absS st.s)))
  | .arr #[.str "S", .str "snap"] => (st, ok (snapToJson st.s))
  | .arr #[.str "S", .str "reset"] => ({ st with s := init }, ok .null)
  | .arr #[.str "D", .str "snap"] => (st, ok (dsnapToJson st.d))
  | .arr #[.str "D", .str "reset"] => ({ st with d := FimVerif.DStore.init }, ok .null)
  | .arr #[.str "A", .str "reset"] => ({ st with a := [] }, ok .null)
  | .arr #[.str "A", .str "content", .str g] => (st, ok (contentToJson (getA st g)))
  | .arr #[.str w, req] =>
    match opOfJson req with
    | some op =>
      if !op.WF then (st, err "bad-args")
      else if w == "S" then let r := step op st.s; ({ st with s := r.2 }, resToJson r.1)
      else if w == "D" then let r := FimVerif.DStore.step op st.d; ({ st with d := r.2 }, resToJson r.1)
      else if w == "R" then let r := ARef.step op st.r; ({ st with r := r.2 }, resToJson r.1)
      else if w == "A" then
        if !AGraph.covers op then (st, err "not-covered")
        else
          let r := AGraph.step op (getA st op.other) (getA st op.target)
          ({ st with a := FimVerif.AMap.set op.target r.2 st.a }, resToJson (outWithGraphId op.target r.1))
      else (st, err "bad-request")
    | none => (st, err "bad-request")
  | _ => (st, err "bad-request")

def main : IO Unit := runState ({ s := init, d := FimVerif.DStore.init, a := [] } : St) stepReq
