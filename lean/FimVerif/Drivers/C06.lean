import FimVerif.Drivers.Proto
import FimVerif.Model.Query
/-! Line protocol for C06.  One request per graph:
    `["g", [[id, cls]…], [[a, rel, b]…], [query…]]` with queries
    `["fn", n, rel, cls]`, `["two", n, rel1, cls1, rel2, cls2]`, `["sp", a, z, rel|null]`,
    `["hops", a, z, [hop…], cutoff]`, `["parent", n, rel, cls]`, `["second", n, rel1, cls1, rel2, cls2]`,
    `["linkcps" | "childcps" | "nodecps" | "peer", n]` (derived helpers, gate and constants from the source), `["wf"]`.
    Reply `["ok", [result…]]`, each result `["ok", value]` or `["err", kind]`. -/
open Lean FimVerif.Proto FimVerif.Query

def res {α} (f : α → Json) : Except Err α → Json
  | .ok v => ok (f v)
  | .error e => err e.kind

def pairs (l : List (String × String)) : Json := Json.arr (l.map (fun p => ofStrs [p.1, p.2])).toArray

def query (g : TGraph) (q : Json) : Json :=
  match q with
  | .arr #[.str "fn", .str n, .str r, .str c] => res ofStrs (getFirstNeighbor g n r c)
  | .arr #[.str "two", .str n, .str r1, .str c1, .str r2, .str c2] => res pairs (getFirstAndSecondNeighbor g n r1 c1 r2 c2)
  | .arr #[.str "second", .str n, .str r1, .str c1, .str r2, .str c2] => res ofStrs (secondComponents g n r1 c1 r2 c2)
  | .arr #[.str "parent", .str n, .str r, .str c] =>
    res (fun o => match o with | some p => Json.str p | none => Json.null) (getParentId g n r c)
  | .arr #[.str "linkcps", .str n] => res ofStrs (linkCps g n)
  | .arr #[.str "childcps", .str n] => res ofStrs (childCps g n)
  | .arr #[.str "nodecps", .str n] => res ofStrs (nodeCps g n)
  | .arr #[.str "peer", .str n] => res ofStrs (peerCps g n)
  | .arr #[.str "sp", .str a, .str z, .str r] => res ofStrs (getNodesOnShortestPath g a z (some r))
  | .arr #[.str "sp", .str a, .str z, .null] => res ofStrs (getNodesOnShortestPath g a z none)
  | .arr #[.str "hops", .str a, .str z, hs, c] =>
    match getStrs hs, c.getNat? with
    | some hops, .ok cut => res ofStrs (getNodesOnPathWithHops g a z hops cut)
    | _, _ => err "bad-args"
  | .arr #[.str "wf"] => ok (Json.bool (wf g))
  | _ => err "bad-query"

def handle (j : Json) : Json :=
  match j with
  | .arr #[.str "g", .arr ns, .arr ls, .arr qs] =>
    let nodeOps := ns.toList.filterMap fun n =>
      match n with | .arr #[.str i, .str c] => some (Op.node i c) | _ => none
    let linkOps := ls.toList.filterMap fun l =>
      match l with | .arr #[.str a, .str r, .str b] => some (Op.link a r b) | _ => none
    if nodeOps.length != ns.size || linkOps.length != ls.size then err "bad-graph" else
    let g := build (nodeOps ++ linkOps)
    ok (Json.arr (qs.map (query g)))
  | _ => err "bad-request"

def main : IO Unit := run handle
