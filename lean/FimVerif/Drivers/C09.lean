import FimVerif.Drivers.TopoRun
import FimVerif.Proofs.C09
/-! C09 driver: the shared interpreter of `Model/Topo.lean` plus `{"op":"hyp"}`, which evaluates on the current model
state the decidable state hypotheses of `C09.atomic_op` / `C09.atomic_xop` (Proofs/C09.lean), so that the harness can
report on how many calls of a run the guards of the theorems hold (non-vacuity on reachable states). -/
open Lean FimVerif FimVerif.Proto FimVerif.Topo

def stepC09 (s : Topo) (j : Json) : Topo × Json :=
  if FimVerif.TopoRun.getStr j "op" == "hyp" then
    (s, ok (Json.mkObj [("ids", Json.bool (decide (IdsDistinct s))), ("closed", Json.bool (decide (Closed s))),
                        ("cpEdgeOk", Json.bool (decide (CpEdgeOk s))), ("spLeaf", Json.bool (decide (SpLeaf s))),
                        ("spOwned", Json.bool (decide (SpOwned s))), ("spPeer1", Json.bool (decide (SpPeer1 s))),
                        ("removeHyp", Json.bool (decide (FimVerif.C09.RemoveHyp s)))]))
  else FimVerif.TopoRun.step s j

def main : IO Unit := runState FimVerif.Topo.Topo.empty stepC09
