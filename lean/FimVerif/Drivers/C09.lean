import FimVerif.Drivers.TopoRun
import FimVerif.Proofs.C09
/-! C09 driver: the shared interpreter of `Model/Topo.lean` plus `{"op":"hyp"}`, which evaluates on the current model
state the decidable state hypotheses of `C09.atomic_op` / `C09.atomic_xop` (Proofs/C09.lean), so that the harness can
report on how many calls of a run the guards of the theorems hold (non-vacuity on reachable states). -/
open Lean FimVerif FimVerif.Proto FimVerif.Topo

def stepC09 (s : Topo) (j : Json) : Topo × Json :=
  if FimVerif.TopoRun.getStr j "op" == "hyp" then
    (s, ok (Json.mkObj [("ids", Json.bool (decide (IdsDistinct s))), ("closed", Json.bool (decide (Closed s))),
                        ("cpEdgeOk", Json.bool (decide (CpEdgeOk s))), ("spLeaf", Json.bool (decide (SpLeaf s))),
                        ("spOwned", Json.bool (decide (SpOwned s))), ("spPeer1", Json.bool (decide (SpPeer1 s))),
                        ("removeHyp", Json.bool (decide (FimVerif.C09.RemoveHyp s)))]))
  else if FimVerif.TopoRun.getStr j "op" == "order" then
    -- the hypothesis of `C09.order_discipline` on the write-order table generated in this run
    (s, ok (Json.mkObj [("ok", Json.bool FimVerif.C09.orderOk),
                        ("bad", Json.arr (FimVerif.C09.orderBad.map (fun p => Json.arr #[Json.str p.1, Json.str p.2])).toArray)]))
  else if FimVerif.TopoRun.getStr j "op" == "update_caplab" then
    -- third alphabet (Model/TopoC09.lean): dispatched through `Topo.stepY`, what `C09.atomic_yop` is about
    let arg := match FimVerif.TopoRun.propArgs j "props" with
      | a :: _ => a
      | [] => PropArg.ok "StitchNode" "false"      -- stale handle: the read fails before the argument matters
    FimVerif.TopoRun.finish (stepY (.updateCaplab (FimVerif.TopoRun.nidOfString (FimVerif.TopoRun.getStr j "nid")) arg) s)
      FimVerif.TopoRun.outRet FimVerif.TopoRun.outCache
  else FimVerif.TopoRun.step s j

def main : IO Unit := runState FimVerif.Topo.Topo.empty stepC09
