import FimVerif.Drivers.Proto
import FimVerif.Model.Cbm
open Lean FimVerif.Proto FimVerif.Cbm

/-! Line-protocol driver for the CBM model.
Requests: `["reset"]`, `["merge", spec, order]`, `["unmerge", gid]`, `["snapshot"]`, `["rollback", k]`.
Reply: `["ok", {"r": "ok" | error kind, "cbm": graph, "val": snapshot index | null}]`. -/

def getProps (j : Json) : Option Props :=
  match j with
  | .obj kvs => (kvs.toList.mapM fun (k, v) => match v with | .str s => some (k, s) | _ => none)
  | _ => none

def getDeleg (j : Json) : Option Deleg :=
  match j with
  | .null => some .absent
  | .str "" => some .emptied
  | .obj _ => (getProps j).map Deleg.dict
  | _ => none

def getNode (j : Json) : Option Node :=
  match j with
  | .arr #[.str i, p, ld, cd] => do
    let p ← getProps p; let ld ← getDeleg ld; let cd ← getDeleg cd
    pure ⟨i, p, [], ld, cd⟩
  | _ => none

def getEdge (j : Json) : Option Edge :=
  match j with
  | .arr #[.str a, .str b, p] => do
    let p ← getProps p
    pure ⟨a, b, p⟩
  | _ => none

def getAdm (j : Json) : Option Adm := do
  let i ← (j.getObjValAs? String "id").toOption
  let ns ← (j.getObjVal? "nodes").toOption
  let es ← (j.getObjVal? "edges").toOption
  match ns, es with
  | .arr ns, .arr es =>
    let ns ← ns.toList.mapM getNode
    let es ← es.toList.mapM getEdge
    pure ⟨i, ⟨ns, es⟩⟩
  | _, _ => none

def ofProps (p : Props) : Json := Json.mkObj (p.map fun (k, v) => (k, Json.str v))

def ofDeleg : Deleg → Json
  | .absent => .null
  | .emptied => .str ""
  | .dict l => ofProps l

def ofGraph (g : Graph) : Json :=
  Json.mkObj [
    ("nodes", Json.arr (g.nodes.map fun n =>
        Json.arr #[.str n.id, ofProps n.props, ofStrs n.prov, ofDeleg n.ldel, ofDeleg n.cdel]).toArray),
    ("edges", Json.arr (g.edges.map fun e => Json.arr #[.str e.a, .str e.b, ofProps e.props]).toArray)]

def reply (e : Option Err) (w : World) (val : Json := .null) : World × Json :=
  (w, ok (Json.mkObj [("r", .str (match e with | none => "ok" | some e => e.kind)), ("cbm", ofGraph w.cbm), ("val", val)]))

def sameMembers (x y : List String) : Bool :=
  x.length == y.length && x.all y.contains && y.all x.contains

def handle (w : World) (j : Json) : World × Json :=
  match j with
  | .arr #[.str "reset"] => reply none (World.init [])
  | .arr #[.str "merge", spec, ord] =>
    match getAdm spec, getStrs ord with
    | some a, some order =>
      -- the order is only meaningful when the common-node loop is reached
      let order := if sameMembers order (common w.cbm a.g) then order else common w.cbm a.g
      let r := mergeOrd w.cbm a order
      reply r.1 { w with cbm := r.2 }
    | _, _ => (w, err "bad-args")
  | .arr #[.str "unmerge", .str gid] =>
    let r := unmerge w.cbm gid
    reply r.1 { w with cbm := r.2 }
  | .arr #[.str "snapshot"] =>
    let r := snapshot w
    reply r.1 r.2 (match r.1 with | none => Json.num (JsonNumber.fromNat w.next) | some _ => .null)
  | .arr #[.str "rollback", k] =>
    match k.getNat? with
    | .ok k => let r := rollback w k; reply r.1 r.2
    | .error _ => (w, err "bad-args")
  | _ => (w, err "bad-request")

def main : IO Unit := runState (World.init []) handle
