import FimVerif.Drivers.Proto
import FimVerif.Model.CbmStore
import FimVerif.Generated.CbmCfg
open Lean FimVerif.Proto FimVerif.Cbm

/-! Line-protocol driver for the CBM model.
Requests: `["reset"]`, `["merge", spec, order]`, `["edit", spec]` (the source model stored under spec.id is replaced), `["unmerge", gid]`, `["snapshot"]`, `["rollback", k]`.
Reply: `["ok", {"r": "ok" | error kind, "cbm": graph, "val": snapshot index | null, "agree": bool, "src": bool}]`.

Every request is executed twice: by the interpreter of the *generated* plans on the model of the shared store
(`Model/CbmStore.lean`; this is what is reported and compared with the implementation) and by the abstract model the theorems
are about (`Model/Cbm.lean`); `agree` says that both raise the same and that the store's view of the combined model is the
abstract model's graph; `src` that the store's view of the merged source model is still the model that was sent. -/

def getProps (j : Json) : Option Props :=
  match j with
  | .obj kvs => (kvs.toList.mapM fun (k, v) => match v with | .str s => some (k, s) | _ => none)
  | _ => none

def getDeleg (j : Json) : Option Deleg :=
  match j with
  | .null => some .absent
  | .str "" => some .emptied
  | .obj _ => (getProps j).map Deleg.dict
  | _ => none

def getNode (j : Json) : Option Node :=
  match j with
  | .arr #[.str i, p, ld, cd] => do
    let p ← getProps p; let ld ← getDeleg ld; let cd ← getDeleg cd
    pure ⟨i, p, [], ld, cd⟩
  | _ => none

def getEdge (j : Json) : Option Edge :=
  match j with
  | .arr #[.str a, .str b, p] => do
    let p ← getProps p
    pure ⟨a, b, p⟩
  | _ => none

def getAdm (j : Json) : Option Adm := do
  let i ← (j.getObjValAs? String "id").toOption
  let ns ← (j.getObjVal? "nodes").toOption
  let es ← (j.getObjVal? "edges").toOption
  match ns, es with
  | .arr ns, .arr es =>
    let ns ← ns.toList.mapM getNode
    let es ← es.toList.mapM getEdge
    pure ⟨i, ⟨ns, es⟩⟩
  | _, _ => none

def ofProps (p : Props) : Json := Json.mkObj (p.map fun (k, v) => (k, Json.str v))

def ofDeleg : Deleg → Json
  | .absent => .null
  | .emptied => .str ""
  | .dict l => ofProps l

def ofGraph (g : Graph) : Json :=
  Json.mkObj [
    ("nodes", Json.arr (g.nodes.map fun n =>
        Json.arr #[.str n.id, ofProps n.props, ofStrs n.prov, ofDeleg n.ldel, ofDeleg n.cdel]).toArray),
    ("edges", Json.arr (g.edges.map fun e => Json.arr #[.str e.a, .str e.b, ofProps e.props]).toArray)]

structure St where
  w : World
  sw : SWorld

def names : Names := ⟨"CBM", fun n => "\u0001tmp-" ++ toString n, fun k => "\u0001snap-" ++ toString k⟩
def P : Plans := FimVerif.Gen.CbmCfg.plans
def st0 : St := ⟨World.init [], ⟨Store.empty, 0, 0⟩⟩

def reply (st : St) (e a : Option Err) (srcOk : Bool) (val : Json := .null) : St × Json :=
  let v := st.sw.s.view names.cbm
  (st, ok (Json.mkObj [("r", .str (match e with | none => "ok" | some e => e.kind)), ("cbm", ofGraph v), ("val", val),
                        ("agree", .bool (e == a && v.sameAs st.w.cbm && st.sw.next == st.w.next)), ("src", .bool srcOk),
                        -- temporary graphs left behind in the store (by merges that raised)
                        ("stray", Json.num (JsonNumber.fromNat ((st.sw.s.nodes.map (·.gid)).eraseDups.filter
                            (fun g => g.startsWith "\u0001tmp-")).length))]))

def handle (st : St) (j : Json) : St × Json :=
  match j with
  | .arr #[.str "reset"] => reply st0 none none true
  | .arr #[.str "merge", spec, ord] =>
    match getAdm spec, getStrs ord with
    | some a, some order =>
      -- the source model lies in the store next to the combined model (put there by the harness' session)
      let sw0 := if (st.sw.s.view a.id).sameAs a.g then st.sw else { st.sw with s := st.sw.s.load a }
      let r := sstep P names sw0 (.merge a.id order)
      -- the order is only meaningful when the common-node loop is reached
      let order' := if sameMembers order (common st.w.cbm a.g) then order else common st.w.cbm a.g
      let ra := mergeOrd st.w.cbm a order'
      reply ⟨{ st.w with cbm := ra.2 }, r.2⟩ r.1 ra.1 ((r.2.s.view a.id).sameAs a.g)
    | _, _ => (st, err "bad-args")
  | .arr #[.str "unmerge", .str gid] =>
    let r := sstep P names st.sw (.unmerge gid)
    let ra := unmerge st.w.cbm gid
    reply ⟨{ st.w with cbm := ra.2 }, r.2⟩ r.1 ra.1 true
  | .arr #[.str "edit", spec] =>
    -- the source model moves on in the store (changed in place / reloaded under its id / deleted): the graph stored under its
    -- id is replaced by the version sent; not a call of the combined model - the abstract model has nothing to do
    match getAdm spec with
    | some a =>
      let s' := if a.g.nodes.isEmpty then st.sw.s.delGraph a.id else st.sw.s.load a
      let st' : St := ⟨st.w, { st.sw with s := s' }⟩
      reply st' none none ((s'.view a.id).sameAs a.g)
    | none => (st, err "bad-args")
  | .arr #[.str "snapshot"] =>
    let r := sstep P names st.sw .snapshot
    let ra := snapshot st.w
    reply ⟨ra.2, r.2⟩ r.1 ra.1 true (match r.1 with | none => Json.num (JsonNumber.fromNat st.sw.next) | some _ => .null)
  | .arr #[.str "rollback", k] =>
    match k.getNat? with
    | .ok k =>
      let r := sstep P names st.sw (.rollback k)
      let ra := rollback st.w k
      reply ⟨ra.2, r.2⟩ r.1 ra.1 true
    | .error _ => (st, err "bad-args")
  | _ => (st, err "bad-request")

def main : IO Unit := runState st0 handle
