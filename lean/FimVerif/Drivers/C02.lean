import FimVerif.Drivers.Proto
import FimVerif.Model.Sliver
open Lean FimVerif.Proto FimVerif.Sliver FimVerif.Gen.SliverMap

/-! Line protocol for C02.  Values: ["s",str] ["e",cls,name] ["o",cls,text] ["j",cls,text] ["t",[str]] ["b",bool] ["ip",str].
Fields: {key: value}.  Tree: {"k":kind,"id":str|null,"f":fields,"c":[tree]}. -/

def valOfJson (j : Json) : Option Val :=
  match j with
  | .arr #[.str "s", .str s] => some (.str s)
  | .arr #[.str "e", .str c, .str n] => some (.enum c n)
  | .arr #[.str "o", .str c, .str t] => some (.obj c t)
  | .arr #[.str "j", .str c, .str t] => some (.jdata c t)
  | .arr #[.str "t", xs] => (getStrs xs).map .tuple
  | .arr #[.str "b", .bool b] => some (.bool b)
  | .arr #[.str "ip", .str s] => some (.ip s)
  | _ => none

def jsonOfVal : Val → Json
  | .str s => .arr #[.str "s", .str s]
  | .enum c n => .arr #[.str "e", .str c, .str n]
  | .obj c t => .arr #[.str "o", .str c, .str t]
  | .jdata c t => .arr #[.str "j", .str c, .str t]
  | .tuple xs => .arr #[.str "t", ofStrs xs]
  | .bool b => .arr #[.str "b", .bool b]
  | .ip s => .arr #[.str "ip", .str s]

def fieldsOfJson (j : Json) : Option (Fields Val) :=
  match j with
  | .obj kvs =>
    kvs.foldl (fun acc k v => match acc, valOfJson v with
      | some f, some x => some (f.set k (some x))
      | _, _ => none) (some freshFields)
  | _ => none

def keysOf (T : KindTable) : List String := (T.fromRows.map (·.key) ++ T.settable).eraseDups

def jsonOfFields (T : KindTable) (f : Fields Val) : Json :=
  Json.mkObj ((keysOf T).filterMap fun k => (f k).map fun v => (k, jsonOfVal v))

def gpropsOf (T : KindTable) : List String := (T.toRows.map (·.gprop)).eraseDups

def jsonOfProps (T : KindTable) (p : Props String) : Json :=
  Json.mkObj ((gpropsOf T).filterMap fun g => (p g).map fun v => (g, Json.str v))

partial def treeOfJson (j : Json) : Option (Sliver Val) := do
  let k ← (j.getObjValAs? String "k").toOption
  let id := (j.getObjValAs? String "id").toOption
  let f ← fieldsOfJson (j.getObjValD "f")
  let cs ← match j.getObjValD "c" with
    | .arr xs => xs.toList.mapM treeOfJson
    | _ => some []
  pure (.mk k id f cs)

partial def jsonOfTree (s : Sliver Val) : Json :=
  Json.mkObj [("k", .str s.kind), ("id", match s.nodeId with | some i => .str i | none => .null),
              ("f", jsonOfFields (tableOf s.kind) s.fields), ("c", .arr (s.kids.map jsonOfTree).toArray)]

partial def jsonOfDict (k : Kind) (d : Dict String) : Json :=
  Json.mkObj [("p", jsonOfProps (tableOf k) d.props),
              ("c", .arr (d.kids.map fun (slot, c) =>
                  Json.arr #[.str slot, jsonOfDict ((childKind k slot).getD "") c]).toArray)]

def exc (r : Except Err Json) : Json :=
  match r with
  | .ok j => j
  | .error e => .arr #[.str "err", .str e]

def runOps (T : KindTable) (p : Props String) : List Json → List Json
  | [] => []
  | op :: rest =>
    match op with
    | .arr #[.str "set", .str k, v] =>
      match valOfJson v with
      | some x => .str "ok" :: runOps T (setProperty concrete T freshFields p k x) rest
      | none => .str "bad-value" :: runOps T p rest
    | .arr #[.str "setnone", .str k] =>
      -- set_property(k, None) is unset_property(k)
      match unsetProperty p k with
      | .ok p' => .str "ok" :: runOps T p' rest
      | .error e => .arr #[.str "err", .str e] :: runOps T p rest
    | .arr #[.str "setprops", .str k, v] =>
      match setProperties1 concrete T freshFields p k (valOfJson v) with
      | .ok p' => .str "ok" :: runOps T p' rest
      | .error e => .arr #[.str "err", .str e] :: runOps T p rest
    | .arr #[.str "attrset", .str a, v] =>
      match (routesOf T.kind).find? (fun r => r.attr == a) with
      | none => .str "no-route" :: runOps T p rest
      | some r =>
        match attrAssign concrete T freshFields p r (valOfJson v) with
        | .ok p' => .str "ok" :: runOps T p' rest
        | .error e => .arr #[.str "err", .str e] :: runOps T p rest
    | .arr #[.str "unset", .str k] =>
      match unsetProperty p k with
      | .ok p' => .str "ok" :: runOps T p' rest
      | .error e => .arr #[.str "err", .str e] :: runOps T p rest
    | .arr #[.str "get", .str k] =>
      (match getProperty concrete T p k with
       | .ok (some v) => jsonOfVal v
       | .ok none => .null
       | .error e => .arr #[.str "err", .str e]) :: runOps T p rest
    | _ => .str "bad-op" :: runOps T p rest

def handle (j : Json) : Json :=
  match j with
  | .arr #[.str "props", .str kind, f] =>
    match fieldsOfJson f with
    | some s =>
      let T := tableOf kind
      let p := toProps concrete T s
      ok (Json.mkObj [("props", jsonOfProps T p),
                      ("back", exc ((fromProps concrete T p).map (jsonOfFields T)))])
    | none => err "bad-args"
  | .arr #[.str "dict", t] =>
    match treeOfJson t with
    | some s =>
      let d := toDict concrete s
      ok (Json.mkObj [("dict", jsonOfDict s.kind d),
                      ("back", exc ((fromDict concrete s.kind d).map jsonOfTree))])
    | none => err "bad-args"
  | .arr #[.str "graph", t] =>
    match treeOfJson t with
    | some s => ok (Json.mkObj [("back", exc ((graphRoundtrip (P := String) concrete s).map jsonOfTree))])
    | none => err "bad-args"
  | .arr #[.str "elem", .str kind, .obj kvs, .arr ops] =>
    -- the element's graph node as the store holds it: {graph property: string}
    let p : Props String := kvs.foldl (fun acc g v => match v with | .str x => acc.set g x | _ => acc) Props.empty
    ok (.arr (runOps (tableOf kind) p ops.toList).toArray)
  | _ => err "bad-request"

def main : IO Unit := run handle
