import FimVerif.Drivers.Proto
import FimVerif.Model.Sliver
import Std.Data.HashMap
open Lean FimVerif.Proto FimVerif.Sliver FimVerif.Gen.SliverMap

/-! Line protocol for C02.  Values: ["s",str] ["e",cls,name] ["o",cls,text] ["j",cls,text] ["t",[str]] ["b",bool] ["ip",str].
Fields: {key: value}.  Tree: {"k":kind,"id":str|null,"f":fields,"c":[tree]}. -/

def valOfJson (j : Json) : Option Val :=
  match j with
  | .arr #[.str "s", .str s] => some (.str s)
  | .arr #[.str "e", .str c, .str n] => some (.enum c n)
  | .arr #[.str "o", .str c, .str t] => some (.obj c t)
  | .arr #[.str "j", .str c, .str t] => some (.jdata c t)
  | .arr #[.str "t", xs] => (getStrs xs).map .tuple
  | .arr #[.str "b", .bool b] => some (.bool b)
  | .arr #[.str "ip", .str s] => some (.ip s)
  | _ => none

def jsonOfVal : Val → Json
  | .str s => .arr #[.str "s", .str s]
  | .enum c n => .arr #[.str "e", .str c, .str n]
  | .obj c t => .arr #[.str "o", .str c, .str t]
  | .jdata c t => .arr #[.str "j", .str c, .str t]
  | .tuple xs => .arr #[.str "t", ofStrs xs]
  | .bool b => .arr #[.str "b", .bool b]
  | .ip s => .arr #[.str "ip", .str s]

def fieldsOfJson (kind : Kind) (j : Json) : Option (Fields Val) :=
  match j with
  | .obj kvs =>
    kvs.foldl (fun acc k v => match acc, valOfJson v with
      | some f, some x => some (f.set k (some x))
      | _, _ => none) (some (freshOf kind))
  | _ => none

def keysOf (T : KindTable) : List String := (T.fromRows.map (·.key) ++ T.settable).eraseDups

def jsonOfFields (T : KindTable) (f : Fields Val) : Json :=
  Json.mkObj ((keysOf T).filterMap fun k => (f k).map fun v => (k, jsonOfVal v))

def gpropsOf (T : KindTable) : List String := (T.toRows.map (·.gprop)).eraseDups

def jsonOfProps (T : KindTable) (p : Props String) : Json :=
  Json.mkObj ((gpropsOf T).filterMap fun g => (p g).map fun v => (g, Json.str v))

partial def treeOfJson (j : Json) : Option (Sliver Val) := do
  let k ← (j.getObjValAs? String "k").toOption
  let id := (j.getObjValAs? String "id").toOption
  let f ← fieldsOfJson k (j.getObjValD "f")
  let cs ← match j.getObjValD "c" with
    | .arr xs => xs.toList.mapM treeOfJson
    | _ => some []
  pure (.mk k id f cs)

partial def jsonOfTree (s : Sliver Val) : Json :=
  Json.mkObj [("k", .str s.kind), ("id", match s.nodeId with | some i => .str i | none => .null),
              ("f", jsonOfFields (tableOf s.kind) s.fields), ("c", .arr (s.kids.map jsonOfTree).toArray)]

partial def jsonOfDict (k : Kind) (d : Dict String) : Json :=
  Json.mkObj [("p", jsonOfProps (tableOf k) d.props),
              ("c", .arr (d.kids.map fun (slot, c) =>
                  Json.arr #[.str slot, jsonOfDict ((childKind k slot).getD "") c]).toArray)]

def exc (r : Except Err Json) : Json :=
  match r with
  | .ok j => j
  | .error e => .arr #[.str "err", .str e]

def getReply (T : KindTable) (p : Props String) (k : String) : Json :=
  match getProperty concrete T p k with
  | .ok (some v) => jsonOfVal v
  | .ok none => .null
  | .error e => .arr #[.str "err", .str e]

def errJ (e : Err) : Json := .arr #[.str "err", .str e]

/-- the object a JSONData subclass makes from None -/
def wrapNoneVal (cls : String) : Val := .jdata cls "{}"

/-! Speed only: after every operation the node's property map (a chain of closures built by `Props.update` /
`Props.set`) is re-represented as a hash map over the graph properties the model can look at (`dom`: the kind's
to-rows and whatever the node held at the start); the model functions are applied unchanged. -/
def freezeMap (dom : List String) (p : Props String) : Std.HashMap String String :=
  dom.foldl (fun m g => match p g with | some v => m.insert g v | none => m) {}

def ofMap (hm : Std.HashMap String String) : Props String := fun x => hm[x]?

/-- an operation may name the handle it goes through as a trailing number (`["get", k, 2]`; none: handle 0) -/
def splitHandle (op : Json) : Json × Nat :=
  match op with
  | .arr xs =>
    match xs.back? with
    | some (.num n) => (.arr xs.pop, n.mantissa.toNat)
    | _ => (op, 0)
  | _ => (op, 0)

/-- ops on one element through several handles: graph node properties `p0` (the one state all handles share) and every
handle's cached name `nms` (the only state a handle owns) -/
def runOps (dom : List String) (T : KindTable) (E : ElemClass) (p0 : Props String) (nms : Array Json) : List Json → List Json
  | [] => []
  | op0 :: rest =>
    let hm := freezeMap dom p0
    let p := ofMap hm
    let (op, h) := splitHandle op0
    let nm := nms.getD h .null
    match op with
    | .arr #[.str "set", .str k, v] =>
      match valOfJson v with
      | some x => .str "ok" :: runOps dom T E (setProperty concrete T (freshOf T.kind) p k x) nms rest
      | none => .str "bad-value" :: runOps dom T E p nms rest
    | .arr #[.str "setnone", .str k] =>
      match setPropertyOpt concrete T E (freshOf T.kind) p k none with
      | .ok p' => .str "ok" :: runOps dom T E p' nms rest
      | .error e => errJ e :: runOps dom T E p nms rest
    | .arr #[.str "setprops", .arr kvs] =>
      -- [[k, v|null], ...]
      let kw := kvs.toList.filterMap fun kv => match kv with
        | .arr #[.str k, v] => some (k, valOfJson v)
        | _ => none
      match setProperties concrete T (freshOf T.kind) p kw with
      | .ok p' => .str "ok" :: runOps dom T E p' nms rest
      | .error e => errJ e :: runOps dom T E p nms rest
    | .arr #[.str "attrset", .str a, v] =>
      match E.routes.find? (fun r => r.attr == a) with
      | none => .str "no-route" :: runOps dom T E p nms rest
      | some r =>
        let res := attrAssign concrete T E wrapNoneVal (freshOf T.kind) p r (valOfJson v)
        if r.get == GetForm.cached then
          -- the name setter caches the value (in the handle it is called on) before or after the write, as the table says
          match res with
          | .ok p' => .str "ok" :: runOps dom T E p' (nms.setIfInBounds h v) rest
          | .error e => errJ e :: runOps dom T E p (if r.cacheAfterWrite || r.onValue == OnValue.none then nms else nms.setIfInBounds h v) rest
        else
          match res with
          | .ok p' => .str "ok" :: runOps dom T E p' nms rest
          | .error e => errJ e :: runOps dom T E p nms rest
    | .arr #[.str "attrget", .str a] =>
      match E.routes.find? (fun r => r.attr == a) with
      | none => .str "no-route" :: runOps dom T E p nms rest
      | some r =>
        (match r.get with
         | .cached => nm
         | .plain => getReply T p r.prop
         | .dataOf =>
           match getProperty concrete T p r.prop with
           | .ok (some (.jdata _ t)) => .arr #[.str "data", .str t]
           | .ok (some v) => jsonOfVal v
           | .ok none => .null
           | .error e => errJ e) :: runOps dom T E p nms rest
    | .arr #[.str "unset", .str k] =>
      match unsetProperty p k with
      | .ok p' => .str "ok" :: runOps dom T E p' nms rest
      | .error e => errJ e :: runOps dom T E p nms rest
    | .arr #[.str "get", .str k] => getReply T p k :: runOps dom T E p nms rest
    | _ => .str "bad-op" :: runOps dom T E p nms rest

def propsOfJson (kvs : Std.TreeMap.Raw String Json compare) : Props String :=
  kvs.foldl (fun acc g v => match v with | .str x => acc.set g x | _ => acc) Props.empty

def domOf (T : KindTable) (kvs : Std.TreeMap.Raw String Json compare) : List String :=
  let gs := T.toRows.map (·.gprop)
  kvs.foldl (fun acc g _ => if acc.contains g then acc else g :: acc) gs

def handle (j : Json) : Json :=
  match j with
  | .arr #[.str "props", .str kind, f] =>
    match fieldsOfJson kind f with
    | some s =>
      let T := tableOf kind
      let p := toProps concrete T s
      ok (Json.mkObj [("props", jsonOfProps T p),
                      ("back", exc ((fromProps concrete T p).map (jsonOfFields T)))])
    | none => err "bad-args"
  | .arr #[.str "dict", t] =>
    match treeOfJson t with
    | some s =>
      let d := toDict concrete s
      ok (Json.mkObj [("dict", jsonOfDict s.kind d),
                      ("back", exc ((fromDict concrete s.kind d).map jsonOfTree))])
    | none => err "bad-args"
  | .arr #[.str "graph", t] =>
    match treeOfJson t with
    | some s => ok (Json.mkObj [("back", exc ((graphRoundtrip (P := String) concrete s).map jsonOfTree))])
    | none => err "bad-args"
  | .arr #[.str "grapha", t] =>
    -- the tree written once, the rebuild started at every element of it: [[id, back], ...] in pre-order
    match treeOfJson t with
    | some s =>
      match graphAt (P := String) concrete s with
      | .error e => ok (errJ e)
      | .ok rs => ok (.arr (rs.map fun r => Json.arr #[.str (r.1.nodeId.getD ""), exc (r.2.map jsonOfTree)]).toArray)
    | none => err "bad-args"
  | .arr #[.str "graphx", t, ps] =>
    -- the graph path below a parent that is there (`["present", id, class]`) or is not (`["missing", id]`)
    match treeOfJson t with
    | some s =>
      let (g0, parent) : Except Err (AGraph String) × Option String :=
        match ps with
        | .arr #[.str "present", .str pid, .str cls] => (addNode AGraph.empty none pid cls "has" Props.empty, some pid)
        | .arr #[.str "missing", .str pid] => (.ok AGraph.empty, some pid)
        | _ => (.ok AGraph.empty, none)
      let r : Except Err (Sliver Val) :=
        match g0 with
        | .error e => .error e
        | .ok g =>
          match addSliver concrete g parent s with
          | .error e => .error e
          | .ok g' => buildDeep concrete g' 5 s.kind (s.nodeId.getD "")
      ok (Json.mkObj [("back", exc (r.map jsonOfTree))])
    | none => err "bad-args"
  | .arr #[.str "elem", .str kind, .obj kvs, .arr ops] =>
    -- the element's graph node as the store holds it: {graph property: string}; element class = base class of the kind
    let p := propsOfJson kvs
    let nm : Json := match kvs.get? "Name" with | some (.str s) => .arr #[.str "s", .str s] | _ => .null
    ok (.arr (runOps (domOf (tableOf kind) kvs) (tableOf kind) (baseClassOf kind) p #[nm] ops.toList).toArray)
  | .arr #[.str "elemc", .str cls, .obj kvs, .arr ops, nm0] =>
    -- with the element's cached name given (a handle whose cached name is out of step with the graph)
    match classOf? cls with
    | none => err "no-class"
    | some E =>
      -- `{"names": [...]}`: several handles of the element, each with its cached name
      let nms : Array Json := match nm0.getObjVal? "names" with
        | .ok (.arr xs) => xs
        | _ => #[nm0]
      ok (.arr (runOps (domOf (tableOf E.kind) kvs) (tableOf E.kind) E (propsOfJson kvs) nms ops.toList).toArray)
  | .arr #[.str "elemc", .str cls, .obj kvs, .arr ops] =>
    match classOf? cls with
    | none => err "no-class"
    | some E =>
      let p := propsOfJson kvs
      let nm : Json := match kvs.get? "Name" with | some (.str s) => .arr #[.str "s", .str s] | _ => .null
      ok (.arr (runOps (domOf (tableOf E.kind) kvs) (tableOf E.kind) E p #[nm] ops.toList).toArray)
  | _ => err "bad-request"

def main : IO Unit := run handle
