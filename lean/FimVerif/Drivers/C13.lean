import FimVerif.Drivers.Proto
import FimVerif.Model.Arm
/-! Line-protocol driver for C13 (ARM partition). Requests:

* `["adms", G]` → `["ok", [[d, G'], …]]` | `["err","query"]`       (pure model, extracted configuration)
* `["adms_store", [[gid, G], …], arm, [[d, gid], …]]` → `["ok", [[d, gid], …], [[gid, G], …]]` | `["err","query"]`
* `["rekey", G, x]` → `["ok", raised, G']`
* `["rekeys", G, [x1, x2, …]]` → `["ok", [[raised, G1], [raised, G2], …]]`  (re-keyed in sequence; stops changing after a raise)
* `["rekeys_store", [[gid, G], …], [[gid, [x1, x2, …]], …]]` → `["ok", [[gid, [raised, …]], …], [[gid, G], …]]`  (chains of `rekeyS`, graph after graph)
* `["keep", G, d]` → `["ok", [ids]]`

`G = {"nodes": [[id, cls, [[k, v], …], ldel, cdel], …], "edges": [[a, b, rel, [[k, v], …]], …]}`,
a delegation property is `null` (absent) | `false` ('None') | `[[delegation id, entry text], …]`.
The harness canonicalises order on both sides. -/
open Lean FimVerif.Proto FimVerif.Arm

def getPairs (j : Json) : Option (List (String × String)) :=
  match j with
  | .arr xs => xs.toList.mapM fun x =>
      match x with
      | .arr #[.str k, .str v] => some (k, v)
      | _ => none
  | _ => none

def getDel (j : Json) : Option DelProp :=
  match j with
  | .null => some .absent
  | .bool false => some .blank
  | j => (getPairs j).map .dels

def getNode (j : Json) : Option Node :=
  match j with
  | .arr #[.str id, .str cls, ps, l, c] => do
      let ps ← getPairs ps
      let l ← getDel l
      let c ← getDel c
      some ⟨id, cls, ps, l, c⟩
  | _ => none

def getEdge (j : Json) : Option Edge :=
  match j with
  | .arr #[.str a, .str b, .str rel, ps] => do
      let ps ← getPairs ps
      some ⟨a, b, rel, ps⟩
  | _ => none

def getG (j : Json) : Option G := do
  let ns ← (j.getObjVal? "nodes").toOption
  let es ← (j.getObjVal? "edges").toOption
  match ns, es with
  | .arr ns, .arr es => do
      let ns ← ns.toList.mapM getNode
      let es ← es.toList.mapM getEdge
      some ⟨ns, es⟩
  | _, _ => none

def ofPairs (ps : List (String × String)) : Json :=
  Json.arr (ps.map fun p => Json.arr #[.str p.1, .str p.2]).toArray

def ofDel : DelProp → Json
  | .absent => .null
  | .blank => .bool false
  | .dels es => ofPairs es

def ofG (g : G) : Json :=
  Json.mkObj [
    ("nodes", Json.arr (g.nodes.map fun n => Json.arr #[.str n.id, .str n.cls, ofPairs n.props, ofDel n.ldel, ofDel n.cdel]).toArray),
    ("edges", Json.arr (g.edges.map fun e => Json.arr #[.str e.a, .str e.b, .str e.rel, ofPairs e.props]).toArray)]

def getStore (j : Json) : Option Store :=
  match j with
  | .arr xs => xs.toList.mapM fun x =>
      match x with
      | .arr #[.str k, g] => (getG g).map fun g => (k, g)
      | _ => none
  | _ => none

def handle (j : Json) : Json :=
  match j with
  | .arr #[.str "adms", g] =>
    match getG g with
    | some g =>
      match generateAdms genCfg g with
      | some r => ok (Json.arr (r.map fun p => Json.arr #[.str p.1, ofG p.2]).toArray)
      | none => err "query"
    | none => err "bad-args"
  | .arr #[.str "keep", g, .str d] =>
    match getG g with
    | some g => ok (ofStrs (keepSet genCfg g d))
    | none => err "bad-args"
  | .arr #[.str "rekey", g, .str x] =>
    match getG g with
    | some g => let r := rekey g x; Json.arr #[.str "ok", .bool r.1, ofG r.2]
    | none => err "bad-args"
  | .arr #[.str "rekeys", g, xs] =>
    match getG g, getStrs xs with
    | some g, some xs =>
      let step := fun (acc : List (Bool × G) × G) x => let r := rekey acc.2 x; (acc.1 ++ [r], r.2)
      let out := (xs.foldl step ([], g)).1
      ok (Json.arr (out.map fun r => Json.arr #[.bool r.1, ofG r.2]).toArray)
    | _, _ => err "bad-args"
  | .arr #[.str "rekeys_store", s, chains] =>
    match getStore s, chains with
    | some s, .arr cs =>
      let parsed := cs.toList.mapM fun c =>
        match c with
        | .arr #[.str x, xs] => (getStrs xs).map fun xs => (x, xs)
        | _ => none
      match parsed with
      | some cs =>
        let run := cs.foldl (fun (acc : List (String × List Bool) × Store) (c : String × List String) =>
          let r := c.2.foldl (fun (a : List Bool × Store) new =>
            match rekeyS a.2 c.1 new with
            | some (raised, s') => (a.1 ++ [raised], s')
            | none => (a.1 ++ [true], a.2)) ([], acc.2)
          (acc.1 ++ [(c.1, r.1)], r.2)) ([], s)
        Json.arr #[.str "ok",
          Json.arr (run.1.map fun p => Json.arr #[.str p.1, Json.arr (p.2.map Json.bool).toArray]).toArray,
          Json.arr (run.2.map fun p => Json.arr #[.str p.1, ofG p.2]).toArray]
      | none => err "bad-args"
    | _, _ => err "bad-args"
  | .arr #[.str "adms_store", s, .str arm, m] =>
    match getStore s, getPairs m with
    | some s, some m =>
      let gid := fun d => (m.lookup d).getD ("?" ++ d)
      match generateAdmsS genCfg s arm gid with
      | some (r, s') =>
        Json.arr #[.str "ok", ofPairs r, Json.arr (s'.map fun p => Json.arr #[.str p.1, ofG p.2]).toArray]
      | none => err "query"
    | _, _ => err "bad-args"
  | _ => err "bad-request"

def main : IO Unit := run handle
