import Lean.Data.Json
/-! Line protocol shared by all drivers: one JSON request per line, one JSON reply per line. -/
namespace FimVerif.Proto
open Lean

def ok (v : Json) : Json := Json.arr #[Json.str "ok", v]
def err (k : String) : Json := Json.arr #[Json.str "err", Json.str k]

partial def loopState {σ : Type} (h : IO.FS.Stream) (out : IO.FS.Stream) (st : σ)
    (step : σ → Json → σ × Json) : IO Unit := do
  let line ← h.getLine
  if line.isEmpty then return ()
  let (st', reply) :=
    match Json.parse line with
    | .ok j => step st j
    | .error e => (st, err ("bad-json:" ++ e))
  out.putStrLn reply.compress
  loopState h out st' step

def run (handle : Json → Json) : IO Unit := do
  loopState (← IO.getStdin) (← IO.getStdout) () (fun _ j => ((), handle j))

def runState {σ : Type} (init : σ) (step : σ → Json → σ × Json) : IO Unit := do
  loopState (← IO.getStdin) (← IO.getStdout) init step

def getInts (j : Json) : Option (List Int) :=
  match j with
  | .arr xs => xs.toList.mapM fun x => x.getInt?.toOption
  | _ => none

def getStrs (j : Json) : Option (List String) :=
  match j with
  | .arr xs => xs.toList.mapM fun x => x.getStr?.toOption
  | _ => none

def ofInts (l : List Int) : Json := Json.arr (l.map (fun (i : Int) => Json.num (JsonNumber.fromInt i))).toArray
def ofStrs (l : List String) : Json := Json.arr (l.map Json.str).toArray

end FimVerif.Proto
