import FimVerif.Drivers.Proto
import FimVerif.Model.GraphML
import FimVerif.Model.Serial
/-! Line-protocol driver for C01: executes `FimVerif.GraphML` on a store loaded from the harness.

Wire forms: `Val` = `["s",str] | ["i",int] | ["b",bool] | ["f",repr] | ["o",desc]`; attrs = `[[k,Val]…]`;
GraphML doc = `{"fmt":"graphml","keys":[[id,name,scope,type]…],"nodes":[[id,labels|null,[[key,text]…]]…],
"edges":[[src,tgt,label|null,[[key,text]…]]…]}` (text rendered / parsed here: `str(v)`, `int(text)` … are CPython);
JSON doc = `{"fmt":"json","directed":b,"multigraph":b,"nodes":[[[k,JV]…]…],"edges":[…]}`, `JV` = Val | `["k",id]`. -/
open Lean FimVerif.Proto FimVerif.GraphML FimVerif.Serial FimVerif.SerialSpec

namespace FimVerif.C01Driver

def valToJson : Val → Json
  | .str s => Json.arr #[Json.str "s", Json.str s]
  | .int i => Json.arr #[Json.str "i", Json.num (JsonNumber.fromInt i)]
  | .bool b => Json.arr #[Json.str "b", Json.bool b]
  | .float r => Json.arr #[Json.str "f", Json.str r]
  | .other d => Json.arr #[Json.str "o", Json.str d]

def valOfJson (j : Json) : Option Val :=
  match j with
  | .arr #[.str "s", .str s] => some (.str s)
  | .arr #[.str "i", x] => (x.getInt?.toOption).map .int
  | .arr #[.str "b", .bool b] => some (.bool b)
  | .arr #[.str "f", .str r] => some (.float r)
  | .arr #[.str "o", .str d] => some (.other d)
  | _ => none

def attrsToJson (a : Attrs) : Json := Json.arr (a.map fun p => Json.arr #[Json.str p.1, valToJson p.2]).toArray

def attrsOfJson (j : Json) : Option Attrs :=
  match j with
  | .arr xs => xs.toList.mapM fun x =>
      match x with
      | .arr #[.str k, v] => (valOfJson v).map fun v' => (k, v')
      | _ => none
  | _ => none

def optStr : Option String → Json
  | some s => Json.str s
  | none => Json.null

def ktyName : KTy → String
  | .string => "string" | .long => "long" | .boolean => "boolean" | .double => "double" | .unknown s => s

def ktyOf (s : String) : KTy :=
  if s == "string" || s == "yfiles" then .string
  else if s == "long" || s == "int" || s == "integer" then .long
  else if s == "boolean" then .boolean
  else if s == "double" || s == "float" then .double
  else .unknown s

def scopeName : Scope → String
  | .node => "node" | .edge => "edge"

def dataToJson (ds : List GData) : Json :=
  Json.arr (ds.map fun d => Json.arr #[Json.num (JsonNumber.fromNat d.key), Json.str d.val.pyStr]).toArray

def gdocToJson (d : GDoc Nat) : Json :=
  Json.mkObj [
    ("fmt", Json.str "graphml"),
    ("keys", Json.arr (d.keys.map fun k => Json.arr #[Json.num (JsonNumber.fromNat k.id), Json.str k.spec.name,
        Json.str (scopeName k.spec.scope), Json.str (ktyName k.spec.ty)]).toArray),
    ("nodes", Json.arr (d.nodes.map fun n => Json.arr #[Json.str (toString n.id), optStr n.labels, dataToJson n.data]).toArray),
    ("edges", Json.arr (d.edges.map fun e => Json.arr #[Json.str (toString e.source), Json.str (toString e.target),
        optStr e.label, dataToJson e.data]).toArray)]

def jvToJson : JV Nat → Json
  | .v v => valToJson v
  | .k k => Json.arr #[Json.str "k", Json.str (toString k)]

def jobjToJson (o : JObj Nat) : Json := Json.arr (o.map fun p => Json.arr #[Json.str p.1, jvToJson p.2]).toArray

def jdocToJson (d : JDoc Nat) : Json :=
  Json.mkObj [
    ("fmt", Json.str "json"), ("directed", Json.bool d.directed), ("multigraph", Json.bool d.multigraph),
    ("nodes", Json.arr (d.nodes.map jobjToJson).toArray),
    ("edges", Json.arr (d.edges.map jobjToJson).toArray)]

def docToJson : Doc Nat → Json
  | .graphml d => gdocToJson d
  | .json d => jdocToJson d

/-- `int(text)` for the canonical decimal form, `convert_bool`, `float` kept as text -/
def parseText (ty : Option KTy) (t : String) : Val :=
  if t == "" then .str ""
  else match ty with
    | some .long => match t.toInt? with
      | some i => .int i
      | none => .other ("bad:" ++ t)
    | some .boolean =>
      let l := t.toLower
      if l == "true" || l == "1" then .bool true
      else if l == "false" || l == "0" then .bool false
      else .other ("bad:" ++ t)
    | some .double => .float t
    | _ => .str t

def optOfJson (j : Json) : Option String :=
  match j with
  | .str s => some s
  | _ => none

def parseKeys (j : Json) : Option (List GKey) :=
  match j with
  | .arr xs => xs.toList.mapM fun x =>
      match x with
      | .arr #[i, .str name, .str sc, .str ty] =>
        (i.getNat?.toOption).map fun n =>
          (⟨n, ⟨name, ktyOf ty, if sc == "edge" then .edge else .node⟩⟩ : GKey)
      | _ => none
  | _ => none

def parseData (keys : List GKey) (j : Json) : Option (List GData) :=
  match j with
  | .arr xs => xs.toList.mapM fun x =>
      match x with
      | .arr #[i, .str t] =>
        (i.getNat?.toOption).map fun n => (⟨n, parseText ((lookupKey keys n).map (·.ty)) t⟩ : GData)
      | _ => none
  | _ => none

def parseGDoc (j : Json) : Option (GDoc String) := do
  let keys ← parseKeys (← (j.getObjVal? "keys").toOption)
  let ns ← match (j.getObjVal? "nodes").toOption with
    | some (.arr xs) => xs.toList.mapM fun x =>
        match x with
        | .arr #[.str id, lab, data] => (parseData keys data).map fun ds => (⟨id, optOfJson lab, ds⟩ : GNode String)
        | _ => none
    | _ => none
  let es ← match (j.getObjVal? "edges").toOption with
    | some (.arr xs) => xs.toList.mapM fun x =>
        match x with
        | .arr #[.str s, .str t, lab, data] =>
          (parseData keys data).map fun ds => (⟨s, t, optOfJson lab, ds⟩ : GEdge String)
        | _ => none
    | _ => none
  pure { keys := keys, nodes := ns, edges := es }

def parseJObj (j : Json) : Option (JObj String) :=
  match j with
  | .arr xs => xs.toList.mapM fun x =>
      match x with
      | .arr #[.str k, .arr #[.str "k", .str id]] => some (k, JV.k id)
      | .arr #[.str k, v] => (valOfJson v).map fun v' => (k, JV.v v')
      | _ => none
  | _ => none

def parseJDoc (j : Json) : Option (JDoc String) := do
  let dir ← ((j.getObjVal? "directed").toOption >>= fun x => x.getBool?.toOption)
  let mg ← ((j.getObjVal? "multigraph").toOption >>= fun x => x.getBool?.toOption)
  let ns ← match (j.getObjVal? "nodes").toOption with
    | some (.arr xs) => xs.toList.mapM parseJObj
    | _ => none
  let es ← match (j.getObjVal? "edges").toOption with
    | some (.arr xs) => xs.toList.mapM parseJObj
    | _ => none
  pure { directed := dir, multigraph := mg, nodes := ns, edges := es }

def parseDoc (j : Json) : Option (Doc String) :=
  match (j.getObjVal? "fmt").toOption with
  | some (.str "graphml") => (parseGDoc j).map .graphml
  | some (.str "json") => (parseJDoc j).map .json
  | _ => none

def parseLoad (n ns es : Json) : Option Store := do
  let next ← n.getNat?.toOption
  let nodes ← match ns with
    | .arr xs => xs.toList.mapM fun x =>
        match x with
        | .arr #[i, a] => do
          let iid ← i.getNat?.toOption
          let at' ← attrsOfJson a
          pure (⟨iid, at'⟩ : SNode)
        | _ => none
    | _ => none
  let edges ← match es with
    | .arr xs => xs.toList.mapM fun x =>
        match x with
        | .arr #[a, b, at'] => do
          let a' ← a.getNat?.toOption
          let b' ← b.getNat?.toOption
          let at'' ← attrsOfJson at'
          pure (⟨a', b', at''⟩ : Edge Nat)
        | _ => none
    | _ => none
  pure { nodes := nodes, edges := edges, nextId := next }

def edgesToJson (es : List (Edge Nat)) : Json :=
  Json.arr (es.map fun e => Json.arr #[Json.num (JsonNumber.fromNat e.a), Json.num (JsonNumber.fromNat e.b), attrsToJson e.attrs]).toArray

def dump (s : Store) : Json :=
  Json.mkObj [
    ("next", Json.num (JsonNumber.fromNat s.nextId)),
    ("nodes", Json.arr (s.nodes.map fun n => Json.arr #[Json.num (JsonNumber.fromNat n.iid), attrsToJson n.attrs]).toArray),
    ("edges", edgesToJson (iterFrom s.edges [] (s.nodes.map (·.iid))))]

def graphOfJson (ns es : Json) : Option (Graph Nat) := do
  let st ← parseLoad (Json.num 0) ns es
  pure { nodes := st.nodes.map fun n => (n.iid, n.attrs), edges := st.edges }

def parseDLoad (gs cs : Json) : Option DStore := do
  let graphs ← match gs with
    | .arr xs => xs.toList.mapM fun x =>
        match x with
        | .arr #[g, ns, es] => do
          let g' ← valOfJson g
          let G ← graphOfJson ns es
          pure (g', G)
        | _ => none
    | _ => none
  let counters ← match cs with
    | .arr xs => xs.toList.mapM fun x =>
        match x with
        | .arr #[g, n] => do
          let g' ← valOfJson g
          let n' ← n.getNat?.toOption
          pure (g', n')
        | _ => none
    | _ => none
  pure { graphs := graphs, counters := counters }

def ddump (s : DStore) : Json :=
  Json.mkObj [
    ("graphs", Json.arr (s.graphs.map fun p => Json.arr #[valToJson p.1,
        Json.arr (p.2.nodes.map fun n => Json.arr #[Json.num (JsonNumber.fromNat n.1), attrsToJson n.2]).toArray,
        edgesToJson p.2.edgesIter]).toArray),
    ("counters", Json.arr (s.counters.map fun p => Json.arr #[valToJson p.1, Json.num (JsonNumber.fromNat p.2)]).toArray)]

def dstep (s : DStore) (j : Json) : Option (DStore × Json) :=
  match j with
  | .arr #[.str "dload", gs, cs] =>
    match parseDLoad gs cs with
    | some s' => some (s', ok Json.null)
    | none => some (s, err "bad-args")
  | .arr #[.str "ddump"] => some (s, ok (ddump s))
  | .arr #[.str "dserialize", g, .str f] =>
    match valOfJson g with
    | none => some (s, err "bad-args")
    | some g' =>
      match dSerialize s g' (if f == "json" then .json else .graphml) with
      | (.ok d, s') => some (s', ok (docToJson d))
      | (.error e, s') => some (s', err e)
  | .arr #[.str "dimport", .str entry, d, g] =>
    match parseDoc d with
    | none => some (s, err "bad-args")
    | some d' =>
      let r :=
        if entry == "string" || entry == "file" then
          match valOfJson g with
          | some g' => some (dImportString s d' g')
          | none => none
        else if entry == "string_direct" || entry == "file_direct" then some (dImportDirect s d')
        else none
      match r with
      | none => some (s, err "bad-args")
      | some (.ok g', s') => some (s', ok (valToJson g'))
      | some (.error e, s') => some (s', err e)
  | _ => none

def step (s : Store) (j : Json) : Store × Json :=
  match j with
  | .arr #[.str "reset"] => (Store.empty, ok Json.null)
  | .arr #[.str "load", n, ns, es] =>
    match parseLoad n ns es with
    | some s' => (s', ok Json.null)
    | none => (s, err "bad-args")
  | .arr #[.str "dump"] => (s, ok (dump s))
  | .arr #[.str "inv"] => (s, ok (Json.bool s.invB))
  | .arr #[.str "serialize", g, .str f] =>
    match valOfJson g with
    | none => (s, err "bad-args")
    | some g' =>
      match serialize s g' (if f == "json" then .json else .graphml) with
      | .ok none => (s, ok Json.null)
      | .ok (some d) => (s, ok (docToJson d))
      | .error e => (s, err e)
  | .arr #[.str "validate", g, names, oks] =>
    -- `names` = null: the JSON property names the translator read from the repo
    match valOfJson g, (if names.isNull then some FimVerif.Gen.Serial.jsonPropertyNames else getStrs names), getStrs oks with
    | some g', some ns, some os =>
      match validate ns (fun t => os.contains t) s g' with
      | .ok _ => (s, ok Json.null)
      | .error e => (s, err e)
    | _, _, _ => (s, err "bad-args")
  | .arr #[.str "graph_id", d] =>
    match parseDoc d with
    | none => (s, err "bad-args")
    | some d' =>
      match getGraphId d' with
      | .ok g => (s, ok (valToJson g))
      | .error e => (s, err e)
  | .arr #[.str "import", .str entry, d, g] =>
    match parseDoc d with
    | none => (s, err "bad-args")
    | some d' =>
      let r :=
        if entry == "string" || entry == "file" then
          match valOfJson g with
          | some g' => some (importString s d' g')
          | none => none
        else if entry == "string_direct" || entry == "file_direct" then some (importDirect s d')
        else none
      match r with
      | none => (s, err "bad-args")
      | some (.ok g', s') => (s', ok (valToJson g'))
      | some (.error e, s') => (s', err e)
  | _ => (s, err "bad-request")

/-! Topology-level requests (both flavours; `flav` = "s" shared | "d" disjoint):
`["tload", flav, kind, held, shape, doc, newId]` → `[result, heldAfter]` (`kind` = "topology" | "advertized" picks the
generated load plan, `shape` = "file" | "string" | "string_new"), `["tctor", flav, kind, fresh, shape, doc]`,
`["tclone", flav, g, newId]`, `["tabcclone", flav, g, newId]`, `["tdelete", flav, g]`. -/

def specOf (kind : String) : Option (LoadSpec × Bool) :=
  if kind == "topology" then some (FimVerif.Gen.Serial.topologyLoad, FimVerif.Gen.Serial.topologyCtorLoads)
  else if kind == "advertized" then some (FimVerif.Gen.Serial.advertizedLoad, FimVerif.Gen.Serial.advertizedCtorLoads)
  else none

def shapeOf (s : String) : Option Shape :=
  if s == "file" then some .file else if s == "string" then some .string
  else if s == "string_new" then some .stringNewId else none

def resToJson : Except String Val → Json
  | .ok g => ok (valToJson g)
  | .error e => err e

def unitToJson : Except String Unit → Json
  | .ok _ => ok Json.null
  | .error e => err e

def gdocStrToJson (d : GDoc String) : Json :=
  Json.mkObj [
    ("fmt", Json.str "graphml"),
    ("keys", Json.arr (d.keys.map fun k => Json.arr #[Json.num (JsonNumber.fromNat k.id), Json.str k.spec.name,
        Json.str (scopeName k.spec.scope), Json.str (ktyName k.spec.ty)]).toArray),
    ("nodes", Json.arr (d.nodes.map fun n => Json.arr #[Json.str n.id, optStr n.labels, dataToJson n.data]).toArray),
    ("edges", Json.arr (d.edges.map fun e => Json.arr #[Json.str e.source, Json.str e.target,
        optStr e.label, dataToJson e.data]).toArray)]

def tstep (st : Store × DStore) (j : Json) : Option ((Store × DStore) × Json) :=
  match j with
  | .arr #[.str "enumerate", d, .bool toFile] =>
    match parseDoc d with
    | some (.graphml d') =>
      match enumerateDoc d' toFile with
      | .ok r => some (st, ok (gdocStrToJson r))
      | .error e => some (st, err e)
    | _ => some (st, err "bad-args")
  | .arr #[.str "tload", .str flav, .str kind, held, .str shape, d, newId] =>
    match specOf kind, valOfJson held, shapeOf shape, parseDoc d, valOfJson newId with
    | some (sp, _), some h, some sh, some d', some nid =>
      if flav == "d" then
        let (r, s', h') := load disjointOps sp st.2 h sh d' nid
        some ((st.1, s'), ok (Json.arr #[resToJson r, valToJson h']))
      else
        let (r, s', h') := load sharedOps sp st.1 h sh d' nid
        some ((s', st.2), ok (Json.arr #[resToJson r, valToJson h']))
    | _, _, _, _, _ => some (st, err "bad-args")
  | .arr #[.str "tctor", .str flav, .str kind, fresh, .str shape, d] =>
    match specOf kind, valOfJson fresh, shapeOf shape, parseDoc d with
    | some (sp, cl), some fr, some sh, some d' =>
      if flav == "d" then
        let (r, s') := construct disjointOps sp cl st.2 fr sh d'
        some ((st.1, s'), resToJson r)
      else
        let (r, s') := construct sharedOps sp cl st.1 fr sh d'
        some ((s', st.2), resToJson r)
    | _, _, _, _ => some (st, err "bad-args")
  | .arr #[.str "dvalidate", g, names, oks] =>
    match valOfJson g, (if names.isNull then some FimVerif.Gen.Serial.jsonPropertyNames else getStrs names), getStrs oks with
    | some g', some ns, some os =>
      match dValidate ns (fun t => os.contains t) st.2 g' with
      | (.ok _, s') => some ((st.1, s'), ok Json.null)
      | (.error e, s') => some ((st.1, s'), err e)
    | _, _, _ => some (st, err "bad-args")
  | .arr #[.str "tserializefile", g, .str f] =>
    match valOfJson g with
    | none => some (st, err "bad-args")
    | some g' =>
      match serializeToFile st.1 g' (if f == "json" then .json else .graphml) with
      | .ok d => some (st, ok (docToJson d))
      | .error e => some (st, err e)
  | .arr #[.str "tclone", .str flav, g, newId] =>
    match valOfJson g, valOfJson newId with
    | some g', some nid =>
      if flav == "d" then
        let (r, s') := dCloneGraph st.2 g' nid
        some ((st.1, s'), unitToJson r)
      else
        let (r, s') := cloneGraph st.1 g' nid
        some ((s', st.2), unitToJson r)
    | _, _ => some (st, err "bad-args")
  | .arr #[.str "tabcclone", .str flav, g, newId] =>
    match valOfJson g, valOfJson newId with
    | some g', some nid =>
      if flav == "d" then
        let (r, s') := dAbcCloneGraph st.2 g' nid
        some ((st.1, s'), resToJson r)
      else
        let (r, s') := abcCloneGraph st.1 g' nid
        some ((s', st.2), resToJson r)
    | _, _ => some (st, err "bad-args")
  | .arr #[.str "tdelete", .str flav, g] =>
    match valOfJson g with
    | some g' =>
      if flav == "d" then some ((st.1, dDelGraph st.2 g'), ok Json.null)
      else some ((st.1.delGraph g', st.2), ok Json.null)
    | none => some (st, err "bad-args")
  | _ => none

end FimVerif.C01Driver

def main : IO Unit := runState (FimVerif.GraphML.Store.empty, FimVerif.GraphML.DStore.empty)
  (fun st j =>
    match FimVerif.C01Driver.tstep st j with
    | some r => r
    | none =>
    match FimVerif.C01Driver.dstep st.2 j with
    | some (d', r) => ((st.1, d'), r)
    | none => let (s', r) := FimVerif.C01Driver.step st.1 j; ((s', st.2), r))
