import FimVerif.Drivers.StoreCodec
open Lean FimVerif.Proto FimVerif.Store FimVerif.StoreCodec

/-- requests: `["S", op…]` runs `Store.step` on the shared-store model, `["D", op…]` runs `DStore.step` on the
    one-graph-per-id model; `[_, "snap"]` returns the whole store; `[_, "reset"]` starts a new history. -/
def stepReq (st : Store × FimVerif.DStore.DStore) (j : Json) : (Store × FimVerif.DStore.DStore) × Json :=
  match j with
  | .arr #[.str "S", .str "snap"] => (st, ok (snapToJson st.1))
  | .arr #[.str "S", .str "reset"] => ((init, st.2), ok .null)
  | .arr #[.str "D", .str "snap"] => (st, ok (dsnapToJson st.2))
  | .arr #[.str "D", .str "reset"] => ((st.1, FimVerif.DStore.init), ok .null)
  | .arr #[.str w, req] =>
    match opOfJson req with
    | some op =>
      if !op.WF then (st, err "bad-args")
      else if w == "S" then let r := step op st.1; ((r.2, st.2), resToJson r.1)
      else if w == "D" then let r := FimVerif.DStore.step op st.2; ((st.1, r.2), resToJson r.1)
      else (st, err "bad-request")
    | none => (st, err "bad-request")
  | _ => (st, err "bad-request")

def main : IO Unit := runState (init, FimVerif.DStore.init) stepReq
