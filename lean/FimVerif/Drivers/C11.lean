import FimVerif.Drivers.Proto
import FimVerif.Model.Authz
open Lean FimVerif.Proto FimVerif.Authz FimVerif.Gen.Authz

/-! Requests: `["authz", slice]`, `["log", slice]`, `["authz-legacy", slice]`,
`["shared", slice]` / `["shared-legacy", slice]` (authorize, log, authorize again over the same sliver objects),
`["authz-asm", raw]`, `["log-asm", raw]` (raw services carry "os": owner sites and "lim": num_sites limited);
slice = {"nodes":[{name,t,site,caps,alloc,comps}], "svcs":[{name,t,site,bw,mp}], "facs":[..], "ifaces":[null|[]|[null]|[ln]]} -/

def optStr (j : Json) : Option String := j.getStr?.toOption
def strOrEmpty (j : Json) : String := (j.getStr?.toOption).getD ""

def getCaps (j : Json) : Option Caps :=
  match getInts j with
  | some [c, r, d] => some ⟨c, r, d⟩
  | _ => none

def field (j : Json) (k : String) : Json := (j.getObjVal? k).toOption.getD Json.null

def getNode (j : Json) : NodeS :=
  { name := strOrEmpty (field j "name"), ntype := strOrEmpty (field j "t"), site := strOrEmpty (field j "site"),
    caps := getCaps (field j "caps"), alloc := getCaps (field j "alloc"), comps := getStrs (field j "comps") }

def getSvc (j : Json) : SvcS :=
  { name := strOrEmpty (field j "name"), stype := strOrEmpty (field j "t"), site := strOrEmpty (field j "site"),
    bw := (field j "bw").getInt?.toOption, mport := optStr (field j "mp") }

def getIface (j : Json) : Iface :=
  match j with
  | .arr #[x] => some (optStr x)
  | _ => none

def arrOf (j : Json) : List Json :=
  match j with
  | .arr xs => xs.toList
  | _ => []

def getSlice (j : Json) : Slice :=
  { nodes := (arrOf (field j "nodes")).map getNode, svcs := (arrOf (field j "svcs")).map getSvc,
    facs := (arrOf (field j "facs")).map strOrEmpty, ifaces := (arrOf (field j "ifaces")).map getIface }

def ofVal : Val → Json
  | .s v => Json.str v
  | .i v => Json.num (JsonNumber.fromInt v)

def ofVals (l : List Val) : Json := Json.arr (l.map ofVal).toArray

def authzReply (a : Attrs) : Json :=
  match toPdp a with
  | none => err "key"
  | some p =>
    ok (Json.mkObj [
      ("attrs", Json.arr (a.map fun kv => Json.arr #[Json.str kv.1.id, ofVals kv.2]).toArray),
      ("pdp", Json.arr (p.map fun c => Json.arr #[Json.str c.1,
          Json.arr (c.2.map fun x => Json.arr #[Json.str x.id, Json.str x.dataType, ofVals x.value]).toArray]).toArray)])

def sortStrs (l : List String) : List String := (l.toArray.qsort (· < ·)).toList

def logReply (l : Log) : Json :=
  let num (n : Int) := Json.num (JsonNumber.fromInt n)
  ok (Json.mkObj [
    ("vm", num l.vm), ("cores", num l.cores), ("p4", num l.p4),
    ("nodes", Json.arr (l.nodes.map fun c => ofInts [c.core, c.ram, c.disk]).toArray),
    ("components", Json.arr (l.comps.map fun p => Json.arr #[Json.str p.1, num p.2]).toArray),
    ("services", Json.arr (l.svcs.map fun p => Json.arr #[Json.str p.1, num p.2]).toArray),
    ("facilities", ofStrs (sortStrs l.facs)), ("sites", ofStrs (sortStrs l.sites))])

def getRawSvc (j : Json) : RawSvc :=
  { svc := getSvc j, osites := (getStrs (field j "os")).getD [],
    limited := ((field j "lim").getBool?.toOption).getD false }

def getRawSlice (j : Json) : RawSlice :=
  { nodes := (arrOf (field j "nodes")).map getNode, svcs := (arrOf (field j "svcs")).map getRawSvc,
    facs := (arrOf (field j "facs")).map strOrEmpty, ifaces := (arrOf (field j "ifaces")).map getIface }

/-- `["vobj", {"stored":[caps|null,...], "ops":[["read",i] | ["new",caps] | ["poke",h,caps] | ["write",i,h] | ["unset",i]]}]`:
a caller's history over the value objects of a slice of VMs (node i = element i); reply: what each element presents
afterwards and the cpu / ram / disk lists of the request collected from the live slice (reads per the regenerated flag) -/
def getVOp (j : Json) : Option (VObj.Op Caps) :=
  match j with
  | .arr #[.str "read", i] => (i.getNat?.toOption).map .read
  | .arr #[.str "new", c] => (getCaps c).map .new
  | .arr #[.str "poke", h, c] => do some (.poke (← h.getNat?.toOption) (← getCaps c))
  | .arr #[.str "write", i, h] => do some (.write (← i.getNat?.toOption) (← h.getNat?.toOption))
  | .arr #[.str "unset", i] => (i.getNat?.toOption).map .unset
  | _ => none

def vobjReply (x : Json) : Json :=
  let stored := (arrOf (field x "stored")).map getCaps
  match (arrOf (field x "ops")).mapM getVOp with
  | none => err "bad-op"
  | some ops =>
    let st := VObj.run readsFresh (⟨stored, [], []⟩ : VObj.St Caps) ops
    let ns : List NodeS := (List.range stored.length).map fun i => ⟨s!"v{i}", vmType, "S", none, none, none⟩
    let sl := liveSlice readsFresh ⟨ns, [], [], []⟩ st ⟨[], [], []⟩
    let caps (c : Option Caps) : Json := match c with
      | some c => ofInts [c.core, c.ram, c.disk]
      | none => Json.null
    ok (Json.mkObj [
      ("presented", Json.arr ((List.range stored.length).map fun i => caps (VObj.presented readsFresh st i)).toArray),
      ("handles", Json.num (JsonNumber.fromNat st.heap.length)),
      ("cpu", ofVals (get (collect sl) .RESOURCE_CPU)), ("ram", ofVals (get (collect sl) .RESOURCE_RAM)),
      ("disk", ofVals (get (collect sl) .RESOURCE_DISK)), ("cores", Json.num (JsonNumber.fromInt (logCollect sl).cores))])

def handle (j : Json) : Json :=
  match j with
  | .arr #[.str "vobj", x] => vobjReply x
  | .arr #[.str op, x] =>
    let sl := getSlice x
    if op == "authz" then authzReply (collect sl)
    else if op == "authz-legacy" then authzReply (collectLegacy sl)
    else if op == "log" then logReply (logCollect sl)
    else if op == "authz-asm" then authzReply (collectAsm (getRawSlice x))
    else if op == "log-asm" then logReply (logCollectAsm (getRawSlice x))
    else if op == "shared" || op == "shared-legacy" then
      let r := if op == "shared" then sharedSession (svcStepObj []) sl.nodes sl.svcs
               else sharedSession (svcStepObjLegacy []) sl.nodes sl.svcs
      Json.arr #[authzReply r.1, logReply r.2.1, authzReply r.2.2]
    else err "bad-op"
  | _ => err "bad-request"

def main : IO Unit := run handle
