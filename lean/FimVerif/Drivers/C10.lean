import FimVerif.Drivers.Proto
import FimVerif.Model.Validate
import FimVerif.Proofs.Lemmas.C10Dec
/-! Driver for C10: runs `Validate.validate` / `Validate.connect` on request lines.

`["validate", overrides|null, exp, [[ty,[props],[hollow]?,[blank]?]..], [[ty, site|null, [props], owner|null, [iface..], [hollow props]?, [blank props]?]..]]`
  iface = `["d", name, kind]` | `["p", name, null | [[kind, owner|null]..]]`
  overrides = `{"svc": {ty: [min,num,sites,inst,[req],[forb],[iftypes]]}, "node": {ty: [[req],[forb]]}}`
  reply `[status, [site|null ..], specOK, specFull]`, status = "ok" | error kind; the two booleans are
  `decide (SpecOK cfg t)` and `decide (SpecFull cfg t)` (the declarative specifications of Proofs/Lemmas/C10.lean)
`["connect", viaCtor, ty, kind, ownerPresent, connected]` reply `[status]` -/
open Lean FimVerif.Proto FimVerif.Validate
open FimVerif.Gen.Constraints (SvcRow NodeRow)

def optStr (j : Json) : Option (Option String) :=
  if j.isNull then some none else (j.getStr?.toOption).map some

def arr? (j : Json) : Option (List Json) := (j.getArr?.toOption).map (·.toList)

def parseNIface (j : Json) : Option NIface := do
  let [k, o] ← arr? j | none
  pure ⟨← k.getStr?.toOption, ← optStr o⟩

def parseSIface (j : Json) : Option SIface := do
  let [tag, nm, x] ← arr? j | none
  let t ← tag.getStr?.toOption
  let n ← nm.getStr?.toOption
  if t == "d" then pure (.direct n (← x.getStr?.toOption))
  else if x.isNull then pure (.port n none)
  else pure (.port n (some (← (← arr? x).mapM parseNIface)))

def parseSvc (j : Json) : Option Svc := do
  match ← arr? j with
  | [ty, site, props, owner, ifs] =>
    pure { ty := ← ty.getStr?.toOption, site := ← optStr site, props := ← getStrs props,
           owner := ← optStr owner, ifs := ← (← arr? ifs).mapM parseSIface, hollow := [] }
  | [ty, site, props, owner, ifs, hollow] =>
    pure { ty := ← ty.getStr?.toOption, site := ← optStr site, props := ← getStrs props,
           owner := ← optStr owner, ifs := ← (← arr? ifs).mapM parseSIface, hollow := ← getStrs hollow }
  | [ty, site, props, owner, ifs, hollow, blank] =>
    pure { ty := ← ty.getStr?.toOption, site := ← optStr site, props := ← getStrs props,
           owner := ← optStr owner, ifs := ← (← arr? ifs).mapM parseSIface, hollow := ← getStrs hollow, blank := ← getStrs blank }
  | _ => none

def parseNode (j : Json) : Option Node := do
  match ← arr? j with
  | [ty, props] => pure { ty := ← ty.getStr?.toOption, props := ← getStrs props }
  | [ty, props, hollow, blank] =>
    pure { ty := ← ty.getStr?.toOption, props := ← getStrs props, hollow := ← getStrs hollow, blank := ← getStrs blank }
  | _ => none

def parseSvcRow (j : Json) : Option SvcRow := do
  let [a, b, c, d, r, f, t] ← arr? j | none
  pure { layer := "", minIfs := ← a.getNat?.toOption, numIfs := ← b.getNat?.toOption, numSites := ← c.getNat?.toOption,
         numInst := ← d.getNat?.toOption, req := ← getStrs r, forb := ← getStrs f, ifTypes := ← getStrs t }

def parseNodeRow (j : Json) : Option NodeRow := do
  let [r, f] ← arr? j | none
  pure { req := ← getStrs r, forb := ← getStrs f }

def override {α : Type} (tbl : List (String × α)) (k : String) (v : α) : List (String × α) :=
  if tbl.any (·.1 == k) then tbl.map (fun p => if p.1 == k then (k, v) else p) else tbl ++ [(k, v)]

def removeKey {α : Type} (tbl : List (String × α)) (k : String) : List (String × α) := tbl.filter (·.1 != k)

def applyOverrides (c : Cfg) (j : Json) : Option Cfg := do
  if j.isNull then return c
  let mut c := c
  match j.getObjVal? "svc" with
  | .ok (.obj kvs) =>
    for (k, v) in kvs.toList do
      if v.isNull then c := { c with svc := removeKey c.svc k }
      else c := { c with svc := override c.svc k (← parseSvcRow v) }
  | _ => pure ()
  match j.getObjVal? "node" with
  | .ok (.obj kvs) =>
    for (k, v) in kvs.toList do
      if v.isNull then c := { c with node := removeKey c.node k }
      else c := { c with node := override c.node k (← parseNodeRow v) }
  | _ => pure ()
  pure c

def siteJson : Option String → Json
  | some s => Json.str s
  | none => Json.null

def status : Res → String
  | .ok _ => "ok"
  | .error e => e.name

def handle (j : Json) : Json :=
  match j with
  | .arr #[.str "validate", ov, .bool exp, nodes, svcs] =>
    match applyOverrides genCfg ov, (arr? nodes).bind (·.mapM parseNode), (arr? svcs).bind (·.mapM parseSvc) with
    | some c, some ns, some ss =>
      let t : Topo := { exp := exp, nodes := ns, svcs := ss }
      let r := validate c t
      Json.arr #[Json.str (status r.1), Json.arr (r.2.svcs.map (fun s => siteJson s.site)).toArray,
                 Json.bool (decide (SpecOK c t)), Json.bool (decide (SpecFull c t))]
    | _, _, _ => err "bad-args"
  | .arr #[.str "connect", .bool via, .str ty, .str kind, .bool own, .bool conn] =>
    Json.arr #[Json.str (status (connect genCfg via ty kind own conn))]
  | _ => err "bad-request"

def main : IO Unit := run handle
