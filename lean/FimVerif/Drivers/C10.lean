import FimVerif.Drivers.Proto
import FimVerif.Model.Validate
import FimVerif.Model.ValidateHist
import FimVerif.Proofs.Lemmas.C10Dec
/-! Driver for C10: runs `Validate.validate` / `Validate.connect` on request lines.

`["validate", overrides|null, exp, [[ty,[props],[hollow]?,[blank]?]..], [[ty, site|null, [props], owner|null, [iface..], [hollow props]?, [blank props]?]..]]`
  iface = `["d", name, kind]` | `["p", name, null | [[kind, owner|null]..]]`
  overrides = `{"svc": {ty: [min,num,sites,inst,[req],[forb],[iftypes]]}, "node": {ty: [[req],[forb]]}}`
  reply `[status, [site|null ..], specOK, specFull]`, status = "ok" | error kind; the two booleans are
  `decide (SpecOK cfg t)` and `decide (SpecFull cfg t)` (the declarative specifications of Proofs/Lemmas/C10.lean)
`["connect", viaCtor, ty, kind, ownerPresent, connected]` reply `[status]`
`["history", overrides|null, exp, nodes, ifaces, owned, svcs, ops]` (Model/ValidateHist.lean)
  nodes `[[id,label,ty,site,[props],[hollow],[blank],[component ids]]..]`, ifaces `[[id,label,kind,node,comp|null]..]`,
  owned `[[label,ty,node,comp|null,[iface ids]]..]`, svcs `[[label,ty,site|null,[props],[hollow],[blank]]..]`,
  ops `["connect",svc,iface] | ["disconnect",iface] | ["removeNode",n] | ["removeComp",n,k] | ["renameNode",n,label] |
  ["renameIface",i,label] | ["setSite",n,site] | ["peer",a,b] | ["unpeer",a,b] | ["disconnectPort",a,b] | ["validate"]`
  reply `[[status of every call], [[ty,[props],[hollow],[blank]]..], [[label, svc as in a validate request]..], specFull]`:
  the slice as it is after the history (`Hist.abs`) and `decide (SpecFull cfg (abs σ))` -/
open Lean FimVerif.Proto FimVerif.Validate FimVerif.Validate.Hist
open FimVerif.Gen.Constraints (SvcRow NodeRow)

def optStr (j : Json) : Option (Option String) :=
  if j.isNull then some none else (j.getStr?.toOption).map some

def arr? (j : Json) : Option (List Json) := (j.getArr?.toOption).map (·.toList)

def parseNIface (j : Json) : Option NIface := do
  let [k, o] ← arr? j | none
  pure ⟨← k.getStr?.toOption, ← optStr o⟩

def parseSIface (j : Json) : Option SIface := do
  let [tag, nm, x] ← arr? j | none
  let t ← tag.getStr?.toOption
  let n ← nm.getStr?.toOption
  if t == "d" then pure (.direct n (← x.getStr?.toOption))
  else if x.isNull then pure (.port n none)
  else pure (.port n (some (← (← arr? x).mapM parseNIface)))

def parseSvc (j : Json) : Option Svc := do
  match ← arr? j with
  | [ty, site, props, owner, ifs] =>
    pure { ty := ← ty.getStr?.toOption, site := ← optStr site, props := ← getStrs props,
           owner := ← optStr owner, ifs := ← (← arr? ifs).mapM parseSIface, hollow := [] }
  | [ty, site, props, owner, ifs, hollow] =>
    pure { ty := ← ty.getStr?.toOption, site := ← optStr site, props := ← getStrs props,
           owner := ← optStr owner, ifs := ← (← arr? ifs).mapM parseSIface, hollow := ← getStrs hollow }
  | [ty, site, props, owner, ifs, hollow, blank] =>
    pure { ty := ← ty.getStr?.toOption, site := ← optStr site, props := ← getStrs props,
           owner := ← optStr owner, ifs := ← (← arr? ifs).mapM parseSIface, hollow := ← getStrs hollow, blank := ← getStrs blank }
  | _ => none

def parseNode (j : Json) : Option Node := do
  match ← arr? j with
  | [ty, props] => pure { ty := ← ty.getStr?.toOption, props := ← getStrs props }
  | [ty, props, hollow, blank] =>
    pure { ty := ← ty.getStr?.toOption, props := ← getStrs props, hollow := ← getStrs hollow, blank := ← getStrs blank }
  | _ => none

def parseSvcRow (j : Json) : Option SvcRow := do
  let [a, b, c, d, r, f, t] ← arr? j | none
  pure { layer := "", minIfs := ← a.getNat?.toOption, numIfs := ← b.getNat?.toOption, numSites := ← c.getNat?.toOption,
         numInst := ← d.getNat?.toOption, req := ← getStrs r, forb := ← getStrs f, ifTypes := ← getStrs t }

def parseNodeRow (j : Json) : Option NodeRow := do
  let [r, f] ← arr? j | none
  pure { req := ← getStrs r, forb := ← getStrs f }

def override {α : Type} (tbl : List (String × α)) (k : String) (v : α) : List (String × α) :=
  if tbl.any (·.1 == k) then tbl.map (fun p => if p.1 == k then (k, v) else p) else tbl ++ [(k, v)]

def removeKey {α : Type} (tbl : List (String × α)) (k : String) : List (String × α) := tbl.filter (·.1 != k)

def applyOverrides (c : Cfg) (j : Json) : Option Cfg := do
  if j.isNull then return c
  let mut c := c
  match j.getObjVal? "svc" with
  | .ok (.obj kvs) =>
    for (k, v) in kvs.toList do
      if v.isNull then c := { c with svc := removeKey c.svc k }
      else c := { c with svc := override c.svc k (← parseSvcRow v) }
  | _ => pure ()
  match j.getObjVal? "node" with
  | .ok (.obj kvs) =>
    for (k, v) in kvs.toList do
      if v.isNull then c := { c with node := removeKey c.node k }
      else c := { c with node := override c.node k (← parseNodeRow v) }
  | _ => pure ()
  pure c

def siteJson : Option String → Json
  | some s => Json.str s
  | none => Json.null

def status : Res → String
  | .ok _ => "ok"
  | .error e => e.name

def nat? (j : Json) : Option Nat := j.getNat?.toOption
def str? (j : Json) : Option String := j.getStr?.toOption
def optNat (j : Json) : Option (Option Nat) := if j.isNull then some none else (nat? j).map some
def getNats (j : Json) : Option (List Nat) := (arr? j).bind (·.mapM nat?)

def parseHNode (j : Json) : Option HNode := do
  let [id, l, ty, site, p, h, b, cs] ← arr? j | none
  pure { id := ← nat? id, label := ← str? l, ty := ← str? ty, site := ← str? site, props := ← getStrs p,
         hollow := ← getStrs h, blank := ← getStrs b, comps := ← getNats cs }

def parseHIface (j : Json) : Option HIface := do
  let [id, l, k, n, c] ← arr? j | none
  pure { id := ← nat? id, label := ← str? l, kind := ← str? k, node := ← nat? n, comp := ← optNat c }

def parseHOwned (j : Json) : Option HOwned := do
  let [l, ty, n, c, ifs] ← arr? j | none
  pure { label := ← str? l, ty := ← str? ty, site := none, node := ← nat? n, comp := ← optNat c, ifs := ← getNats ifs }

def parseHSvc (j : Json) : Option HSvc := do
  let [l, ty, site, p, h, b] ← arr? j | none
  pure { label := ← str? l, ty := ← str? ty, site := ← optStr site, props := ← getStrs p, hollow := ← getStrs h,
         blank := ← getStrs b, ports := [] }

def parseOp (j : Json) : Option Op := do
  match ← arr? j with
  | [.str "connect", s, i] => pure (.connect (← str? s) (← nat? i))
  | [.str "disconnect", i] => pure (.disconnect (← nat? i))
  | [.str "removeNode", n] => pure (.removeNode (← nat? n))
  | [.str "removeComp", n, k] => pure (.removeComp (← nat? n) (← nat? k))
  | [.str "renameNode", n, l] => pure (.renameNode (← nat? n) (← str? l))
  | [.str "renameIface", i, l] => pure (.renameIface (← nat? i) (← str? l))
  | [.str "setSite", n, x] => pure (.setSite (← nat? n) (← str? x))
  | [.str "peer", a, b] => pure (.peer (← str? a) (← str? b))
  | [.str "unpeer", a, b] => pure (.unpeer (← str? a) (← str? b))
  | [.str "disconnectPort", a, b] => pure (.disconnectPort (← str? a) (← str? b))
  | [.str "validate"] => pure .validate
  | _ => none

def nifJson (i : NIface) : Json := Json.arr #[Json.str i.kind, siteJson i.owner]

def sifJson : SIface → Json
  | .direct n k => Json.arr #[Json.str "d", Json.str n, Json.str k]
  | .port n none => Json.arr #[Json.str "p", Json.str n, Json.null]
  | .port n (some ps) => Json.arr #[Json.str "p", Json.str n, Json.arr (ps.map nifJson).toArray]

def svcJson (s : Svc) : Json :=
  Json.arr #[Json.str s.ty, siteJson s.site, ofStrs s.props, siteJson s.owner, Json.arr (s.ifs.map sifJson).toArray,
             ofStrs s.hollow, ofStrs s.blank]

def nodeJson (n : Node) : Json := Json.arr #[Json.str n.ty, ofStrs n.props, ofStrs n.hollow, ofStrs n.blank]

def handle (j : Json) : Json :=
  match j with
  | .arr #[.str "history", ov, .bool exp, nodes, ifaces, owned, svcs, ops] =>
    match applyOverrides genCfg ov, (arr? nodes).bind (·.mapM parseHNode), (arr? ifaces).bind (·.mapM parseHIface),
          (arr? owned).bind (·.mapM parseHOwned), (arr? svcs).bind (·.mapM parseHSvc), (arr? ops).bind (·.mapM parseOp) with
    | some c, some ns, some is, some os, some ss, some ops =>
      let σ0 : Slice := { exp := exp, nodes := ns, ifaces := is, owned := os, svcs := ss, next := 0 }
      let r := Hist.run c σ0 ops
      let t := Hist.abs r.2
      let labels := r.2.owned.map (·.label) ++ r.2.svcs.map (·.label)
      Json.arr #[Json.arr (r.1.map (fun x => Json.str (status x))).toArray, Json.arr (t.nodes.map nodeJson).toArray,
                 Json.arr ((labels.zip t.svcs).map (fun p => Json.arr #[Json.str p.1, svcJson p.2])).toArray,
                 Json.bool (decide (SpecFull c t))]
    | _, _, _, _, _, _ => err "bad-args"
  | .arr #[.str "validate", ov, .bool exp, nodes, svcs] =>
    match applyOverrides genCfg ov, (arr? nodes).bind (·.mapM parseNode), (arr? svcs).bind (·.mapM parseSvc) with
    | some c, some ns, some ss =>
      let t : Topo := { exp := exp, nodes := ns, svcs := ss }
      let r := validate c t
      Json.arr #[Json.str (status r.1), Json.arr (r.2.svcs.map (fun s => siteJson s.site)).toArray,
                 Json.bool (decide (SpecOK c t)), Json.bool (decide (SpecFull c t))]
    | _, _, _ => err "bad-args"
  | .arr #[.str "connect", .bool via, .str ty, .str kind, .bool own, .bool conn] =>
    Json.arr #[Json.str (status (connect genCfg via ty kind own conn))]
  | _ => err "bad-request"

def main : IO Unit := run handle
