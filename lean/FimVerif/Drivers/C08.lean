import FimVerif.Drivers.Proto
import FimVerif.Model.Remove
import FimVerif.Model.RemoveNames
import FimVerif.Model.RemovePlan
import FimVerif.Proofs.Lemmas.C08Ports
import FimVerif.Proofs.Lemmas.C08Shared
import FimVerif.Proofs.Lemmas.C08Prune
import FimVerif.Proofs.Lemmas.C08Ops
import FimVerif.Proofs.Lemmas.C08Names
/-!
Driver for C08.  Request: `[op, nodes, edges, args, h1, h2, lists]` with
`nodes = [[id, cls, kind], …]` (cls 0..4 = NetworkNode, Component, NetworkService, ConnectionPoint, Link),
`edges = [[a, b, rel], …]` (rel 0 = has, 1 = connects), `args` a list of ids, `h1`/`h2` the cached interface
lists of the handles involved as `[id, name code]` pairs, `lists` four id lists (prune only).
The id-level calls run the *plan-interpreted* model (`Model/RemovePlan.lean` over `Generated/RemovalPlan.lean`).
The field `hyp` is the value of the separation hypothesis of the exactness theorem for that operation (null if none).
Reply: `["ok", {"deleted": sorted ids, "h1": sorted, "h2": sorted, "f1": sorted fresh, "f2": sorted fresh}]` or `["err", kind]`.
-/
open Lean FimVerif.Proto FimVerif.Remove

def clsOf : Nat → Cls
  | 0 => .node | 1 => .comp | 2 => .ns | 3 => .cp | _ => .link

def natsOf (j : Json) : List Nat :=
  match j with
  | .arr xs => xs.toList.filterMap (fun x => x.getNat?.toOption)
  | _ => []

def parseG (jn je : Json) : G :=
  let nodes := match jn with
    | .arr xs => xs.toList.filterMap (fun x => match natsOf x with
        | [i, c, k] => some { id := i, cls := clsOf c, kind := k, props := "" : Elem }
        | [i, c, k, _, _] => some { id := i, cls := clsOf c, kind := k, props := "" : Elem }
        | _ => none)
    | _ => []
  let edges := match je with
    | .arr xs => xs.toList.filterMap (fun x => match natsOf x with
        | [a, b, r] => some { a := a, b := b, rel := (if r == 0 then Rel.has else Rel.connects), props := "" : Edge }
        | _ => none)
    | _ => []
  { nodes := nodes, edges := edges }

/-- names and reservation marks: node entries `[id, cls, kind, name code, marked]` -/
def parseDir (jn : Json) : Dir :=
  let rows := match jn with
    | .arr xs => xs.toList.filterMap (fun x => match natsOf x with | [i, _, _, n, m] => some (i, n, m) | _ => none)
    | _ => []
  { names := rows.map (fun r => (r.1, r.2.1)), marked := (rows.filter (fun r => r.2.2 != 0)).map (·.1) }

def ifhOf (j : Json) : List IfH :=
  match j with
  | .arr xs => xs.toList.filterMap (fun x => match natsOf x with | [i, n] => some ⟨i, n⟩ | _ => none)
  | _ => []

def sortNat (l : List Nat) : List Nat := (l.toArray.qsort (· < ·)).toList

def ofNats (l : List Nat) : Json := Json.arr ((sortNat l).map (fun (n : Nat) => Json.num (JsonNumber.fromNat n))).toArray

/-- handle entries as sorted `[id, name]` pairs -/
def ofIfH (l : List IfH) : Json :=
  let a := (l.toArray.qsort (fun x y => x.id < y.id || (x.id == y.id && x.name < y.name))).toList
  Json.arr (a.map (fun x => Json.arr #[Json.num (JsonNumber.fromNat x.id), Json.num (JsonNumber.fromNat x.name)])).toArray

def errName : Err → String
  | .query => "query" | .topology => "topology" | .assertion => "assertion"

def reply (g : G) (r : Except Err (G × List IfH × List IfH)) (s1 s2 : Option Nat) (hyp : Option Bool := none) (hyp2 : Option Bool := none)
    (wf : Option Bool := none) : Json :=
  match r with
  | .error e => err (errName e)
  | .ok (g', h1, h2) =>
    let deleted := (g.nodes.filter (fun n => !g'.has n.id)).map (·.id)
    -- the frame: survivors and their edges are literally the old ones
    let frame := g'.nodes == g.nodes.filter (fun n => g'.has n.id) &&
                 g'.edges == g.edges.filter (fun e => g'.has e.a && g'.has e.b)
    let fresh (s : Option Nat) := match s with | some x => freshIfs g' x | none => []
    ok (Json.mkObj [("deleted", ofNats deleted), ("frame", Json.bool frame), ("h1", ofIfH h1), ("h2", ofIfH h2),
                    ("f1", ofNats (fresh s1)), ("f2", ofNats (fresh s2)),
                    ("hyp", match hyp with | some b => Json.bool b | none => Json.null),
                    ("hyp2", match hyp2 with | some b => Json.bool b | none => Json.null),
                    ("wf", match wf with | some b => Json.bool b | none => Json.null)])

def plain (r : Except Err G) : Except Err (G × List IfH × List IfH) := r.map (fun g => (g, [], []))

def handle (j : Json) : Json :=
  match j with
  | .arr #[.str op, jn, je, jargs, jh1, jh2, jl] =>
    let g := parseG jn je
    let args := natsOf jargs
    let h1 := ifhOf jh1
    let h2 := ifhOf jh2
    let lists := match jl with | .arr xs => xs.toList.map natsOf | _ => []
    match op, args with
    | "remove_node", [n] => reply g (plain (removeNodeApiP g n)) none none (some (SepNodeApi g n && InvCP g && InvPeer g)) none
        (some (WF g && g.cls? n == some .node && g.kind? n != some kFacility))
    | "remove_facility", [n] => reply g (plain (removeFacilityApiP g n)) none none (some (SepNodeApi g n && InvCP g && InvPeer g)) none
        (some (WF g && g.cls? n == some .node && g.kind? n == some kFacility))
    | "remove_switch", [n] => reply g (plain (removeSwitchApiP g n)) none none (some (SepNodeApi g n && InvCP g && InvPeer g)) none
        (some (WF g && g.cls? n == some .node && g.kind? n == some kSwitch))
    | "remove_component", [c] => reply g (plain (removeComponentApiP g c)) none none (some (SepCompApi g c && InvCP g && InvPeer g)) none
        (some (WF g && g.cls? c == some .comp))
    | "remove_ns", [s] => reply g (plain (removeNsApiP g s)) none none (some (SepNsApi g s && InvCP g && InvPeer g)) none
        (some (WF g && g.cls? s == some .ns))
    | "g_remove_ns", [s] => reply g (plain (removeNsP g s)) none none (some (SepNs g [] s && InvCP g))
        (some (SepFamSeq g [s] (g.nbrs s .connects .cp) && sameSet (seqDelA g [s] (g.nbrs s .connects .cp)) ((g.nodes.filter (fun n => !((removeNs g s).toOption.map (fun g2 => g2.has n.id)).getD true)).map (·.id))))
    | "remove_link", [l] => reply g (plain (removeLinkApiP g l)) none none (some (SepSeq g [l] (spEnds g l) && InvPeer g)) none
        (some (WF g && g.cls? l == some .link))
    | "g_remove_link", [l] => reply g (plain (removeLinkGP g l)) none none
    | "disconnect", [s, i] => reply g ((disconnect g h1 i).map (fun r => (r.1, r.2, []))) (some s) none none none
        (some (WF g && g.cls? i == some .cp && g.cls? s == some .ns && sameSet (hIds h1) (freshIfs g s)))
    | "unpeer", [a, b] => reply g (unpeer g h1 h2) (some a) (some b) none none
        (some (WF g && g.cls? a == some .ns && g.cls? b == some .ns && a != b && sameSet (hIds h1) (freshIfs g a) &&
               sameSet (hIds h2) (freshIfs g b)))
    | "remove_child", [p, c] => reply g ((removeChildP g h1 p c).map (fun r => (r.1, r.2, []))) (some p) none
        (some (InvPeer g && isSub g c && g.kind? c != some kDedicatedPort && SepDiscSeq g [] (deepIfs g [c]) && Sep g ((deepIfs g [c]).flatMap (discDel g)) c false))
        none (some (WF g && g.kind? p == some kDedicatedPort && g.cls? p == some .cp && !isSub g p && (g.nbrs p .connects .cp).contains c &&
                    sameSet (hIds h1) (freshIfs g p)))
    | "prune", [] =>
      match lists with
      | [ns, cs, ss, is] => reply g (plain (pruneP g ns cs ss is)) none none (some (HypPrune g ns cs ss is && InvCP g && InvPeer g)) none
          (some (WF g && decide ns.Nodup && ns.all (fun n => g.cls? n == some .node && g.kind? n != some kFacility) &&
                 cs.all (fun c => g.cls? c == some .comp) && ss.all (fun s => g.cls? s == some .ns) &&
                 is.all (fun i => g.cls? i == some .cp && !isSub g i)))
      | _ => err "bad-args"
    | "g_remove_cp", [x, dp] => reply g (plain (removeCpP g x (some (dp != 0)))) none none
    | "g_remove_comp", [x] => reply g (plain (removeCompP g x)) none none (some (SepComp g [] x && InvCP g))
    | "g_remove_node", [x] => reply g (plain (removeNodeGP g x)) none none (some (SepNode g [] x && InvCP g))
    | "n_remove_node", [nm] => reply g (plain (removeNodeByName g (parseDir jn) nm)) none none none none (some (NamesOK g (parseDir jn) && WF g))
    | "n_remove_facility", [nm] => reply g (plain (removeFacilityByName g (parseDir jn) nm)) none none none none (some (NamesOK g (parseDir jn) && WF g))
    | "n_remove_switch", [nm] => reply g (plain (removeSwitchByName g (parseDir jn) nm)) none none none none (some (NamesOK g (parseDir jn) && WF g))
    | "n_remove_link", [nm] => reply g (plain (removeLinkByName g (parseDir jn) nm)) none none none none (some (NamesOK g (parseDir jn) && WF g))
    | "n_remove_ns", [nm] => reply g (plain (removeNsByName g (parseDir jn) nm)) none none none none (some (NamesOK g (parseDir jn) && WF g))
    | "n_node_remove_component", [n, nm] => reply g (plain (nodeRemoveComponent g (parseDir jn) n nm)) none none none none (some (NamesOK g (parseDir jn) && WF g))
    | "n_node_remove_ns", [n, nm] => reply g (plain (nodeRemoveNs g (parseDir jn) n nm)) none none none none (some (NamesOK g (parseDir jn) && WF g))
    | "n_remove_child", [p, nm] => reply g ((removeChildByName g (parseDir jn) h1 p nm).map (fun r => (r.1, r.2, []))) (some p) none none none
        (some (NamesOK g (parseDir jn) && WF g))
    | "remove_interface", [s, i] => reply g ((removeInterfaceP g h1 i).map (fun r => (r.1, r.2, []))) (some s) none none none
        (some (WF g && g.cls? s == some .ns && (g.nbrs s .connects .cp).contains i && sameSet (hIds h1) (freshIfs g s)))
    | "n_remove_interface", [s, nm] => reply g ((removeInterfaceByName g (parseDir jn) h1 s nm).map (fun r => (r.1, r.2, []))) (some s) none
        none none (some (NamesOK g (parseDir jn) && WF g))
    | "n_prune", [] =>
      let d := parseDir jn
      let m := pruneCollect g d
      -- `collected`: what the collection phase gathered (sorted), for the comparison with the marked elements
      match reply g (plain (pruneApi g d)) none none none none (some (NamesOK g d && WF g)) with
      | .arr #[tag, .obj kvs] => .arr #[tag, .obj (kvs.insert "collected"
          (Json.arr #[ofNats m.nodes, ofNats (m.comps.map (·.1)), ofNats m.nss, ofNats m.ifs]))]
      | j => j
    | _, _ => err "bad-op"
  | _ => err "bad-request"

def main : IO Unit := run handle
