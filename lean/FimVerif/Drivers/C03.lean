import FimVerif.Drivers.Proto
import FimVerif.Model.Codec
import FimVerif.Model.CodecHist
import FimVerif.Model.CodecFail
import FimVerif.Model.IsoDate
import FimVerif.Generated.Fields
/-! Line-protocol driver for the C03 codec models.

Wire form of a `JVal`: `null`, `true/false`, integer number, `{"f": repr}` for a float, string,
array, `{"o": [[k, v], ...]}` for a dict (items in order).  -/
open Lean FimVerif FimVerif.Proto FimVerif.Codec FimVerif.Hist

partial def ofWire : Json → Option JVal
  | .null => some .null
  | .bool b => some (.bool b)
  | .num n => match (Json.num n).getInt? with
    | .ok i => some (.int i)
    | .error _ => none
  | .str s => some (.str s)
  | .arr xs => (xs.toList.mapM ofWire).map JVal.arr
  | .obj kvs =>
    match kvs.get? "f", kvs.get? "o" with
    | some (.str r), _ => some (.float r)
    | _, some (.arr items) =>
      (items.toList.mapM fun (it : Json) =>
        match it with
        | Json.arr #[Json.str k, v] => (ofWire v).map fun v' => (k, v')
        | _ => none).map JVal.obj
    | _, _ => none

partial def toWire : JVal → Json
  | .null => .null
  | .bool b => .bool b
  | .int i => .num (JsonNumber.fromInt i)
  | .float r => Json.mkObj [("f", .str r)]
  | .str s => .str s
  | .arr xs => .arr (xs.map toWire).toArray
  | .obj kvs => Json.mkObj [("o", .arr (kvs.map fun (k, v) => Json.arr #[.str k, toWire v]).toArray)]

def ofWireOpt : Json → Option (Option JVal)
  | .null => some none
  | .arr #[j] => (ofWire j).map some
  | _ => none

def pairsOfWire (j : Json) : Option (List (String × JVal)) :=
  match ofWire (Json.mkObj [("o", j)]) with
  | some (.obj kvs) => some kvs
  | _ => none

def pairsToWire (kvs : List (String × JVal)) : Json :=
  .arr (kvs.map fun (k, v) => Json.arr #[.str k, toWire v]).toArray

def valsOfWire (j : Json) : Option (List JVal) :=
  match j with
  | .arr xs => xs.toList.mapM ofWire
  | _ => none

def valsToWire (vs : List JVal) : Json := .arr (vs.map toWire).toArray

def specOf (n : String) : Option ClassSpec := Gen.Fields.all.find? (fun c => c.name == n)

/-- the harness only sends label values that pass the validators (C16 owns them) -/
def anyValid : String → JVal → Bool := fun _ _ => true

def exc {α} (r : Except Err α) (f : α → Json) : Json :=
  match r with
  | .ok a => ok (f a)
  | .error e => err e

def showFields (c : ClassSpec) (x : Fields) : Json :=
  Json.arr #[valsToWire (toList c x), .str (toJson c x),
    match toDict c x with
    | none => .null
    | some kvs => pairsToWire kvs]

def showOptFields (c : ClassSpec) : Option Fields → Json
  | none => .null
  | some x => showFields c x

def ptypeOfWire : Json → Option (Option PType)
  | .null => some none
  | .str "Path" => some (some .path)
  | .str "Graph" => some (some .graph)
  | _ => none

def piOfWire (j : Json) : Option PathInfo := do
  let t ← ptypeOfWire (j.getObjValD "type")
  let strict ← ofWire (j.getObjValD "strict")
  let pl ← match j.getObjValD "payload" with
    | .null => some Payload.unset
    | .obj kvs =>
      match kvs.get? "path", kvs.get? "raw" with
      | some (.arr #[a, z]), _ => do some (Payload.path (← ofWire a) (← ofWire z))
      | _, some r => (ofWire r).map Payload.raw
      | _, _ => none
    | _ => none
  some { type := t, payload := pl, strict := strict }

def payloadOfWire : Json → Option Payload
  | .null => some Payload.unset
  | .obj kvs =>
    match kvs.get? "path", kvs.get? "raw" with
    | some (.arr #[a, z]), _ => do some (Payload.path (← ofWire a) (← ofWire z))
    | _, some r => (ofWire r).map Payload.raw
    | _, _ => none
  | _ => none

def piToWire (p : PathInfo) : Json :=
  Json.mkObj [("type", match p.type with | none => .null | some t => .str t.str),
    ("strict", toWire p.strict),
    ("payload", match p.payload with
      | .unset => .null
      | .path a z => Json.mkObj [("path", .arr #[toWire a, toWire z])]
      | .raw j => Json.mkObj [("raw", toWire j)])]

def showPI (enc : PathInfo → Except Err JVal) : Option PathInfo → Json
  | none => .null
  | some p => Json.arr #[piToWire p, match enc p with
      | .ok j => ok (.str j.render)
      | .error e => err e]

def optS : Json → Option (Option String)
  | .null => some none
  | .str s => some (some s)
  | _ => none

def entryOfWire (j : Json) : Option MEntry := do
  match j with
  | .arr #[a, b, c] => some ⟨← optS a, ← optS b, ← optS c⟩
  | _ => none

def optSJ : Option String → Json
  | none => .null
  | some s => .str s

def entryToWire (e : MEntry) : Json := .arr #[optSJ e.state, optSJ e.deadline, optSJ e.expectedEnd]

def minfoToWire (m : MInfo) : Json :=
  Json.arr #[.arr (m.nodes.map fun (k, e) => Json.arr #[.str k, entryToWire e]).toArray, .bool m.lock]

/-- run a script of operations on one MaintenanceInfo object; one reply per operation -/
def miRun : List Json → MInfo → List Json → List Json
  | [], m, acc => (minfoToWire m :: acc).reverse
  | op :: rest, m, acc =>
    match op with
    | .arr #[.str "add", .str n, e] =>
      match entryOfWire e with
      | none => miRun rest m (err "bad-args" :: acc)
      | some e => match miStep m (.add n e) with          -- the state after a rejected step is the model's (`Model/CodecFail.lean`)
        | (m', none) => miRun rest m' (ok .null :: acc)
        | (m', some x) => miRun rest m' (err x :: acc)
    | .arr #[.str "rem", .str n] =>
      match miStep m (.rem n) with
      | (m', none) => miRun rest m' (ok .null :: acc)
      | (m', some x) => miRun rest m' (err x :: acc)
    | .arr #[.str "pop", .str n] =>
      match m.pop n with
      | .ok (e, m') => miRun rest m' (ok (entryToWire e) :: acc)
      | .error x => miRun rest m (err x :: acc)
    | .arr #[.str "finalize"] => miRun rest m.finalize (ok .null :: acc)
    | .arr #[.str "copy"] => miRun rest m.copy (ok .null :: acc)
    | .arr #[.str "enc"] => miRun rest m (exc (minfoEncode m) (fun j => .str j.render) :: acc)
    | _ => miRun rest m (err "bad-op" :: acc)

def isoOfTable (tbl : List (String × Option String)) (s : String) : Option String :=
  match tbl.find? (fun p => p.1 == s) with
  | some p => p.2
  | none => none

def isoTable (j : Json) : Option (List (String × Option String)) :=
  match j with
  | .arr xs => xs.toList.mapM fun it =>
      match it with
      | .arr #[.str s, t] => (optS t).map fun t' => (s, t')
      | _ => none
  | _ => none

def wsPred (c : Char) : Bool := Gen.Fields.whitespace.contains c.toNat

def typesOf (cat : String) : List (List Char) :=
  match Gen.Fields.tupleTypes.find? (fun p => p.1 == cat) with
  | some p => p.2.map String.toList
  | none => []

def showTT (r : Except Err TTuple) : Json :=
  exc r fun t => Json.arr #[.str (String.ofList t.type), toWire t.val, .str (String.ofList (ttEncode t))]

def showTTState (t : TTuple) : Json :=
  Json.arr #[.str (String.ofList t.type), toWire t.val, .str (String.ofList (ttEncode t))]

def maxOf (cls : String) : Nat :=
  match Gen.Fields.jsonDataMax.find? (fun p => p.1 == cls) with
  | some p => p.2
  | none => 0

/-! ### histories (aliasing): `["hist", kind, ..., steps]` -/

def stepOfWire : Json → Option Step
  | .arr #[.str "read", .str g, a] => (ofWire a).map (Step.read g)
  | .arr #[.str "edit", n] => (n.getNat?.toOption).map Step.edit
  | .arr #[.str "show", n] => (n.getNat?.toOption).map Step.show
  | _ => none

def stepsOfWire : Json → Option (List Step)
  | .arr xs => xs.toList.mapM stepOfWire
  | _ => none

/-- a reply per step: `[value]`, or `null` when the step did not apply -/
def repliesToWire (rs : List (Option JVal)) : Json :=
  .arr (rs.map fun r => match r with
    | some v => Json.arr #[toWire v]
    | none => Json.null).toArray

def histRun {σ : Type} (get : σ → String → JVal → Option JVal) (obj : σ) (owned : List JVal) (steps : Json) : Json :=
  match stepsOfWire steps with
  | some ss => ok (repliesToWire (Hist.run get ⟨obj, owned⟩ ss))
  | none => err "bad-args"

def refStepOfWire : Json → Option RefStep
  | .arr #[.str "growX", .str k, it] => (ofWire it).map (RefStep.growX k)
  | .arr #[.str "growY", .str k, it] => (ofWire it).map (RefStep.growY k)
  | .arr #[.str "update"] => some .takeUpdate
  | .arr #[.str "showX"] => some .showX
  | .arr #[.str "showY"] => some .showY
  | _ => none

def showInst (c : ClassSpec) (x : Fields) : Json := Json.arr #[valsToWire (toList c x), .str (toJson c x)]

/-- replies of a by-reference history: the instance shown by `showX` / `showY`, `null` for the other steps -/
def refReplies (c : ClassSpec) (copies : Bool) : RefWorld → List RefStep → List Json
  | _, [] => []
  | w, s :: rest =>
    let w' := refStep c copies w s
    (match s with
      | .showX => showInst c w'.x
      | .showY => match w'.y with
        | some y => showInst c y
        | none => Json.null
      | _ => Json.null) :: refReplies c copies w' rest

def handle (j : Json) : Json :=
  match j with
  | .arr #[.str "jf.dectext", .str cls, .str s] =>
    match specOf cls with
    | some c => exc (decodeText c anyValid Gen.Fields.neo4jNone s) (showOptFields c)
    | none => err "bad-args"
  | .arr #[.str "tags.dectext", .str s] =>
    exc (tagsDecodeText (fun _ => true) s) fun
      | none => .null
      | some ts => Json.arr #[ofStrs ts, .str (tagsEncode ts).render]
  | .arr #[.str "mi.dectext", .str s] =>
    exc (minfoDecodeText Iso.isoCanon s) fun
      | none => .null
      | some m => Json.arr #[minfoToWire m, exc (minfoEncode m) (fun j => .str j.render)]
  | .arr #[.str "gw.dectext", .str s] =>
    exc (gatewayDecodeText Gen.Fields.labels anyValid Gen.Fields.neo4jNone s) (showOptFields Gen.Fields.labels)
  | .arr #[.str "pi.dectext", .str s] => exc (pathInfoDecodeText s) (showPI pathInfoEncode)
  | .arr #[.str "ero.dectext", .str s] => exc (eroDecodeText s) (showPI eroEncode)
  | .arr #[.str "iso", .str s] =>
    match Iso.isoCanon s with
    | some t => ok (.str t)
    | none => err "value"
  | .arr #[.str "json.parse", .str s] =>
    match JParse.parse s with
    | some v => ok (toWire v)
    | none => err "value"
  | .arr #[.str "hist", .str "jd", .str cls, src, steps] =>
    match src with
    | .arr #[.str "text", .str s, .bool _] =>
      match jdFromText (fun t => (JParse.parse t).isSome) (maxOf cls) s with
      | .ok t => histRun jdGet t [.str s] steps
      | .error e => err e
    | .arr #[.str "obj", jv, _] =>       -- third element: the Python literal the implementation side builds the object from
      match ofWire jv with
      | some v => match jdNew (maxOf cls) v with
        | .ok t => histRun jdGet t [v] steps
        | .error e => err e
      | none => err "bad-args"
    | _ => err "bad-args"
  | .arr #[.str "hist", .str "tags", args, steps] =>
    match valsOfWire args with
    | some as => match tagsNew (fun _ => true) as with
      | .ok ts => histRun tagsGet ts as steps
      | .error e => err e
    | none => err "bad-args"
  | .arr #[.str "hist", .str "mi", .arr entries, steps] =>
    match entries.toList.mapM (fun (it : Json) => match it with
        | Json.arr #[Json.str n, e] => (entryOfWire e).map fun e' => (n, e')
        | _ => none) with
    | some es =>
      let m := es.foldl (fun (m : MInfo) p => match m.add p.1 p.2 with
        | .ok m' => m'
        | .error _ => m) MInfo.empty
      histRun miGet m.finalize (es.map fun p => entryVal p.2) steps
    | none => err "bad-args"
  | .arr #[.str "hist", .str "jf", .str cls, kw, .arr steps] =>
    match specOf cls, pairsOfWire kw, steps.toList.mapM refStepOfWire with
    | some c, some kvs, some ss =>
      match construct c anyValid kvs with
      | .ok x => ok (.arr (refReplies c Gen.Fields.updateCopiesLists { x := x } ss).toArray)
      | .error e => err e
    | _, _, _ => err "bad-args"
  | .arr #[.str "jf.new", .str cls, kw] =>
    match specOf cls, pairsOfWire kw with
    | some c, some kvs => exc (construct c anyValid kvs) (showFields c)
    | _, _ => err "bad-args"
  | .arr #[.str "jf.dec", .str cls, jv] =>
    match specOf cls, ofWireOpt jv with
    | some c, some v => exc (decode c anyValid v) (showOptFields c)
    | _, _ => err "bad-args"
  | .arr #[.str "jf.upd", .str cls, vals, kw] =>
    match specOf cls, valsOfWire vals, pairsOfWire kw with
    | some c, some vs, some kvs => exc (update c anyValid (ofList c vs) kvs) (showFields c)
    | _, _, _ => err "bad-args"
  | .arr #[.str "tags.new", args] =>
    match valsOfWire args with
    | some as => exc (tagsNew (fun _ => true) as) fun ts => Json.arr #[ofStrs ts, .str (tagsEncode ts).render]
    | none => err "bad-args"
  | .arr #[.str "tags.dec", jv] =>
    match ofWireOpt jv with
    | some v => exc (tagsDecode (fun _ => true) v) fun
      | none => .null
      | some ts => Json.arr #[ofStrs ts, .str (tagsEncode ts).render]
    | none => err "bad-args"
  | .arr #[.str "jd.text", .str cls, .str s, .bool _] =>       -- validity is the model's own `json.loads`
    exc (jdFromText (fun t => (JParse.parse t).isSome) (maxOf cls) s) .str
  | .arr #[.str "jd.obj", .str cls, jv] =>
    match ofWire jv with
    | some v => exc (jdNew (maxOf cls) v) .str
    | none => err "bad-args"
  | .arr #[.str "gw.new", lab] =>
    match lab with
    | .null => exc (gatewayNew Gen.Fields.labels anyValid none) (showOptFields Gen.Fields.labels)
    | _ => match valsOfWire lab with
      | some vs => exc (gatewayNew Gen.Fields.labels anyValid (some (ofList Gen.Fields.labels vs))) (showOptFields Gen.Fields.labels)
      | none => err "bad-args"
  | .arr #[.str "gw.dec", jv] =>
    match ofWireOpt jv with
    | some v => exc (gatewayDecode Gen.Fields.labels anyValid v) (showOptFields Gen.Fields.labels)
    | none => err "bad-args"
  | .arr #[.str "pi.enc", p] =>
    match piOfWire p with
    | some p => exc (pathInfoEncode p) fun j => .str j.render
    | none => err "bad-args"
  | .arr #[.str "ero.enc", p] =>
    match piOfWire p with
    | some p => exc (eroEncode p) fun j => .str j.render
    | none => err "bad-args"
  | .arr #[.str "pi.dec", jv] =>
    match ofWireOpt jv with
    | some v => exc (pathInfoDecode v) (showPI pathInfoEncode)
    | none => err "bad-args"
  | .arr #[.str "ero.dec", jv] =>
    match ofWireOpt jv with
    | some v => exc (eroDecode v) (showPI eroEncode)
    | none => err "bad-args"
  | .arr #[.str "mi.run", .arr ops] => ok (.arr (miRun ops.toList MInfo.empty []).toArray)
  | .arr #[.str "mi.dec", jv, tbl] =>
    match ofWireOpt jv, isoTable tbl with
    | some v, some t => exc (minfoDecode (fun s => (Iso.isoCanon s).orElse fun _ => isoOfTable t s) v) fun
      | none => .null
      | some m => Json.arr #[minfoToWire m, exc (minfoEncode m) (fun j => .str j.render)]
    | _, _ => err "bad-args"
  | .arr #[.str "tt.new", .str cat, .str t, v] =>
    match ofWire v with
    | some v => showTT (ttNew (typesOf cat) t.toList v)
    | none => err "bad-args"
  | .arr #[.str "tt.from", .str cat, .str s] => showTT (ttFromString (typesOf cat) wsPred s.toList)
  | .arr #[.str "tt.parse", .str cat, .str s] => showTT (ttParse (typesOf cat) s.toList)
  -- histories with rejected calls: every reply carries the state AFTER the step
  | .arr #[.str "tt.seq", .str cat, init, .arr steps] =>
    let t0 : Option (Except Err TTuple) := match init with
      | .arr #[.str "new", .str t, v] => (ofWire v).map fun v => ttNew (typesOf cat) t.toList v
      | .arr #[.str "from", .str s] => some (ttFromString (typesOf cat) wsPred s.toList)
      | _ => none
    match t0 with
    | none => err "bad-args"
    | some (.error e) => err e
    | some (.ok t) =>
      let (_, out) := steps.toList.foldl (fun (acc : TTuple × List Json) st =>
        match st with
        | .str s =>
          let r := ttStep (typesOf cat) acc.1 s.toList
          (r.1, Json.arr #[match r.2 with | none => .null | some e => .str e, showTTState r.1] :: acc.2)
        | _ => (acc.1, Json.str "bad-step" :: acc.2)) (t, [])
      ok (Json.arr #[showTTState t, .arr out.reverse.toArray])
  | .arr #[.str "jf.seq", .str cls, kw, .arr calls] =>
    match specOf cls, pairsOfWire kw with
    | some c, some kvs =>
      match construct c anyValid kvs with
      | .error e => err e
      | .ok x =>
        let (_, out) := calls.toList.foldl (fun (acc : Fields × List Json) call =>
          match call with
          | .arr #[.bool fg, kw] =>
            match pairsOfWire kw with
            | some kvs =>
              let r := setFieldsIP c anyValid fg kvs acc.1
              (r.1, Json.arr #[match r.2 with | none => .null | some e => .str e, showFields c r.1] :: acc.2)
            | none => (acc.1, Json.str "bad-step" :: acc.2)
          | _ => (acc.1, Json.str "bad-step" :: acc.2)) (x, [])
        ok (Json.arr #[showFields c x, .arr out.reverse.toArray])
    | _, _ => err "bad-args"
  | .arr #[.str "pi.seq", .bool ero, p, .arr pls] =>
    match piOfWire p with
    | none => err "bad-args"
    | some p =>
      let enc := if ero then eroEncode else pathInfoEncode
      let showP (q : PathInfo) : Json := Json.arr #[piToWire q, match enc q with | .ok j => ok (.str j.render) | .error e => err e]
      let (_, out) := pls.toList.foldl (fun (acc : PathInfo × List Json) pl =>
        match payloadOfWire pl with
        | some pl =>
          let r := piStep acc.1 pl
          (r.1, Json.arr #[match r.2 with | none => .null | some e => .str e, showP r.1] :: acc.2)
        | none => (acc.1, Json.str "bad-step" :: acc.2)) (p, [])
      ok (Json.arr #[showP p, .arr out.reverse.toArray])
  | _ => err "bad-request"

def main : IO Unit := run handle
