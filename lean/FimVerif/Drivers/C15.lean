import FimVerif.Drivers.Proto
import FimVerif.Model.Cap
open Lean FimVerif.Proto FimVerif.Cap

def parseStmt (j : Json) : Option Stmt :=
  match j with
  | .arr #[.str "bin", .bool isAdd, d, x, y] =>
    match d.getNat?.toOption, x.getNat?.toOption, y.getNat?.toOption with
    | some d, some x, some y => some (.bin isAdd d x y)
    | _, _, _ => none
  | .arr #[.str "aug", .bool isAdd, x, y] =>
    match x.getNat?.toOption, y.getNat?.toOption with
    | some x, some y => some (.aug isAdd x y)
    | _, _ => none
  | .arr #[.str "free", d, t, a] =>
    match d.getNat?.toOption, t.getNat?.toOption, a.getNat?.toOption with
    | some d, some t, some a => some (.free d t a)
    | _, _, _ => none
  | .arr #[.str "alias", d, x] =>
    match d.getNat?.toOption, x.getNat?.toOption with
    | some d, some x => some (.alias d x)
    | _, _ => none
  | _ => none

def handle (j : Json) : Json :=
  match j with
  | .arr #[.str "prog", .arr objs, .arr stmts] =>
    match objs.toList.mapM getInts, stmts.toList.mapM parseStmt with
    | some os, some ps =>
      let s0 : St := { heap := os.map ofList, env := List.range os.length }
      let s := FimVerif.Cap.run ps s0
      ok (Json.arr #[Json.arr (s.env.map (fun (n : Nat) => Json.num (JsonNumber.fromNat n))).toArray,
                     Json.arr (s.heap.map (fun c => ofInts (toList c))).toArray])
    | _, _ => err "bad-args"
  | .arr #[.str "eqd", x, mx, y, my] =>
    -- `a == b` and `b == a` between objects whose __dict__ may lack fields (presence flags 1/0 in field order)
    match getInts x, getInts mx, getInts y, getInts my with
    | some xs, some ms, some ys, some ns =>
      let a := PCap.ofLists xs (ms.map (· != 0)); let b := PCap.ofLists ys (ns.map (· != 0))
      ok (Json.arr #[Json.bool (eqD a b), Json.bool (eqD b a), Json.bool (eqD a a), Json.bool (eqD b b)])
    | _, _, _, _ => err "bad-args"
  | .arr #[.str op, x] =>
    match getInts x with
    | some xs =>
      let a := ofList xs
      if op == "neg" then ok (ofStrs (negativeFields a))
      else if op == "str" then ok (Json.str (toStr a))
      else err "bad-op"
    | none => err "bad-args"
  | .arr #[.str op, x, y] =>
    if op == "pos" then
      match getInts x, getStrs y with
      | some xs, some fs => ok (Json.bool (positiveFields (ofList xs) fs))
      | _, _ => err "bad-args"
    else
    match getInts x, getInts y with
    | some xs, some ys =>
      let a := ofList xs; let b := ofList ys
      if op == "add" then ok (ofInts (toList (add a b)))
      else if op == "sub" then ok (ofInts (toList (sub a b)))
      else if op == "free" then ok (ofInts (toList (free a b)))
      else if op == "iadd" then ok (Json.arr #[ofInts (toList (augAdd a b).1), ofInts (toList (augAdd a b).2)])
      else if op == "isub" then ok (Json.arr #[ofInts (toList (augSub a b).1), ofInts (toList (augSub a b).2)])
      else if op == "gt" then ok (Json.bool (gt a b))
      else if op == "lt" then ok (Json.bool (lt a b))
      else if op == "eq" then ok (Json.bool (eq a b))
      else err "bad-op"
    | _, _ => err "bad-args"
  | _ => err "bad-request"

def main : IO Unit := run handle
