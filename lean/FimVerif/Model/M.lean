/-!
# M-M: state-and-exception monad in which the state survives a raise

`M σ α := σ → Except Err α × σ`.  A Python call that mutates the model and then raises
returns `(.error e, s')` with the *mutated* `s'` — which is exactly what C09 is about.
`tryCatch` selects by error kind like `except TopologyException`.

No Mathlib.  The evaluation lemmas are `@[simp]`; the compositional predicates
`ReadOnly`, `Total`, `Atomic` with their bind rules are what the C09 proofs use.
-/
namespace FimVerif

/-- Error kinds on the wire (`core.err_kind`). -/
inductive Err where
  | topology | query | assertion | catalog | runtime | value | typ | attr | key
  | named (s : String)
  deriving DecidableEq, Repr, Inhabited

namespace Err
def toWire : Err → String
  | topology => "topology" | query => "query" | assertion => "assertion" | catalog => "catalog"
  | runtime => "runtime" | value => "value" | typ => "type" | attr => "attribute" | key => "key"
  | named s => s
def ofWire (s : String) : Err :=
  if s == "topology" then topology else if s == "query" then query else if s == "assertion" then assertion
  else if s == "catalog" then catalog else if s == "runtime" then runtime else if s == "value" then value
  else if s == "type" then typ else if s == "attribute" then attr else if s == "key" then key
  else named s
end Err

def M (σ α : Type) := σ → Except Err α × σ

namespace M
variable {σ α β : Type}

@[inline] def pure (a : α) : M σ α := fun s => (.ok a, s)
@[inline] def bind (m : M σ α) (f : α → M σ β) : M σ β := fun s =>
  match m s with
  | (.ok a, s') => f a s'
  | (.error e, s') => (.error e, s')

instance : Monad (M σ) where
  pure := M.pure
  bind := M.bind

def raise (e : Err) : M σ α := fun s => (.error e, s)
def get : M σ σ := fun s => (.ok s, s)
def set (s' : σ) : M σ Unit := fun _ => (.ok (), s')
def modify (f : σ → σ) : M σ Unit := fun s => (.ok (), f s)
/-- read a value off the state -/
def read (f : σ → α) : M σ α := fun s => (.ok (f s), s)
/-- lift a pure computation that may fail -/
def ofExcept (x : Except Err α) : M σ α := fun s => (x, s)
/-- `assert c` / `if not c: raise e` -/
def guard (c : Bool) (e : Err) : M σ Unit := fun s => if c then (.ok (), s) else (.error e, s)

/-- `try m except <kinds selected by p> as e: h e`.  The handler runs in the state left behind by `m`. -/
def tryCatch (m : M σ α) (p : Err → Bool) (h : Err → M σ α) : M σ α := fun s =>
  match m s with
  | (.error e, s') => if p e then h e s' else (.error e, s')
  | r => r

/-- run a body for every element, left to right, stopping at the first raise -/
def forEach : List β → (β → M σ Unit) → M σ Unit
  | [], _ => M.pure ()
  | x :: xs, f => M.bind (f x) (fun _ => forEach xs f)

/-- `[f x for x in l]`, left to right, stopping at the first raise -/
def mapM' {γ : Type} (f : β → M σ γ) : List β → M σ (List γ)
  | [] => M.pure []
  | x :: xs => M.bind (f x) (fun y => M.bind (mapM' f xs) (fun ys => M.pure (y :: ys)))

/-- `[y for x in l if (y := f x) is not None]` -/
def filterMapM' {γ : Type} (f : β → M σ (Option γ)) : List β → M σ (List γ)
  | [] => M.pure []
  | x :: xs => M.bind (f x) (fun y => M.bind (filterMapM' f xs) (fun ys => M.pure (match y with | some v => v :: ys | none => ys)))

/-- `failed r` : the call raised -/
def failed (r : Except Err α × σ) : Prop := ∃ e, r.1 = .error e

instance (r : Except Err α × σ) : Decidable (failed r) :=
  match h : r.1 with
  | .error e => isTrue ⟨e, h⟩
  | .ok _ => isFalse (by intro ⟨e, he⟩; rw [h] at he; cases he)

/-! ### evaluation lemmas -/
@[simp] theorem pure_apply (a : α) (s : σ) : (M.pure a : M σ α) s = (.ok a, s) := rfl
@[simp] theorem pure_apply' (a : α) (s : σ) : (Pure.pure a : M σ α) s = (.ok a, s) := rfl
@[simp] theorem raise_apply (e : Err) (s : σ) : (raise e : M σ α) s = (.error e, s) := rfl
@[simp] theorem get_apply (s : σ) : (get : M σ σ) s = (.ok s, s) := rfl
@[simp] theorem set_apply (s s' : σ) : (set s' : M σ Unit) s = (.ok (), s') := rfl
@[simp] theorem modify_apply (f : σ → σ) (s : σ) : (modify f : M σ Unit) s = (.ok (), f s) := rfl
@[simp] theorem read_apply (f : σ → α) (s : σ) : (read f : M σ α) s = (.ok (f s), s) := rfl
@[simp] theorem ofExcept_apply (x : Except Err α) (s : σ) : (ofExcept x : M σ α) s = (x, s) := rfl
@[simp] theorem guard_apply (c : Bool) (e : Err) (s : σ) :
    (guard c e : M σ Unit) s = if c then (.ok (), s) else (.error e, s) := rfl
theorem bind_apply (m : M σ α) (f : α → M σ β) (s : σ) :
    (M.bind m f) s = match m s with | (.ok a, s') => f a s' | (.error e, s') => (.error e, s') := rfl
@[simp] theorem bind_apply' (m : M σ α) (f : α → M σ β) (s : σ) :
    (m >>= f) s = match m s with | (.ok a, s') => f a s' | (.error e, s') => (.error e, s') := rfl
theorem bind_ok {m : M σ α} {f : α → M σ β} {s s' : σ} {a : α} (h : m s = (.ok a, s')) :
    (m >>= f) s = f a s' := by simp [h]
theorem bind_err {m : M σ α} {f : α → M σ β} {s s' : σ} {e : Err} (h : m s = (.error e, s')) :
    (m >>= f) s = (.error e, s') := by simp [h]
@[simp] theorem ite_apply (c : Prop) [Decidable c] (x y : M σ α) (s : σ) :
    (if c then x else y) s = if c then x s else y s := by split <;> rfl
@[simp] theorem failed_ok (a : α) (s : σ) : ¬ failed ((.ok a, s) : Except Err α × σ) := by
  intro ⟨e, h⟩; cases h
@[simp] theorem failed_error (e : Err) (s : σ) : failed ((.error e, s) : Except Err α × σ) := ⟨e, rfl⟩

/-- every result is ok or error (case split helper) -/
theorem cases_run (m : M σ α) (s : σ) :
    (∃ a s', m s = (.ok a, s')) ∨ (∃ e s', m s = (.error e, s')) := by
  rcases h : m s with ⟨r, s'⟩
  cases r with
  | ok a => exact .inl ⟨a, s', rfl⟩
  | error e => exact .inr ⟨e, s', rfl⟩

/-! ### compositional predicates (structures, so that tactics never unfold them by accident) -/

/-- never changes the state (queries, validation) -/
structure ReadOnly (m : M σ α) : Prop where
  h : ∀ s, (m s).2 = s
/-- never raises -/
structure Total (m : M σ α) : Prop where
  h : ∀ s, ¬ failed (m s)
/-- C09 for one call: a raise leaves the state as it was -/
structure Atomic (m : M σ α) : Prop where
  h : ∀ s, failed (m s) → (m s).2 = s

theorem ReadOnly.atomic {m : M σ α} (h : ReadOnly m) : Atomic m := ⟨fun s _ => h.h s⟩
theorem Total.atomic {m : M σ α} (h : Total m) : Atomic m := ⟨fun s hf => absurd hf (h.h s)⟩

theorem readOnly_pure (a : α) : ReadOnly (Pure.pure a : M σ α) := ⟨fun _ => rfl⟩
theorem readOnly_pure' (a : α) : ReadOnly (M.pure a : M σ α) := ⟨fun _ => rfl⟩
theorem readOnly_raise (e : Err) : ReadOnly (raise e : M σ α) := ⟨fun _ => rfl⟩
theorem readOnly_read (f : σ → α) : ReadOnly (read f) := ⟨fun _ => rfl⟩
theorem readOnly_get : ReadOnly (get : M σ σ) := ⟨fun _ => rfl⟩
theorem readOnly_ofExcept (x : Except Err α) : ReadOnly (ofExcept x : M σ α) := ⟨fun _ => rfl⟩
theorem readOnly_guard (c : Bool) (e : Err) : ReadOnly (guard c e : M σ Unit) := by
  constructor; intro s; simp only [guard]; split <;> rfl
theorem total_pure (a : α) : Total (Pure.pure a : M σ α) := ⟨fun s => by simp⟩
theorem total_modify (f : σ → σ) : Total (modify f) := ⟨fun s => by simp⟩
theorem total_set (s' : σ) : Total (set s') := ⟨fun s => by simp⟩
theorem total_read (f : σ → α) : Total (read f) := ⟨fun s => by simp⟩

theorem ReadOnly.bind {m : M σ α} {f : α → M σ β} (hm : ReadOnly m) (hf : ∀ a, ReadOnly (f a)) :
    ReadOnly (m >>= f) := by
  constructor; intro s
  have h1 := hm.h s
  rcases cases_run m s with ⟨a, s', h⟩ | ⟨e, s', h⟩
  · rw [bind_ok h]; rw [h] at h1; simp at h1; subst h1; exact (hf a).h _
  · rw [bind_err h]; rw [h] at h1; simpa using h1

theorem ReadOnly.bind' {m : M σ α} {f : α → M σ β} (hm : ReadOnly m) (hf : ∀ a, ReadOnly (f a)) :
    ReadOnly (M.bind m f) := ReadOnly.bind hm hf

theorem ReadOnly.ite {c : Prop} [Decidable c] {x y : M σ α} (hx : ReadOnly x) (hy : ReadOnly y) :
    ReadOnly (if c then x else y) := by split <;> assumption

/-- validate-before-mutate: a read-only prefix followed by an atomic tail is atomic -/
theorem Atomic.bind_readOnly {m : M σ α} {f : α → M σ β} (hm : ReadOnly m) (hf : ∀ a, Atomic (f a)) :
    Atomic (m >>= f) := by
  constructor; intro s hfail
  have h1 := hm.h s
  rcases cases_run m s with ⟨a, s', h⟩ | ⟨e, s', h⟩
  · rw [bind_ok h] at hfail ⊢; rw [h] at h1; simp at h1; subst h1; exact (hf a).h _ hfail
  · rw [bind_err h]; rw [h] at h1; simpa using h1

/-- an atomic call followed by calls that cannot raise is atomic -/
theorem Atomic.bind_total {m : M σ α} {f : α → M σ β} (hm : Atomic m) (hf : ∀ a, Total (f a)) :
    Atomic (m >>= f) := by
  constructor; intro s hfail
  rcases cases_run m s with ⟨a, s', h⟩ | ⟨e, s', h⟩
  · rw [bind_ok h] at hfail; exact absurd hfail ((hf a).h s')
  · rw [bind_err h]; have := hm.h s (by rw [h]; simp); rw [h] at this; simpa using this

theorem Atomic.ite {c : Prop} [Decidable c] {x y : M σ α} (hx : Atomic x) (hy : Atomic y) :
    Atomic (if c then x else y) := by split <;> assumption

theorem Total.bind {m : M σ α} {f : α → M σ β} (hm : Total m) (hf : ∀ a, Total (f a)) : Total (m >>= f) := by
  constructor; intro s
  rcases cases_run m s with ⟨a, s', h⟩ | ⟨e, s', h⟩
  · rw [bind_ok h]; exact (hf a).h s'
  · exact absurd (by rw [h]; simp) (hm.h s)

theorem readOnly_mapM' {γ : Type} {l : List β} {f : β → M σ γ} (hf : ∀ b, ReadOnly (f b)) : ReadOnly (mapM' f l) := by
  induction l with
  | nil => exact ⟨fun _ => rfl⟩
  | cons x xs ih =>
    exact ReadOnly.bind' (hf x) (fun _ => ReadOnly.bind' ih (fun _ => ⟨fun _ => rfl⟩))

theorem readOnly_filterMapM' {γ : Type} {l : List β} {f : β → M σ (Option γ)} (hf : ∀ b, ReadOnly (f b)) :
    ReadOnly (filterMapM' f l) := by
  induction l with
  | nil => exact ⟨fun _ => rfl⟩
  | cons x xs ih =>
    exact ReadOnly.bind' (hf x) (fun _ => ReadOnly.bind' ih (fun _ => ⟨fun _ => rfl⟩))

theorem readOnly_forEach {l : List β} {f : β → M σ Unit} (hf : ∀ b, ReadOnly (f b)) : ReadOnly (forEach l f) := by
  induction l with
  | nil => exact ⟨fun _ => rfl⟩
  | cons x xs ih => exact ReadOnly.bind' (hf x) (fun _ => ih)

/-- `try m except p: h` where every failure of `m` is selected and the handler, when it re-raises, has restored the start state -/
theorem Atomic.tryCatch_rollback {m : M σ α} {p : Err → Bool} {h : Err → M σ α}
    (hp : ∀ s e s', m s = (.error e, s') → p e = true)
    (hr : ∀ s e s', m s = (.error e, s') → failed (h e s') → (h e s').2 = s) :
    Atomic (tryCatch m p h) := by
  constructor; intro s hfail
  rcases cases_run m s with ⟨a, s', hm⟩ | ⟨e, s', hm⟩
  · simp [tryCatch, hm] at hfail
  · have hpe := hp s e s' hm
    simp only [tryCatch, hm, hpe, if_true] at hfail ⊢
    exact hr s e s' hm hfail

/-! ### invariant preservation (C07) -/

/-- running `m` keeps `P`, whether it returns or raises -/
structure Preserves (P : σ → Prop) (m : M σ α) : Prop where
  h : ∀ s, P s → P (m s).2

theorem ReadOnly.preserves {P : σ → Prop} {m : M σ α} (h : ReadOnly m) : Preserves P m :=
  ⟨fun s hs => by rw [h.h s]; exact hs⟩

theorem preserves_modify {P : σ → Prop} {f : σ → σ} (hf : ∀ s, P s → P (f s)) : Preserves P (modify f) :=
  ⟨fun s hs => hf s hs⟩

theorem Preserves.bind {P : σ → Prop} {m : M σ α} {f : α → M σ β} (hm : Preserves P m) (hf : ∀ a, Preserves P (f a)) :
    Preserves P (m >>= f) := by
  constructor; intro s hs
  have h1 := hm.h s hs
  rcases cases_run m s with ⟨a, s', h⟩ | ⟨e, s', h⟩
  · rw [bind_ok h]; rw [h] at h1; exact (hf a).h _ h1
  · rw [bind_err h]; rw [h] at h1; exact h1

theorem Preserves.bind' {P : σ → Prop} {m : M σ α} {f : α → M σ β} (hm : Preserves P m) (hf : ∀ a, Preserves P (f a)) :
    Preserves P (M.bind m f) := Preserves.bind hm hf

theorem Preserves.ite {P : σ → Prop} {c : Prop} [Decidable c] {x y : M σ α} (hx : Preserves P x) (hy : Preserves P y) :
    Preserves P (if c then x else y) := by split <;> assumption

theorem Preserves.tryCatch {P : σ → Prop} {m : M σ α} {p : Err → Bool} {h : Err → M σ α}
    (hm : Preserves P m) (hh : ∀ e, Preserves P (h e)) : Preserves P (tryCatch m p h) := by
  constructor; intro s hs
  have h1 := hm.h s hs
  rcases cases_run m s with ⟨a, s', hr⟩ | ⟨e, s', hr⟩
  · simp only [M.tryCatch, hr]; rw [hr] at h1; exact h1
  · rw [hr] at h1
    simp only [M.tryCatch, hr]
    split
    · exact (hh e).h _ h1
    · exact h1

theorem preserves_forEach {P : σ → Prop} {l : List β} {f : β → M σ Unit} (hf : ∀ b, Preserves P (f b)) :
    Preserves P (forEach l f) := by
  induction l with
  | nil => exact ⟨fun _ hs => hs⟩
  | cons x xs ih => exact Preserves.bind' (hf x) (fun _ => ih)

theorem preserves_mapM' {P : σ → Prop} {γ : Type} {l : List β} {f : β → M σ γ} (hf : ∀ b, Preserves P (f b)) :
    Preserves P (mapM' f l) := by
  induction l with
  | nil => exact ⟨fun _ hs => hs⟩
  | cons x xs ih => exact Preserves.bind' (hf x) (fun _ => Preserves.bind' ih (fun _ => ⟨fun _ hs => hs⟩))

end M
end FimVerif
