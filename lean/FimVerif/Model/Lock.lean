/-!
# C20, model A — control-flow skeleton of a store method, its paths, and a verified
abstract interpreter over finite monitors.

`Micro` is the alphabet shared by model A (paths of one method) and model B
(`Model/Sched.lean`, interleavings of several threads): lock operations and the few kinds
of access to the shared state of the two graph stores (`start_id` / `graph_node_ids[..]`,
`graphs`).  A method body is translated (gen/lockcfg.py) into a `Stmt`; `Exec s tr o` says
that `tr` is the sequence of micro-instructions executed along one path of `s` that ends
with outcome `o` (fall through, `return`, exception).  Every primitive flagged `mayRaise`
can raise before or after taking effect, every branch can go either way, every loop runs any
number of times.

`ai δ s S` runs a monitor automaton `δ` over *all* paths of `s` at once (collecting
semantics on lists of monitor states); `ai_sound` is the soundness theorem used by
`Proofs/C20.lean`.
-/
namespace FimVerif.Lock

/-- micro-instructions; parameters are counters / graphs / sizes (symbolic codes in the
generated skeletons, concrete numbers in the schedules replayed by the driver) -/
inductive Micro where
  | acq | rel
  | loc                         -- thread-local work, or work on objects the thread owns
  | rdg                         -- any other access to the shared graph structure
  | read (c : Nat)              -- reg := ctr c
  | bump (c k : Nat)            -- ctr c := ctr c + k           (one source line)
  | bumpReg (c k : Nat)         -- ctr c := reg + k             (`self.start_id = new_id + 1` with `new_id` read earlier)
  | add (c g k : Nat)           -- insert ids reg .. reg+k-1 into id space c, owner g
  | addFrom (c g lo k : Nat)    -- insert ids lo .. lo+k-1 into id space c, owner g
  | setCtr (c v : Nat)          -- ctr c := v
  | del (g : Nat)               -- remove every node owned by g
  | delSpace (c : Nat)          -- remove every node of id space c
  | delAll
  | ctor (weak : Bool)          -- construction of a store shell (importer / graph object); `weak` = its creation guard
                                -- is a truthiness test on a store class that can be falsy (`if not X.storage_instance`
                                -- with `__len__`/`__bool__` on the store): an existing but empty store is then replaced
  | reinit                      -- `self.__init__(...)` / `self.lock = ...` inside a method: fresh containers, fresh counters
                                -- and a NEW lock object (free, whoever held the old one)
  -- the atoms the instructions above consist of (one attribute / dictionary primitive of CPython each), see `FineM`
  | ld (c : Nat)                -- tmp := ctr c                 (first half of `bump`)
  | st (c k : Nat)              -- ctr c := tmp + k             (second half of `bump`)
  | ins (c g off : Nat)         -- insert the single id reg+off into id space c, owner g   (one step of `add`)
  | rmOne (g : Nat)             -- remove one node owned by g   (one step of `del`)
  deriving DecidableEq, Repr, Inhabited

inductive Stmt where
  | skip
  | prim (m : Micro) (mayRaise : Bool)
  | ret
  | raise
  | seq (a b : Stmt)
  | ite (a b : Stmt)
  | loop (body : Stmt)
  | tryFinally (body fin : Stmt)
  | tryExcept (body handler : Stmt)
  | call (body : Stmt)          -- call of a helper method: its `return` resumes the caller
  deriving Repr, Inhabited

abbrev Stmt.acquire : Stmt := .prim .acq false
abbrev Stmt.release : Stmt := .prim .rel false
/-- a statement that touches no shared state -/
abbrev Stmt.act (mayRaise : Bool) : Stmt := .prim .loc mayRaise

inductive Out where
  | norm | ret | exc
  deriving DecidableEq, Repr

/-- path semantics -/
inductive Exec : Stmt → List Micro → Out → Prop where
  | skip : Exec .skip [] .norm
  | primOk (m b) : Exec (.prim m b) [m] .norm
  | primRaiseBefore (m) : Exec (.prim m true) [] .exc
  | primRaiseAfter (m) : Exec (.prim m true) [m] .exc
  | ret : Exec .ret [] .ret
  | raise : Exec .raise [] .exc
  | seqNorm {a b t1 t2 o} : Exec a t1 .norm → Exec b t2 o → Exec (.seq a b) (t1 ++ t2) o
  | seqAbort {a b t1 o} : Exec a t1 o → o ≠ .norm → Exec (.seq a b) t1 o
  | iteL {a b t o} : Exec a t o → Exec (.ite a b) t o
  | iteR {a b t o} : Exec b t o → Exec (.ite a b) t o
  | loopDone {b} : Exec (.loop b) [] .norm
  | loopStep {b t1 t2 o} : Exec b t1 .norm → Exec (.loop b) t2 o → Exec (.loop b) (t1 ++ t2) o
  | loopAbort {b t1 o} : Exec b t1 o → o ≠ .norm → Exec (.loop b) t1 o
  | finNorm {b f t1 t2 o} : Exec b t1 o → Exec f t2 .norm → Exec (.tryFinally b f) (t1 ++ t2) o
  | finOver {b f t1 t2 o o2} : Exec b t1 o → Exec f t2 o2 → o2 ≠ .norm →
      Exec (.tryFinally b f) (t1 ++ t2) o2
  | excPass {b h t o} : Exec b t o → o ≠ .exc → Exec (.tryExcept b h) t o
  | excCatch {b h t1 t2 o} : Exec b t1 .exc → Exec h t2 o → Exec (.tryExcept b h) (t1 ++ t2) o
  | callNorm {b t} : Exec b t .norm → Exec (.call b) t .norm
  | callRet {b t} : Exec b t .ret → Exec (.call b) t .norm
  | callExc {b t} : Exec b t .exc → Exec (.call b) t .exc

/-! ## monitors -/

section Monitor
variable {Q : Type}

def runQ (δ : Q → Micro → Q) (q : Q) (tr : List Micro) : Q := tr.foldl δ q

@[simp] theorem runQ_nil (δ : Q → Micro → Q) (q : Q) : runQ δ q [] = q := rfl
@[simp] theorem runQ_cons (δ : Q → Micro → Q) (q : Q) (m tr) : runQ δ q (m :: tr) = runQ δ (δ q m) tr := rfl
theorem runQ_append (δ : Q → Micro → Q) (q : Q) (a b) : runQ δ q (a ++ b) = runQ δ (runQ δ q a) b := by
  simp [runQ, List.foldl_append]

variable [DecidableEq Q]

def ins (x : Q) (l : List Q) : List Q := if x ∈ l then l else x :: l
def union (a b : List Q) : List Q := a.foldr ins b

theorem mem_ins {x y : Q} {l : List Q} : y ∈ ins x l ↔ y = x ∨ y ∈ l := by
  unfold ins
  split
  · constructor
    · intro h; exact Or.inr h
    · intro h; cases h with
      | inl h => subst h; assumption
      | inr h => exact h
  · simp

theorem mem_union {x : Q} {a b : List Q} : x ∈ union a b ↔ x ∈ a ∨ x ∈ b := by
  induction a with
  | nil => simp [union]
  | cons y a ih =>
    have : union (y :: a) b = ins y (union a b) := rfl
    rw [this, mem_ins, ih]; simp [or_assoc]

structure Res (Q : Type) where
  norm : List Q
  ret : List Q
  exc : List Q

def Res.get (r : Res Q) : Out → List Q
  | .norm => r.norm
  | .ret => r.ret
  | .exc => r.exc

/-- candidate loop invariant: iterate `X ↦ X ∪ step X` until the size is stable or the fuel runs out
(the result is *checked* by `ai`, so nothing has to be proved about this function) -/
def loopInv (step : List Q → Option (List Q)) : Nat → List Q → Option (List Q)
  | 0, S => some S
  | n + 1, S =>
    match step S with
    | none => none
    | some N =>
      let S' := union N S
      if S'.length = S.length then some S else loopInv step n S'

def subset (a b : List Q) : Bool := a.all (fun x => decide (x ∈ b))

theorem subset_mem {a b : List Q} (h : subset a b = true) {x : Q} (hx : x ∈ a) : x ∈ b := by
  simp only [subset, List.all_eq_true, decide_eq_true_eq] at h; exact h x hx

/-- collecting abstract interpreter: the monitor states reachable at each kind of exit of `s`
when it is entered in one of the states `S`.  `none` = no loop invariant found. -/
def ai (δ : Q → Micro → Q) : Stmt → List Q → Option (Res Q)
  | .skip, S => some ⟨S, [], []⟩
  | .prim m b, S =>
    let S' := union (S.map (δ · m)) []
    some ⟨S', [], if b then union S S' else []⟩
  | .ret, S => some ⟨[], S, []⟩
  | .raise, S => some ⟨[], [], S⟩
  | .seq a b, S =>
    match ai δ a S with
    | none => none
    | some ra =>
      match ai δ b ra.norm with
      | none => none
      | some rb => some ⟨rb.norm, ra.ret ++ rb.ret, ra.exc ++ rb.exc⟩
  | .ite a b, S =>
    match ai δ a S, ai δ b S with
    | some ra, some rb => some ⟨union ra.norm rb.norm, union ra.ret rb.ret, union ra.exc rb.exc⟩
    | _, _ => none
  | .loop b, S =>
    match loopInv (fun X => (ai δ b X).map (·.norm)) 24 S with
    | none => none
    | some I =>
      match ai δ b I with
      | none => none
      | some r => if subset S I && subset r.norm I then some ⟨I, r.ret, r.exc⟩ else none
  | .tryFinally b f, S =>
    match ai δ b S with
    | none => none
    | some rb =>
      match ai δ f rb.norm, ai δ f rb.ret, ai δ f rb.exc with
      | some fn, some fr, some fe =>
        some ⟨fn.norm, fr.norm ++ fn.ret ++ fr.ret ++ fe.ret, fe.norm ++ fn.exc ++ fr.exc ++ fe.exc⟩
      | _, _, _ => none
  | .tryExcept b h, S =>
    match ai δ b S with
    | none => none
    | some rb =>
      match ai δ h rb.exc with
      | none => none
      | some rh => some ⟨rb.norm ++ rh.norm, rb.ret ++ rh.ret, rh.exc⟩
  | .call b, S =>
    match ai δ b S with
    | none => none
    | some rb => some ⟨rb.norm ++ rb.ret, [], rb.exc⟩

/-- every exit state of every path satisfies `good` -/
def allExits (δ : Q → Micro → Q) (good : Q → Bool) (q0 : Q) (s : Stmt) : Bool :=
  match ai δ s [q0] with
  | none => false
  | some r => r.norm.all good && r.ret.all good && r.exc.all good

end Monitor

/-! ## monitor 1: the lock itself -/

/-- `none` = lock error (release of an unheld lock, or acquire of a lock the caller holds);
`some (held, n)` = currently held?, number of releases so far -/
abbrev LockSt := Option (Bool × Nat)

def lockStep (cap : Nat) : LockSt → Micro → LockSt
  | none, _ => none
  | some (h, n), .acq => if h then none else some (true, n)
  | some (h, n), .rel => if h then some (false, min (n + 1) cap) else none
  | some x, _ => some x

/-- concrete lock monitor: exact release count -/
def lockStepC : LockSt → Micro → LockSt
  | none, _ => none
  | some (h, n), .acq => if h then none else some (true, n)
  | some (h, n), .rel => if h then some (false, n + 1) else none
  | some x, _ => some x

/-- state of the lock after the trace `tr`, started released with zero releases -/
def lockRun (tr : List Micro) : LockSt := runQ lockStepC (some (false, 0)) tr

/-- the decidable per-method obligation: on every path the lock ends released, was released
exactly once, never released while not held, never re-acquired while held -/
def balanced (s : Stmt) : Bool :=
  allExits (lockStep 2) (fun q => q == some (false, 1)) (some (false, 0)) s

/-- a method that must not touch the lock at all (helpers called with the lock held) -/
def lockNeutral (s : Stmt) : Bool :=
  allExits (lockStep 2) (fun q => q == some (true, 0)) (some (true, 0)) s
  && allExits (lockStep 2) (fun q => q == some (false, 0)) (some (false, 0)) s


/-! ## executable path membership (used by the driver to check that an observed trace of the real
method is one of the paths of its generated skeleton) -/

def loopC (body : List Micro → List (List Micro × Out)) : Nat → List Micro → List (List Micro × Out)
  | 0, tr => [(tr, .norm)]
  | n + 1, tr =>
    (tr, .norm) :: (body tr).flatMap fun (r, o) =>
      if o = .norm then (if r.length < tr.length then loopC body n r else []) else [(r, o)]

/-- all ways `s` can consume a prefix of `tr`: (rest, outcome) -/
def consume : Stmt → List Micro → List (List Micro × Out)
  | .skip, tr => [(tr, .norm)]
  | .prim .loc b, tr => (tr, .norm) :: (if b then [(tr, .exc)] else [])   -- thread-local work is not observed
  | .prim .rdg b, tr =>         -- a read of the graph structure is observed when it touches a node dictionary, not otherwise
    (match tr with
      | .rdg :: rest => (rest, .norm) :: (if b then [(rest, .exc)] else [])
      | _ => []) ++ (tr, .norm) :: (if b then [(tr, .exc)] else [])
  | .prim m b, tr =>
    (match tr with
      | x :: rest => if x = m then (rest, .norm) :: (if b then [(rest, .exc)] else []) else []
      | [] => []) ++ (if b then [(tr, .exc)] else [])
  | .ret, tr => [(tr, .ret)]
  | .raise, tr => [(tr, .exc)]
  | .seq a b, tr => (consume a tr).flatMap fun (r, o) => if o = .norm then consume b r else [(r, o)]
  | .ite a b, tr => consume a tr ++ consume b tr
  | .loop b, tr => loopC (consume b) (tr.length + 1) tr
  | .tryFinally b f, tr =>
    (consume b tr).flatMap fun (r, o) => (consume f r).map fun (r2, o2) => (r2, if o2 = .norm then o else o2)
  | .tryExcept b h, tr => (consume b tr).flatMap fun (r, o) => if o = .exc then consume h r else [(r, o)]
  | .call b, tr => (consume b tr).map fun (r, o) => (r, if o = .ret then .norm else o)

def isPath (s : Stmt) (tr : List Micro) (o : Out) : Bool :=
  (consume s tr).any fun (r, o') => r.isEmpty && o' == o

/-! ## instantiating the symbolic parameters of a generated skeleton

gen/lockcfg.py writes counter 0 for `start_id` and counter 1 for `graph_node_ids[graph_id]`, graph 1 for the `graph_id`
argument, size `symK` for `len(temp_graph)` and `symK + 1` for `len(temp_graph) + 1`.  A call on graph `g` importing `k`
nodes runs the skeleton with these replaced; an insertion of zero nodes is at most a read. -/

def symK : Nat := 100

def instCtr (g c : Nat) : Nat := if c = 0 then 0 else g
def instSize (k s : Nat) : Nat := if s = symK then k else if s = symK + 1 then k + 1 else s

def instMicro (g k : Nat) : Micro → Micro
  | .read c => .read (instCtr g c)
  | .bump c n => .bump (instCtr g c) (instSize k n)
  | .bumpReg c n => .bumpReg (instCtr g c) (instSize k n)
  | .add c _ n => if instSize k n = 0 then .rdg else .add (instCtr g c) g (instSize k n)
  | .addFrom c _ lo n => if instSize k n = 0 then .rdg else .addFrom (instCtr g c) g lo (instSize k n)
  | .setCtr c v => .setCtr (instCtr g c) (instSize k v)
  | .del _ => .del g
  | .delSpace c => .delSpace (instCtr g c)
  | m => m

def instStmt (g k : Nat) : Stmt → Stmt
  | .prim m b => .prim (instMicro g k m) b
  | .seq a b => .seq (instStmt g k a) (instStmt g k b)
  | .ite a b => .ite (instStmt g k a) (instStmt g k b)
  | .loop b => .loop (instStmt g k b)
  | .tryFinally b f => .tryFinally (instStmt g k b) (instStmt g k f)
  | .tryExcept b h => .tryExcept (instStmt g k b) (instStmt g k h)
  | .call b => .call (instStmt g k b)
  | s => s

/-! ## monitor 2: allocation discipline

Shared state (`ctr`, the node set) is written only with the lock held, and each locked region
uses one of the allocation idioms that exist in the two stores:

* `read c ; bump c k ; add c _ k`  or  `read c ; add c _ k ; bump c k`  (ids from the counter; `bumpReg c k`, which
  writes `reg + k` instead of `ctr c + k`, may stand for `bump c k`: under the lock `reg = ctr c`)
* `delSpace c ; addFrom c _ lo k ; setCtr c (lo+k)`                     (id space rebuilt from scratch)

plus deletions and plain reads.  `out` = lock not held by this thread. -/
inductive DQ where
  | out | idle
  | rd (c : Nat) | rdB (c k : Nat) | rdA (c k : Nat)
  | clr (c : Nat) | fil (c n : Nat)
  | rdl (c : Nat)               -- `rd c` and the first half of a bump done
  | rdAl (c k : Nat)            -- `rdA c k` and the first half of the bump done
  | rdBp (c k i : Nat)          -- `rdB c k` and `i` of the `k` ids inserted
  | bad
  deriving DecidableEq, Repr, Inhabited

def discStep : DQ → Micro → DQ
  | .bad, _ => .bad
  | .out, .loc => .out
  | .out, .rdg => .out          -- unlocked *reads* of the graph are part of the API (get_graph)
  | .out, .acq => .idle
  | .out, .ctor w => if w then .bad else .out   -- a shell may be constructed any time outside the lock
  | .out, _ => .bad
  | _, .acq => .bad
  | q, .loc => q
  | q, .rdg => q
  | .idle, .rel => .out
  | .rd _, .rel => .out
  | .rdB _ _, .rel => .out
  | .clr _, .rel => .out
  | .idle, .read c => .rd c
  | .idle, .del _ => .idle
  | .idle, .delAll => .idle
  | .idle, .delSpace c => .clr c
  | .rd c, .read c' => if c' = c then .rd c else .bad
  | .rd c, .bump c' k => if c' = c then .rdB c k else .bad
  | .rd c, .bumpReg c' k => if c' = c then .rdB c k else .bad
  | .rd c, .add c' _ k => if c' = c then .rdA c k else .bad
  | .rdB c k, .add c' _ k' => if c' = c ∧ k' = k then .idle else .bad
  | .rdA c k, .bump c' k' => if c' = c ∧ k' = k then .idle else .bad
  | .rdA c k, .bumpReg c' k' => if c' = c ∧ k' = k then .idle else .bad
  | .clr c, .delSpace c' => if c' = c then .clr c else .bad
  | .clr c, .addFrom c' _ lo k => if c' = c then .fil c (lo + k) else .bad
  | .fil c n, .setCtr c' v => if c' = c ∧ v = n then .idle else .bad
  | .fil c n, .addFrom c' _ lo k => if c' = c ∧ n ≤ lo then .fil c (lo + k) else .bad    -- filling goes on above what is there
  -- atoms
  | .rdBp _ _ _, .rel => .out                                    -- an insertion interrupted half-way: the ids are below the counter
  | .idle, .rmOne _ => .idle
  | .rd c, .ld c' => if c' = c then .rdl c else .bad
  | .rdl c, .st c' k => if c' = c then .rdB c k else .bad
  | .rdA c k, .ld c' => if c' = c then .rdAl c k else .bad
  | .rdAl c k, .st c' k' => if c' = c ∧ k' = k then .idle else .bad
  | .rd c, .ins c' _ off => if c' = c ∧ off = 0 then .rdA c 1 else .bad
  | .rdA c j, .ins c' _ off => if c' = c ∧ off = j then .rdA c (j + 1) else .bad
  | .rdB c k, .ins c' _ off => if c' = c ∧ off = 0 ∧ 0 < k then (if k = 1 then .idle else .rdBp c k 1) else .bad
  | .rdBp c k i, .ins c' _ off =>
    if c' = c ∧ off = i ∧ i < k then (if i + 1 = k then .idle else .rdBp c k (i + 1)) else .bad
  | .clr c, .setCtr c' _ => if c' = c then .idle else .bad      -- the id space is empty: any counter value is above every id
  | _, _ => .bad

/-- a whole thread program is accepted: starts and ends outside the lock, never `bad` -/
def accepts (p : List Micro) : Bool := runQ discStep .out p == .out

/-- per-method obligation: every path of the method is an accepted program fragment -/
def disciplined (s : Stmt) : Bool := allExits discStep (fun q => q == .out) .out s

/-- helper called with the lock held (from the `idle` state) and returning there -/
def disciplinedHelper (s : Stmt) : Bool := allExits discStep (fun q => q == .idle) .idle s

end FimVerif.Lock
