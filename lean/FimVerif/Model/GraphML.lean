import FimVerif.Generated.Serial
/-!
# C01 — serialization documents and the import entry points (document level)

This file models, *at the level of documents, not characters*,

* `nx.Graph` as the library uses it (`Graph κ`: nodes in insertion order with their
  attribute dicts, edges in global insertion order; `Graph.edgesIter` is `G.edges(data=True)`),
* `nx.generate_graphml` (`toGraphML`: attribute typing, key allocation `d<n>` by first
  occurrence of `(name, type, scope)`, key elements inserted at position 0),
* `GraphML.networkx_to_neo4j` (`toNeo4j`: `label` / `labels` markup copied from the `Class` data; the prefix of the
  node markup is `Gen.Serial.nodeLabelPrefix`, observed on the code by `gen/serial.py` on every run),
* `nx.read_graphml` (`fromGraphML`: typing by the key table, `text is None ⇒ ""`),
* `nx.node_link_data` / `node_link_graph` (`toJSON` / `fromJSON`),
* the shared store `NetworkXGraphStorage` (`Store`: `extract_graph`, `add_graph`,
  `add_graph_direct`, `__del_graph_nl`), `ABCGraphImporter.get_graph_id`, `_read_from_file`
  and the four import entry points, `serialize_graph`.

Text payloads are *typed values* (`Val`): `str(v)` on the way out and `int(text)` /
`convert_bool[text.lower()]` / `float(text)` on the way in are CPython and are not
modelled; the driver renders / parses them and the correspondence compares the real text.
No Mathlib.
-/
namespace FimVerif.GraphML

/-! ## Values and attribute dictionaries -/

/-- a Python attribute value; `float` carries `repr`, `other` anything GraphML cannot type
    (None, list, dict) as an opaque description -/
inductive Val
  | str (s : String)
  | int (i : Int)
  | bool (b : Bool)
  | float (r : String)
  | other (d : String)
  deriving DecidableEq, Repr, Inhabited

/-- Python truthiness (`not v`) as used by `add_graph` on `NodeID` -/
def Val.truthy : Val → Bool
  | .str s => s != ""
  | .int i => i != 0
  | .bool b => b
  | .float r => !(r == "0.0" || r == "-0.0")
  | .other d => !(d == "null" || d == "[]" || d == "{}")

/-- `str(v)` — only used for the label markup, where the value is the `Class` string -/
def Val.pyStr : Val → String
  | .str s => s
  | .int i => toString i
  | .bool b => if b then "True" else "False"
  | .float r => r
  | .other d => d

/-- a Python `dict` with string keys: insertion ordered, keys unique -/
abbrev Attrs := List (String × Val)

namespace Attrs
/-- `d.get(k)` -/
def get? (a : Attrs) (k : String) : Option Val := a.lookup k

/-- `d[k] = v` : in place when present, appended otherwise -/
def set : Attrs → String → Val → Attrs
  | [], k, v => [(k, v)]
  | (k', v') :: t, k, v => if k' = k then (k, v) :: t else (k', v') :: set t k v

/-- `dict(pairs)` / `d.update(pairs)` from the empty dict -/
def ofList (l : List (String × Val)) : Attrs := l.foldl (fun acc p => set acc p.1 p.2) []

def keys (a : Attrs) : List String := a.map (·.1)
end Attrs

/-- `[f(x) for x in l]` where `f` may fail (first failure wins) -/
def mapE {α β ε : Type} (f : α → Except ε β) : List α → Except ε (List β)
  | [] => .ok []
  | a :: t =>
    match f a with
    | .error e => .error e
    | .ok b =>
      match mapE f t with
      | .error e => .error e
      | .ok bs => .ok (b :: bs)

def mapOpt {α β : Type} (f : α → Option β) : List α → Option (List β)
  | [] => some []
  | a :: t =>
    match f a, mapOpt f t with
    | some b, some bs => some (b :: bs)
    | _, _ => none

/-! ## `nx.Graph` -/

structure Edge (κ : Type) where
  a : κ
  b : κ
  attrs : Attrs
  deriving Repr, DecidableEq

/-- an undirected simple `nx.Graph`: `nodes` is `G._node` in insertion order, `edges` the
    edges in the order in which they were first inserted (either orientation) -/
structure Graph (κ : Type) where
  nodes : List (κ × Attrs)
  edges : List (Edge κ)
  deriving Repr, DecidableEq

section
variable {κ : Type} [DecidableEq κ]

/-- `G.adj[u].items()` : neighbours of `u` in insertion order -/
def adj (es : List (Edge κ)) (u : κ) : List (κ × Attrs) :=
  es.filterMap fun e => if e.a = u then some (e.b, e.attrs) else if e.b = u then some (e.a, e.attrs) else none

/-- the edges reported while visiting `u` with `seen` already visited -/
def block (es : List (Edge κ)) (seen : List κ) (u : κ) : List (Edge κ) :=
  (adj es u).filterMap fun p => if p.1 ∈ seen then none else some ⟨u, p.1, p.2⟩

/-- `G.edges(data=True)` of an undirected graph: for every node in order, its not-yet-seen
    neighbours in adjacency order -/
def iterFrom (es : List (Edge κ)) : List κ → List κ → List (Edge κ)
  | _, [] => []
  | seen, u :: rest => block es seen u ++ iterFrom es (u :: seen) rest

def Graph.keys (G : Graph κ) : List κ := G.nodes.map (·.1)

/-- `G.edges(data=True)` -/
def Graph.edgesIter (G : Graph κ) : List (Edge κ) := iterFrom G.edges [] G.keys

/-- `nx.relabel_nodes(G, mapping, copy=True)` for a total mapping: nodes in order, edges as
    iterated by `G.edges(data=True)` -/
def Graph.relabel {κ' : Type} (G : Graph κ) (f : κ → κ') : Graph κ' :=
  { nodes := G.nodes.map fun p => (f p.1, p.2),
    edges := G.edgesIter.map fun e => ⟨f e.a, f e.b, e.attrs⟩ }

end

/-! ## GraphML documents -/

inductive KTy
  | string | long | boolean | double
  | unknown (s : String)
  deriving DecidableEq, Repr

inductive Scope
  | node | edge
  deriving DecidableEq, Repr

/-- `(name, attr.type, for)` — the key of `GraphMLWriter.keys` -/
structure KeySpec where
  name : String
  ty : KTy
  scope : Scope
  deriving DecidableEq, Repr

/-- `<key id="d<id>" for= attr.name= attr.type=/>` -/
structure GKey where
  id : Nat
  spec : KeySpec
  deriving DecidableEq, Repr

/-- `<data key="d<key>">str(val)</data>` -/
structure GData where
  key : Nat
  val : Val
  deriving DecidableEq, Repr

structure GNode (κ : Type) where
  id : κ
  labels : Option String
  data : List GData
  deriving DecidableEq, Repr

structure GEdge (κ : Type) where
  source : κ
  target : κ
  label : Option String
  data : List GData
  deriving DecidableEq, Repr

/-- a GraphML document: `keys` in document order -/
structure GDoc (κ : Type) where
  keys : List GKey
  nodes : List (GNode κ)
  edges : List (GEdge κ)
  deriving DecidableEq, Repr

/-- `GraphMLWriter.xml_type[type(v)]` -/
def xmlType : Val → Option KTy
  | .str _ => some .string
  | .int _ => some .long
  | .bool _ => some .boolean
  | .float _ => some .double
  | .other _ => none

/-- the `(name, type, scope)` of every attribute of an element, in dict order;
    `none` for a value GraphML cannot type -/
def specsOf (sc : Scope) (a : Attrs) : List (Option KeySpec) :=
  a.map fun p => (xmlType p.2).map fun t => ⟨p.1, t, sc⟩

/-- `get_key`: a new `(name,type,scope)` gets id `len(keys)` -/
def insertKey (tbl : List KeySpec) (k : KeySpec) : List KeySpec :=
  if k ∈ tbl then tbl else tbl ++ [k]

/-- the key table in allocation order, or `none` when some value has an unsupported type -/
def allocStep (acc : Option (List KeySpec)) (s : Option KeySpec) : Option (List KeySpec) :=
  match acc, s with
  | some tbl, some k => some (insertKey tbl k)
  | _, _ => none

def allocKeys (specs : List (Option KeySpec)) : Option (List KeySpec) :=
  specs.foldl allocStep (some [])

/-- the `<key>` elements in document order: every new key element is inserted at position 0 -/
def docKeys (tbl : List KeySpec) : List GKey :=
  (tbl.zipIdx.map fun p => (⟨p.2, p.1⟩ : GKey)).reverse

/-- data elements of one node / edge -/
def dataOf (tbl : List KeySpec) (sc : Scope) (a : Attrs) : List GData :=
  a.map fun p => ⟨tbl.idxOf ⟨p.1, (xmlType p.2).getD (.unknown ""), sc⟩, p.2⟩

section
variable {κ : Type} [DecidableEq κ]

/-- all attribute specs in the order `add_graph_element` processes them: nodes, then edges -/
def Graph.allSpecs (G : Graph κ) : List (Option KeySpec) :=
  (G.nodes.flatMap fun p => specsOf .node p.2) ++ (G.edgesIter.flatMap fun e => specsOf .edge e.attrs)

/-- `'\n'.join(nx.generate_graphml(graph))` as a document; every new key element is
    inserted at position 0, hence the reversed table -/
def toGraphML (G : Graph κ) : Except String (GDoc κ) :=
  match allocKeys G.allSpecs with
  | none => .error "nxerror"
  | some tbl =>
    .ok { keys := docKeys tbl,
          nodes := G.nodes.map fun p => ⟨p.1, none, dataOf tbl .node p.2⟩,
          edges := G.edgesIter.map fun e => ⟨e.a, e.b, none, dataOf tbl .edge e.attrs⟩ }

/-- the id of the `Class` key for a scope: the loop over `findall('./g:key[@attr.name="Class"]')`
    keeps the last match in document order -/
def classKey (keys : List GKey) (sc : Scope) : Option Nat :=
  ((keys.filter fun k => k.spec.name == "Class" && k.spec.scope == sc).getLast?).map (·.id)

/-- `e.find("g:data[@key='<id>']")` then `.text` -/
def classText (ck : Option Nat) (data : List GData) : Except String String :=
  match ck with
  | none => .error "attribute"                 -- @key='None' matches nothing, `None.text`
  | some k =>
    match data.find? (fun d => d.key == k) with
    | none => .error "attribute"
    | some d => if d.val.pyStr = "" then .error "type" else .ok d.val.pyStr

def markEdge (ck : Option Nat) (e : GEdge κ) : Except String (GEdge κ) :=
  match classText ck e.data with
  | .error er => .error er
  | .ok t =>
    match e.label with
    | some l => if l = "" then .ok { e with label := some t } else .ok e
    | none => .ok { e with label := some t }

def markNode (ck : Option Nat) (n : GNode κ) : Except String (GNode κ) :=
  match classText ck n.data with
  | .error er => .error er
  | .ok t =>
    match n.labels with
    | some l => if l = "" then .ok { n with labels := some (Gen.Serial.nodeLabelPrefix ++ t) } else .ok n
    | none => .ok { n with labels := some (Gen.Serial.nodeLabelPrefix ++ t) }

/-- `GraphML.networkx_to_neo4j` : edges first, then nodes -/
def toNeo4j (d : GDoc κ) : Except String (GDoc κ) :=
  match mapE (markEdge (classKey d.keys .edge)) d.edges with
  | .error e => .error e
  | .ok es =>
    match mapE (markNode (classKey d.keys .node)) d.nodes with
    | .error e => .error e
    | .ok ns => .ok { d with nodes := ns, edges := es }

/-- `graphml_keys[id]` (a later `<key>` with the same id overwrites an earlier one) -/
def lookupKey (keys : List GKey) (id : Nat) : Option KeySpec :=
  (keys.reverse.find? fun k => k.id == id).map (·.spec)

/-- typed conversion of one data element by `read_graphml` -/
def decodeVal (ty : KTy) (v : Val) : Except String Val :=
  if v = .str "" then .ok (.str "")             -- `text is None` ⇒ ""
  else match ty, v with
    | .string, .str s => .ok (.str s)
    | .long, .int i => .ok (.int i)
    | .boolean, .bool b => .ok (.bool b)
    | .double, .float r => .ok (.float r)
    | .unknown _, _ => .error "key"            -- python_type[attr.type]
    | .boolean, _ => .error "key"              -- convert_bool[text.lower()]
    | _, _ => .error "value"                   -- int(text) / float(text)

/-- `decode_data_elements` -/
def decodeDataFrom (keys : List GKey) (acc : Attrs) : List GData → Except String Attrs
  | [] => .ok acc
  | d :: t =>
    match lookupKey keys d.key with
    | none => .error "nxerror"
    | some sp =>
      match decodeVal sp.ty d.val with
      | .error e => .error e
      | .ok v => decodeDataFrom keys (Attrs.set acc sp.name v) t

def decodeData (keys : List GKey) (data : List GData) : Except String Attrs := decodeDataFrom keys [] data

/-- `nx.read_graphml` for a *simple* document (distinct node ids, declared endpoints, no
    parallel edges): MultiGraph in document order, then `nx.Graph(G)` which re-inserts the
    edges in adjacency-iteration order -/
def readNode (keys : List GKey) (n : GNode κ) : Except String (κ × Attrs) :=
  match decodeData keys n.data with
  | .error e => .error e
  | .ok a => .ok (n.id, a)

def readEdge (keys : List GKey) (e : GEdge κ) : Except String (Edge κ) :=
  match decodeData keys e.data with
  | .error er => .error er
  | .ok a => .ok ⟨e.source, e.target, a⟩

def fromGraphML (d : GDoc κ) : Except String (Graph κ) :=
  match mapE (readNode d.keys) d.nodes with
  | .error e => .error e
  | .ok ns =>
    match mapE (readEdge d.keys) d.edges with
    | .error e => .error e
    | .ok es => .ok { nodes := ns, edges := iterFrom es [] (ns.map (·.1)) }

end

/-! ## node-link JSON documents -/

/-- a value inside a node / link object: an attribute value or a node key -/
inductive JV (κ : Type)
  | v (v : Val)
  | k (k : κ)
  deriving DecidableEq, Repr

abbrev JObj (κ : Type) := List (String × JV κ)

/-- `obj[k] = x` -/
def JObj.set {κ : Type} : JObj κ → String → JV κ → JObj κ
  | [], k, x => [(k, x)]
  | (k', x') :: t, k, x => if k' = k then (k, x) :: t else (k', x') :: JObj.set t k x

/-- the value `nx.node_link_data` returns (`"graph": {}` is constant) -/
structure JDoc (κ : Type) where
  directed : Bool
  multigraph : Bool
  nodes : List (JObj κ)
  edges : List (JObj κ)
  deriving DecidableEq, Repr

section
variable {κ : Type} [DecidableEq κ]

def attrsObj (a : Attrs) : JObj κ := a.map fun p => (p.1, JV.v p.2)

/-- `node_link_data(G)` : `{**attrs, "id": n}`, `{**attrs, "source": u, "target": v}`; the three reserved key names are
    observed on the code (`Gen.Serial.jsonIdKey` / `jsonSourceKey` / `jsonTargetKey`) -/
def toJSON (G : Graph κ) : JDoc κ :=
  { directed := false, multigraph := false,
    nodes := G.nodes.map fun p => (attrsObj p.2).set Gen.Serial.jsonIdKey (.k p.1),
    edges := G.edgesIter.map fun e => ((attrsObj e.attrs).set Gen.Serial.jsonSourceKey (.k e.a)).set Gen.Serial.jsonTargetKey (.k e.b) }

/-- the attribute part of an object: every entry except the reserved names -/
def objAttrs (o : JObj κ) (reserved : List String) : Except String Attrs :=
  mapE (fun p : String × JV κ =>
    match p.2 with
    | .v v => .ok (p.1, v)
    | .k _ => .error "unsupported") (o.filter fun p => !(reserved.contains p.1))

def objKey (o : JObj κ) (name : String) : Except String κ :=
  match o.lookup name with
  | some (.k k) => .ok k
  | some (.v _) => .error "unsupported"
  | none => .error "key"

/-- `node_link_graph(data)` for an undirected simple document whose nodes carry `id` -/
def readJNode (o : JObj κ) : Except String (κ × Attrs) :=
  match objKey o Gen.Serial.jsonIdKey with
  | .error e => .error e
  | .ok k =>
    match objAttrs o [Gen.Serial.jsonIdKey] with
    | .error e => .error e
    | .ok a => .ok (k, a)

def readJEdge (o : JObj κ) : Except String (Edge κ) :=
  match objKey o Gen.Serial.jsonSourceKey with
  | .error e => .error e
  | .ok s =>
    match objKey o Gen.Serial.jsonTargetKey with
    | .error e => .error e
    | .ok t =>
      match objAttrs o [Gen.Serial.jsonSourceKey, Gen.Serial.jsonTargetKey] with
      | .error e => .error e
      | .ok a => .ok ⟨s, t, a⟩

def fromJSON (d : JDoc κ) : Except String (Graph κ) :=
  if d.directed || d.multigraph then .error "unsupported"
  else
    match mapE readJNode d.nodes with
    | .error e => .error e
    | .ok ns =>
      match mapE readJEdge d.edges with
      | .error e => .error e
      | .ok es => .ok { nodes := ns, edges := es }

end

/-- a serialized model, parsed -/
inductive Doc (κ : Type)
  | graphml (d : GDoc κ)
  | json (d : JDoc κ)
  deriving Repr

inductive Fmt
  | graphml | json
  deriving DecidableEq, Repr

/-! ## The shared store -/

structure SNode where
  iid : Nat
  attrs : Attrs
  deriving DecidableEq, Repr

/-- `NetworkXGraphStorage`: one `nx.Graph` for all graphs + `start_id` -/
structure Store where
  nodes : List SNode
  edges : List (Edge Nat)
  nextId : Nat
  deriving DecidableEq, Repr

namespace Store

def empty : Store := ⟨[], [], Gen.Serial.initialStartId⟩

def inGraph (g : Val) (n : SNode) : Bool := n.attrs.get? "GraphID" == some g

/-- `nxq.search_nodes(self.graphs, {'eq': [GraphID, g]})` -/
def graphNodes (s : Store) (g : Val) : List SNode := s.nodes.filter (inGraph g)

/-- `extract_graph` : `None` when no node carries the id; otherwise the nodes with their
    dicts and the edges among them (`to_dict_of_dicts` / `from_dict_of_dicts`) -/
def extract (s : Store) (g : Val) : Option (Graph Nat) :=
  let ns := s.graphNodes g
  if ns.isEmpty then none
  else
    let ids := ns.map (·.iid)
    let es := s.edges.filter fun e => ids.contains e.a && ids.contains e.b
    some { nodes := ns.map fun n => (n.iid, n.attrs), edges := iterFrom es [] ids }

/-- the store invariant all shared-store theorems assume (`StoreInv` in `Proofs/Lemmas/C01Store.lean`), as a
    Boolean the driver evaluates on every store the harness hands over (`invB_iff` ties the two): internal ids
    distinct and below `start_id`, every edge between stored nodes. Nothing is said about *which* graphs an edge
    joins: `merge_nodes` leaves edges that lead from one graph into another. -/
def invB (s : Store) : Bool :=
  let ids := s.nodes.map (·.iid)
  decide ids.Nodup && s.nodes.all (fun n => decide (n.iid < s.nextId)) &&
    s.edges.all (fun e => ids.contains e.a && ids.contains e.b)

/-- `__del_graph_nl` : `remove_nodes_from` also removes incident edges -/
def delGraph (s : Store) (g : Val) : Store :=
  let dead := (s.graphNodes g).map (·.iid)
  { s with nodes := s.nodes.filter (fun n => !(inGraph g n)),
           edges := s.edges.filter fun e => !(dead.contains e.a) && !(dead.contains e.b) }

/-- `nx.convert_node_labels_to_integers(graph, first_label=start)`; which `start` the two stores pass
    (`self.start_id` / the literal 1) is read from the code: `Gen.Serial.sharedFirstLabel`, `disjointFirstLabel` -/
def relabelFrom {κ : Type} [DecidableEq κ] (G : Graph κ) (start : Nat) : Graph Nat :=
  G.relabel fun k => start + G.keys.idxOf k

/-- merge a relabelled graph into the store (`add_nodes_from`, `add_edges_from` with fresh ids) -/
def merge (s : Store) (T : Graph Nat) : Store :=
  { nodes := s.nodes ++ T.nodes.map (fun p => ⟨p.1, p.2⟩),
    edges := s.edges ++ T.edgesIter,
    nextId := s.nextId + T.nodes.length }

/-- `add_graph` : the old graph of that id is deleted *before* the NodeID check -/
def addGraph {κ : Type} [DecidableEq κ] (s : Store) (g : Val) (G : Graph κ) : Except String Unit × Store :=
  let s1 := s.delGraph g
  let T := relabelFrom G (Gen.Serial.sharedFirstLabel.eval s1.nextId)
  if T.nodes.all (fun p => ((p.2.get? "NodeID").map Val.truthy).getD false) then
    let T' : Graph Nat := { T with nodes := T.nodes.map fun p => (p.1, p.2.set "GraphID" g) }
    (.ok (), s1.merge T')
  else (.error "import", s1)

/-- `add_graph_direct` -/
def addGraphDirect {κ : Type} [DecidableEq κ] (s : Store) (g : Val) (G : Graph κ) : Store :=
  let s1 := s.delGraph g
  s1.merge (relabelFrom G (Gen.Serial.sharedFirstLabel.eval s1.nextId))

end Store

section
variable {κ : Type} [DecidableEq κ]

/-- `_read_from_file` without a format hint: any reader failure ends in `None` -/
def readDoc : Doc κ → Option (Graph κ)
  | .json d => (fromJSON d).toOption
  | .graphml d => (fromGraphML d).toOption

/-- `ABCGraphImporter.get_graph_id` -/
def getGraphId (d : Doc κ) : Except String Val :=
  match readDoc d with
  | none => .error "import"
  | some G =>
    if G.nodes.isEmpty then .error "import"            -- `if not g`
    else
      match mapOpt (fun p => p.2.get? "GraphID") G.nodes with
      | none => .error "import"                        -- KeyError
      | some ids =>
        match ids with
        | [] => .error "import"
        | g :: rest =>
          if rest.all (· == g) then .ok g               -- `len(set(graph_ids)) > 1` otherwise
          else .error "import"

/-- `import_graph_from_string(graph_string, graph_id)` and `import_graph_from_file` -/
def importString (s : Store) (d : Doc κ) (g : Val) : Except String Val × Store :=
  match readDoc d with
  | none => (.error "import", s)
  | some G =>
    if G.nodes.isEmpty then (.error "import", s)       -- `if graph:` is false for an empty graph
    else match s.addGraph g G with
      | (.ok _, s') => (.ok g, s')
      | (.error e, s') => (.error e, s')

/-- `import_graph_from_string_direct` and `import_graph_from_file_direct` -/
def importDirect (s : Store) (d : Doc κ) : Except String Val × Store :=
  match getGraphId d with
  | .error e => (.error e, s)
  | .ok g =>
    match readDoc d with
    | none => (.error "import", s)
    | some G => (.ok g, s.addGraphDirect g G)

end

/-- `serialize_graph(format)` : `None` when the graph is not in the store -/
def serialize (s : Store) (g : Val) (f : Fmt) : Except String (Option (Doc Nat)) :=
  match s.extract g with
  | none => .ok none
  | some G =>
    match f with
    | .graphml =>
      match toGraphML G with
      | .error e => .error e
      | .ok d =>
        match toNeo4j d with
        | .error e => .error e
        | .ok d' => .ok (some (.graphml d'))
    | .json => .ok (some (.json (toJSON G)))

/-! ## `validate_graph` (shared store)

`names` is `JSON_PROPERTY_NAMES` (read from the repo on every run), `jsonOk` stands for
"`json.loads` succeeds" (CPython, not modelled). -/

/-- `for f in l: check(f)` stopping at the first exception -/
def forE {α : Type} (f : α → Except String Unit) : List α → Except String Unit
  | [] => .ok ()
  | a :: t =>
    match f a with
    | .error e => .error e
    | .ok _ => forE f t

/-- `x is None` -/
def Val.isNone : Val → Bool
  | .other d => d == "null"
  | _ => false

/-- one iteration of the loop in `_validate_json_property` (`props` = node attributes minus `Class`) -/
def checkJsonProp (jsonOk : String → Bool) (a : Attrs) (name : String) : Except String Unit :=
  if name = "Class" then .ok ()
  else match a.get? name with
    | none => .ok ()
    | some (.str t) => if t = "" || t = "None" then .ok () else if jsonOk t then .ok () else .error "import"
    | some (.other d) => if d = "null" || d = "[]" || d = "{}" then .ok () else .error "type"
    | some _ => .error "type"                          -- len(int)

/-- `_find_node` -/
def findNode (s : Store) (g nid : Val) : Except String SNode :=
  match (s.graphNodes g).filter (fun n => n.attrs.get? "NodeID" == some nid) with
  | [] => .error "query"
  | [n] => .ok n
  | _ => .error "query"

/-- the body of the loop of `_validate_all_json_properties` for the stored node `n` -/
def checkNode (names : List String) (jsonOk : String → Bool) (s : Store) (g : Val) (n : SNode) : Except String Unit :=
  match n.attrs.get? "NodeID" with
  | none => .error "key"
  | some nid =>
    match findNode s g nid with
    | .error e => .error e
    | .ok m =>
      if (m.attrs.get? "Class").isNone then .error "key"     -- node_props.pop('Class')
      else forE (checkJsonProp jsonOk m.attrs) names

def hasClass (a : Attrs) : Bool :=
  match a.get? "Class" with
  | none => false
  | some v => !v.isNone

/-- `NetworkXPropertyGraph.validate_graph()` : JSON properties of the graph's nodes, then `Class`
    on *every node and edge of the store* (`get_graph` ignores the graph id) -/
def validate (names : List String) (jsonOk : String → Bool) (s : Store) (g : Val) : Except String Unit :=
  if (s.graphNodes g).isEmpty then .error "query"
  else
    match forE (checkNode names jsonOk s g) (s.graphNodes g) with
    | .error e => .error e
    | .ok _ =>
      if s.nodes.all (fun n => hasClass n.attrs) && s.edges.all (fun e => hasClass e.attrs) then .ok ()
      else .error "import"

/-! ## The disjoint store (`NetworkXGraphStorageDisjoint`)

`graphs` is a `defaultdict(nx.Graph)` (reading an unknown id creates an empty graph), node ids
restart at 1 in every graph, `graph_node_ids` is a second `defaultdict`. -/

structure DStore where
  graphs : List (Val × Graph Nat)
  counters : List (Val × Nat)
  deriving DecidableEq, Repr

namespace DStore

def empty : DStore := ⟨[], []⟩

/-- `d[k] = v` -/
def put {β : Type} : List (Val × β) → Val → β → List (Val × β)
  | [], k, v => [(k, v)]
  | (k', v') :: t, k, v => if k' = k then (k, v) :: t else (k', v') :: put t k v

/-- `G.copy()` : nodes in order, edges re-inserted in adjacency-iteration order -/
def copyGraph (G : Graph Nat) : Graph Nat := { nodes := G.nodes, edges := G.edgesIter }

/-- `extract_graph` : `self.graphs[graph_id].copy()`; an unknown id leaves an empty graph behind -/
def extract (s : DStore) (g : Val) : Graph Nat × DStore :=
  match s.graphs.lookup g with
  | some G => (copyGraph G, s)
  | none => (⟨[], []⟩, { s with graphs := s.graphs ++ [(g, ⟨[], []⟩)] })

/-- `add_graph` : skipped when a non-empty graph of that id is present; the NodeID check comes
    before any assignment -/
def addGraph {κ : Type} [DecidableEq κ] (s : DStore) (g : Val) (G : Graph κ) : Except String Unit × DStore :=
  match s.graphs.lookup g with
  | some old => if !old.nodes.isEmpty then (.ok (), s) else go
  | none => go
where
  go : Except String Unit × DStore :=
    let T := Store.relabelFrom G (Gen.Serial.disjointFirstLabel.eval 0)
    if T.nodes.all (fun p => ((p.2.get? "NodeID").map Val.truthy).getD false) then
      let T' : Graph Nat := { nodes := T.nodes.map fun p => (p.1, p.2.set "GraphID" g), edges := T.edges }
      (.ok (), { graphs := put s.graphs g { nodes := T'.nodes, edges := T'.edgesIter },
                 counters := put s.counters g (T'.nodes.length + 1) })
    else (.error "import", s)

/-- `add_graph_direct` : the relabelled graph object itself is stored -/
def addGraphDirect {κ : Type} [DecidableEq κ] (s : DStore) (g : Val) (G : Graph κ) : DStore :=
  let T := Store.relabelFrom G (Gen.Serial.disjointFirstLabel.eval 0)
  { graphs := put s.graphs g T, counters := put s.counters g (T.nodes.length + 1) }

end DStore

section
variable {κ : Type} [DecidableEq κ]

def dImportString (s : DStore) (d : Doc κ) (g : Val) : Except String Val × DStore :=
  match readDoc d with
  | none => (.error "import", s)
  | some G =>
    if G.nodes.isEmpty then (.error "import", s)
    else match s.addGraph g G with
      | (.ok _, s') => (.ok g, s')
      | (.error e, s') => (.error e, s')

def dImportDirect (s : DStore) (d : Doc κ) : Except String Val × DStore :=
  match getGraphId d with
  | .error e => (.error e, s)
  | .ok g =>
    match readDoc d with
    | none => (.error "import", s)
    | some G => (.ok g, s.addGraphDirect g G)

end

/-- the document `serialize_graph` emits for an extracted graph (never `None` here) -/
def serializeGraph (G : Graph Nat) (f : Fmt) : Except String (Doc Nat) :=
  match f with
  | .graphml =>
    match toGraphML G with
    | .error e => .error e
    | .ok d =>
      match toNeo4j d with
      | .error e => .error e
      | .ok d' => .ok (.graphml d')
  | .json => .ok (.json (toJSON G))

/-- `serialize_graph` on the disjoint store (the extraction may create an empty entry) -/
def dSerialize (s : DStore) (g : Val) (f : Fmt) : Except String (Doc Nat) × DStore :=
  let (G, s') := s.extract g
  (serializeGraph G f, s')

end FimVerif.GraphML
