/-!
# Removal and disconnection (C08)

An abstract containment graph — elements with a class, a kind and an opaque property payload,
undirected `has` / `connects` edges — and the removal operations of
`fim/graph/abc_property_graph.py` and `fim/user/{topology,node,network_service,interface}.py`
*as the code performs them*: sequential `delete_node` calls interleaved with neighbour queries on the
current graph.  No Mathlib.  The declarative `owned` set lives in `Proofs/Lemmas/C08Spec.lean`.

What is mirrored (function by function):

* `delete_node`                                               → `delNode`
* `get_first_neighbor(node, rel, label)`                      → `G.nbrs`
* `remove_cp_and_links(node_id, delete_parent)`               → `cpDel`, `removeCp`
* `remove_ns_with_cps_and_links`                              → `removeNs`
* `remove_component_with_nss_cps_and_links`                   → `removeComp`
* `remove_network_node_with_components_nss_cps_and_links`     → `removeNodeG`
* `remove_network_link`                                       → `removeLinkG`
* `Node.interface_list`, `Component.interface_list`           → `ifaceListNode`, `ifaceListComp`
* `Interface.get_peers(itype=ServicePort)`                    → `spPeers`
* `NetworkService.disconnect_interface`                       → `disconnect`
* `Topology.remove_node / remove_facility / remove_switch`    → `removeNodeApi`, `removeFacilityApi`, `removeSwitchApi`
* `Node.remove_component`                                     → `removeComponentApi`
* `NetworkService.unpeer`                                     → `unpeer`
* `Topology._disconnect_interfaces`                           → `disconnectDeep`
* `Topology/Node.remove_network_service`, `Topology.remove_link` → `removeNsApi`, `removeLinkApi`
* `Interface.remove_child_interface`                          → `removeChild`
* `ExperimentTopology.prune` (deletion phase)                 → `prune`
-/
namespace FimVerif.Remove

inductive Cls | node | comp | ns | cp | link
  deriving DecidableEq, Repr

inductive Rel | has | connects
  deriving DecidableEq, Repr

/-- error kinds on the wire (`core.err_kind`) -/
inductive Err | query | topology | assertion
  deriving DecidableEq, Repr

/-- kinds that the removal code looks at (the `Type` property) -/
def kServicePort : Nat := 1
def kFacility : Nat := 2
def kSwitch : Nat := 3
def kDedicatedPort : Nat := 4

/-- a graph node: `props` stands for every other property of the element (never inspected) -/
structure Elem where
  id : Nat
  cls : Cls
  kind : Nat
  props : String
  deriving DecidableEq, Repr

structure Edge where
  a : Nat
  b : Nat
  rel : Rel
  props : String
  deriving DecidableEq, Repr

structure G where
  nodes : List Elem
  edges : List Edge
  deriving DecidableEq, Repr

def G.find (g : G) (x : Nat) : Option Elem := g.nodes.find? (fun n => n.id == x)
def G.has (g : G) (x : Nat) : Bool := (g.find x).isSome
def G.cls? (g : G) (x : Nat) : Option Cls := (g.find x).map (·.cls)
def G.kind? (g : G) (x : Nat) : Option Nat := (g.find x).map (·.kind)

/-- the other end of `e` seen from `x` along relation `r` -/
def Edge.other (e : Edge) (x : Nat) (r : Rel) : Option Nat :=
  if e.rel = r then (if e.a = x then some e.b else if e.b = x then some e.a else none) else none

/-- `get_first_neighbor(node_id=x, rel=r, node_label=c)` -/
def G.nbrs (g : G) (x : Nat) (r : Rel) (c : Cls) : List Nat :=
  (g.edges.filterMap (fun e => e.other x r)).filter (fun y => g.cls? y == some c)

/-- the graph without the elements of `D` and without every edge touching them -/
def G.minus (g : G) (D : List Nat) : G :=
  { nodes := g.nodes.filter (fun n => !D.contains n.id),
    edges := g.edges.filter (fun e => !D.contains e.a && !D.contains e.b) }

/-- `delete_node` (`_find_node` raises when the node is absent) -/
def delNode (g : G) (x : Nat) : Except Err G :=
  if g.has x then .ok (g.minus [x]) else .error .query

/-- `for deleted_id in ids: self.delete_node(node_id=deleted_id)` -/
def deleteAll (g : G) (ids : List Nat) : Except Err G := ids.foldlM delNode g

/-- a Python `set` built from a list: first occurrences -/
def dedup : List Nat → List Nat
  | [] => []
  | x :: xs => if xs.contains x then dedup xs else x :: dedup xs

/-- `interfaces_to_delete` of `remove_cp_and_links`: the interface and, with `delete_parent`, every
connection-point neighbour that has no other connection-point neighbour -/
def cpFamily (g : G) (x : Nat) (dp : Bool) : List Nat :=
  x :: (g.nbrs x .connects .cp).filter (fun p => (g.nbrs p .connects .cp).length == 1 && dp)

/-- `links_to_delete`: links of those interfaces that join exactly two connection points -/
def cpLinks (g : G) (fam : List Nat) : List Nat :=
  fam.flatMap (fun i => (g.nbrs i .connects .link).filter (fun l => (g.nbrs l .connects .cp).length == 2))

def cpDel (g : G) (x : Nat) (dp : Bool) : List Nat :=
  let fam := cpFamily g x dp
  dedup (fam ++ cpLinks g fam)

/-- `remove_cp_and_links` -/
def removeCp (g : G) (x : Nat) (dp : Bool) : Except Err G :=
  if g.has x then deleteAll g (cpDel g x dp) else .error .query

/-- `remove_ns_with_cps_and_links` -/
def removeNs (g : G) (x : Nat) : Except Err G :=
  if g.cls? x == some .ns then
    (g.nbrs x .connects .cp).foldlM (fun g i => removeCp g i true) (g.minus [x])
  else .error .query

/-- `remove_component_with_nss_cps_and_links` -/
def removeComp (g : G) (x : Nat) : Except Err G :=
  if g.cls? x == some .comp then
    (g.nbrs x .has .ns).foldlM removeNs (g.minus [x])
  else .error .query

/-- `remove_network_node_with_components_nss_cps_and_links` -/
def removeNodeG (g : G) (x : Nat) : Except Err G :=
  if g.cls? x == some .node then do
    let g1 ← (g.nbrs x .has .comp).foldlM removeComp g
    (g1.nbrs x .has .ns).foldlM removeNs (g1.minus [x])
  else .error .query

/-- `remove_network_link` -/
def removeLinkG (g : G) (x : Nat) : Except Err G :=
  if g.cls? x == some .link then .ok (g.minus [x]) else .error .query

/-- `get_all_node_or_component_connection_points(parent)` -/
def directIfs (g : G) (p : Nat) : List Nat :=
  (g.nbrs p .has .ns).flatMap (fun s => g.nbrs s .connects .cp)

/-- `Component.interface_list` -/
def ifaceListComp (g : G) (c : Nat) : List Nat := directIfs g c

/-- `Node.interface_list`: direct interfaces, then the interfaces of every component -/
def ifaceListNode (g : G) (n : Nat) : List Nat :=
  directIfs g n ++ (g.nbrs n .has .comp).flatMap (fun c => directIfs g c)

/-- `find_peer_connection_points`: connection points across a link, the interface itself excluded -/
def peers (g : G) (i : Nat) : List Nat :=
  (g.nbrs i .connects .link).flatMap (fun l => (g.nbrs l .connects .cp).filter (fun p => p != i))

/-- `Interface.get_peers(itype=InterfaceType.ServicePort)` -/
def spPeers (g : G) (i : Nat) : List Nat := (peers g i).filter (fun p => g.kind? p == some kServicePort)

/-- an `Interface` object in a handle's cached `_interfaces` list: node id and name (names need not be distinct:
two sub-interfaces `v100` on different ports of node `n1` both give a service port named `n1-v100`) -/
structure IfH where
  id : Nat
  name : Nat
  deriving DecidableEq, Repr

/-- node ids listed by a handle -/
def hIds (h : List IfH) : List Nat := h.map (·.id)

/-- `list(filter(lambda x: x.node_id != p, self._interfaces))` — keyed by node id, not by name -/
def hDrop (h : List IfH) (p : Nat) : List IfH := h.filter (fun x => x.id != p)

/-- `NetworkService.disconnect_interface` on the graph; returns the removed port, if any -/
def disconnectG (g : G) (i : Nat) : Except Err (G × Option Nat) :=
  if g.has i then
    match spPeers g i with
    | [] => .ok (g, none)
    | [p] => (removeCp g p true).map (fun g' => (g', some p))
    | _ => .error .topology
  else .error .query

/-- with the handle's cached interface list -/
def disconnect (g : G) (h : List IfH) (i : Nat) : Except Err (G × List IfH) :=
  (disconnectG g i).map (fun r => (r.1, match r.2 with | some p => hDrop h p | none => h))

/-- body of the loop `for i in interface_list: peers = i.get_peers(ServicePort); ... get_parent_element(peers[0]).disconnect_interface(i)` -/
def disconnectStep (g : G) (i : Nat) : Except Err G :=
  match spPeers g i with
  | [] => .ok g
  | [p] =>
    -- get_parent_element(ServicePort): exactly one NetworkService neighbour, else TopologyException
    if (g.nbrs p .connects .ns).length == 1 then (disconnectG g i).map (·.1) else .error .topology
  | _ => .error .topology

def disconnectAll (g : G) (ifs : List Nat) : Except Err G := ifs.foldlM disconnectStep g

/-- the interface and, for a DedicatedPort handle, its sub-interfaces: `(i, *i.interface_list)` -/
def withSubs (g : G) (i : Nat) : List Nat :=
  i :: (if g.kind? i == some kDedicatedPort then g.nbrs i .connects .cp else [])

/-- `Topology._disconnect_interfaces(interfaces)`: the handles (with their sub-interface lists) exist before the loop starts -/
def disconnectDeep (g : G) (ifs : List Nat) : Except Err G := disconnectAll g (ifs.flatMap (withSubs g))

/-- `Topology.remove_node(name)` (name already resolved to the element) -/
def removeNodeApi (g : G) (n : Nat) : Except Err G :=
  if g.cls? n == some .node && g.kind? n != some kFacility then do
    let g1 ← disconnectDeep g (ifaceListNode g n)
    removeNodeG g1 n
  else .error .topology

/-- `Topology.remove_facility(name=)` -/
def removeFacilityApi (g : G) (n : Nat) : Except Err G :=
  if g.cls? n == some .node && g.kind? n == some kFacility then do
    let g1 ← disconnectDeep g (ifaceListNode g n)
    removeNodeG g1 n
  else .error .topology

/-- `Topology.remove_switch(name=)` -/
def removeSwitchApi (g : G) (n : Nat) : Except Err G :=
  if g.cls? n == some .node && g.kind? n == some kSwitch then removeNodeApi g n else .error .topology

/-- `Node.remove_component(name)` -/
def removeComponentApi (g : G) (c : Nat) : Except Err G := do
  if g.cls? c == some .comp then
    let g1 ← disconnectDeep g (ifaceListComp g c)
    removeComp g1 c
  else .error .query

/-- `Topology.remove_network_service(name)` / `Node.remove_network_service(name)`: the service's own interfaces are
disconnected from the services they are connected to or peered with, then `remove_ns_with_cps_and_links` -/
def removeNsApi (g : G) (s : Nat) : Except Err G :=
  if g.cls? s == some .ns then do
    let g1 ← disconnectDeep g (g.nbrs s .connects .cp)
    removeNs g1 s
  else .error .query

/-- `Topology.remove_link(name)`: the link, then the ServicePorts it peered -/
def removeLinkApi (g : G) (l : Nat) : Except Err G :=
  if g.cls? l == some .link then
    ((g.nbrs l .connects .cp).filter (fun p => g.kind? p == some kServicePort)).foldlM
      (fun g p => removeCp g p true) (g.minus [l])
  else .error .query

/-- `Interface.remove_child_interface(name=)` through parent handle `h` (child already resolved) -/
def removeChild (g : G) (h : List IfH) (p c : Nat) : Except Err (G × List IfH) :=
  if g.kind? p == some kDedicatedPort then do
    let g1 ← disconnectDeep g [c]
    (removeCp g1 c false).map (fun g' => (g', hDrop h c))
  else .error .assertion

/-- the peering search of `unpeer`: first ServicePort of the caller's list with a ServicePort peer in the other list -/
def findPeering (g : G) (ha hb : List IfH) : Option (Nat × Nat) :=
  (hIds ha).findSome? (fun i =>
    if g.kind? i == some kServicePort then
      ((spPeers g i).find? (fun p => (hIds hb).contains p)).map (fun p => (i, p))
    else none)

/-- `NetworkService.unpeer(ns)` with both handles' interface lists -/
def unpeer (g : G) (ha hb : List IfH) : Except Err (G × List IfH × List IfH) :=
  match findPeering g ha hb with
  | none => .error .topology
  | some (i, p) => do
    let g1 ← removeCp g i true
    let g2 ← removeCp g1 p true
    .ok (g2, hDrop ha i, hDrop hb p)

/-- deletion phase of `ExperimentTopology.prune` (the sets collected by the traversal are arguments) -/
def prune (g : G) (nodes comps nss ifs : List Nat) : Except Err G := do
  let g1 ← nodes.foldlM removeNodeApi g
  let g2 ← comps.foldlM (fun g c => if g.has c then removeComponentApi g c else .ok g) g1
  let g3 ← nss.foldlM (fun g s => if g.has s then removeNsApi g s else .ok g) g2
  ifs.foldlM (fun g i => if g.has i then (disconnectDeep g [i]).bind (fun g1 => removeCp g1 i true) else .ok g) g3

/-- a fresh `NetworkService` / `Link` handle: `get_all_ns_or_link_connection_points` -/
def freshIfs (g : G) (s : Nat) : List Nat := g.nbrs s .connects .cp

end FimVerif.Remove
