import FimVerif.Generated.CapOps
/-!
# Capacities (C15)

`Cap` is a capacity value: a total function from field name to `Int` (the instance
`__dict__`), of which only the names in `Gen.CapOps.fields` are observable.  The
fieldwise operators are *generated* from the AST of the Python methods
(`FimVerif/Generated/CapOps.lean`); this file only lifts them over the field list,
the way each Python method loops over `self.__dict__.items()`.
-/
namespace FimVerif.Cap
open FimVerif.Gen.CapOps

abbrev Cap := String → Int

/-- `Capacities()` -/
def zero : Cap := fun _ => 0

/-- `__add__` -/
def add (x y : Cap) : Cap := fun f => addOp (x f) (y f)
/-- `__sub__` -/
def sub (x y : Cap) : Cap := fun f => subOp (x f) (y f)
/-- `__gt__` (the loop returns False at the first failing field) -/
def gt (x y : Cap) : Bool := fields.all fun f => !gtFail (x f) (y f)
/-- `__lt__` -/
def lt (x y : Cap) : Bool := fields.all fun f => !ltFail (x f) (y f)
/-- `__eq__` -/
def eq (x y : Cap) : Bool := fields.all fun f => !eqFail (x f) (y f)
/-- `negative_fields` -/
def negativeFields (x : Cap) : List String := fields.filter fun f => negField (x f)
/-- `positive_fields(fs)` -/
def positiveFields (x : Cap) (fs : List String) : Bool := fs.all fun f => !posFail (x f)
/-- `FreeCapacity(total=, allocated=).free` -/
def free (total alloc : Cap) : Cap := fun f => freeOp (total f) (alloc f)

/-- Python's operator methods that would change how `+ - < > ==` and their augmented / reflected / total-ordering
forms behave if the class defined them.  `a += b` calls `__iadd__` when it exists and otherwise rebinds `a` to
`a.__add__(b)`; `__le__`/`__ge__`/`__ne__`/`__bool__`/`__hash__` would change comparisons and truthiness. -/
def operatorHooks : List String :=
  ["__iadd__", "__isub__", "__imul__", "__radd__", "__rsub__", "__neg__", "__pos__", "__abs__",
   "__le__", "__ge__", "__ne__", "__bool__", "__len__", "__hash__", "__setattr__", "__getattr__",
   "__getattribute__", "__delattr__", "__copy__", "__deepcopy__"]

/-- `x += y` / `x -= y`: result = (what the name is bound to afterwards, the object that was bound before, afterwards).
The translator probes the real objects (`iaddInPlace` / `isubInPlace`): without an in-place operator the name is rebound to a
NEW value and the old object keeps its value; an in-place operator would change the old object itself. -/
def augAdd (x y : Cap) : Cap × Cap := if iaddInPlace then (add x y, add x y) else (add x y, x)
def augSub (x y : Cap) : Cap × Cap := if isubInPlace then (sub x y, sub x y) else (sub x y, x)

/-! ### objects and references

Python variables hold references.  A *state* is a store of capacity objects (object id = position, objects are never freed
while the program runs) and an environment binding each variable to an object id.  A *program* is a sequence of the statements
through which capacities are combined: `d = x + y`, `d = x - y`, `x += y`, `x -= y`, `d = FreeCapacity(total=t, allocated=a).free`
and plain aliasing `d = x`.  (Comparisons, `negative_fields`, `str` have no effect on the state.) -/

structure St where
  heap : List Cap
  env : List Nat

inductive Stmt where
  | bin (isAdd : Bool) (d x y : Nat)
  | aug (isAdd : Bool) (x y : Nat)
  | free (d t a : Nat)
  | alias (d x : Nat)
deriving Repr, DecidableEq

def St.obj (s : St) (v : Nat) : Nat := s.env.getD v 0
def St.val (s : St) (v : Nat) : Cap := s.heap.getD (s.obj v) zero

/-- allocate a new object and bind variable `d` to it -/
def St.bindNew (s : St) (d : Nat) (c : Cap) : St := { heap := s.heap ++ [c], env := s.env.set d s.heap.length }

def step (s : St) : Stmt → St
  | .bin isAdd d x y => s.bindNew d (if isAdd then add (s.val x) (s.val y) else sub (s.val x) (s.val y))
  | .aug isAdd x y =>
    let c := if isAdd then add (s.val x) (s.val y) else sub (s.val x) (s.val y)
    if (if isAdd then iaddInPlace else isubInPlace) then { s with heap := s.heap.set (s.obj x) c } else s.bindNew x c
  | .free d t a => s.bindNew d (free (s.val t) (s.val a))
  | .alias d x => { s with env := s.env.set d (s.obj x) }

def run (p : List Stmt) (s : St) : St := p.foldl step s

/-- the variable a statement (re)binds to its result: `d = x ± y`, `x ±= y`, `d = FreeCapacity(total=t, allocated=a).free`;
plain aliasing `d = x` has no result object -/
def resultVar : Stmt → Option Nat
  | .bin _ d _ _ => some d
  | .aug _ x _ => some x
  | .free d _ _ => some d
  | .alias _ _ => none

/-- observable content: the values in field order -/
def toList (x : Cap) : List Int := fields.map x

/-- build from values in field order (missing = 0) -/
def ofList (vs : List Int) : Cap := fun f =>
  match (fields.zip vs).find? (fun p => p.1 == f) with
  | some p => p.2
  | none => 0

/-! ### objects that lack fields (restored from a pickle written by an older release)

Unpickling restores `__dict__` as it was saved and does not run `__init__`: an object stored before a field was introduced
comes back WITHOUT that field.  `__eq__` is the one method that caters for it: it loops over the LEFT operand's own
`__dict__` and reads the other side with `other.__dict__.get(f, <default>)`.  `PCap` = which of the class's fields the
object carries + the values; the default the other side is read with is *probed on the real method* by the translator
(`Gen.CapOps.eqMissing`: `some d` = a missing field reads as the int `d`; `none` = it reads as something no int equals,
e.g. Python's `None`). -/

structure PCap where
  has : String → Bool
  val : Cap

/-- a current object: every field present -/
def PCap.full (c : Cap) : PCap := { has := fun _ => true, val := c }

/-- what `other.__dict__.get(f, default)` gives -/
def PCap.read (y : PCap) (f : String) : Option Int := if y.has f then some (y.val f) else eqMissing

/-- `__eq__` between objects either of which may lack fields: the loop runs over the fields the LEFT operand carries -/
def eqD (x y : PCap) : Bool :=
  (fields.filter x.has).all fun f =>
    match y.read f with
    | some w => !eqFail (x.val f) w
    | none => false

/-- the value an object stands for when "a field an old object does not carry counts as 0" -/
def PCap.value (x : PCap) : Cap := fun f => if x.has f then x.val f else 0

/-- build from values in field order + presence flags in field order (missing flag = present) -/
def PCap.ofLists (vs : List Int) (ms : List Bool) : PCap :=
  { has := fun f => match (fields.zip ms).find? (fun p => p.1 == f) with
                    | some p => p.2
                    | none => true,
    val := ofList vs }

/-! ### `__str__` : `"{ cpu: 1 , ram: 1,000 G}"`-style rendering with thousands separators -/

def groupDigits (ds : List Char) : List Char :=
  -- ds are the decimal digits, most significant first; insert ',' every three from the right
  let n := ds.length
  (ds.zipIdx.foldr (fun (c, i) acc =>
      let fromRight := n - 1 - i
      if fromRight % 3 == 0 && fromRight != 0 then c :: ',' :: acc else c :: acc) [])

def fmtComma (v : Int) : String :=
  let s := String.ofList (groupDigits (toString v.natAbs).toList)
  if v < 0 then "-" ++ s else s

def unitOf (f : String) : String :=
  match units.find? (fun p => p.1 == f) with
  | some p => p.2
  | none => ""

def toStr (x : Cap) : String :=
  let fs := fields.filter fun f => x f != 0
  if fs.isEmpty then "" else
  let body := String.join (fs.map fun f => f ++ ": " ++ fmtComma (x f) ++ " " ++ unitOf f ++ ", ")
  "{ " ++ (body.dropEnd 2).toString ++ "}"

end FimVerif.Cap
