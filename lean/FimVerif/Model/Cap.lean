import FimVerif.Generated.CapOps
/-!
# Capacities (C15)

`Cap` is a capacity value: a total function from field name to `Int` (the instance
`__dict__`), of which only the names in `Gen.CapOps.fields` are observable.  The
fieldwise operators are *generated* from the AST of the Python methods
(`FimVerif/Generated/CapOps.lean`); this file only lifts them over the field list,
the way each Python method loops over `self.__dict__.items()`.
-/
namespace FimVerif.Cap
open FimVerif.Gen.CapOps

abbrev Cap := String → Int

/-- `Capacities()` -/
def zero : Cap := fun _ => 0

/-- `__add__` -/
def add (x y : Cap) : Cap := fun f => addOp (x f) (y f)
/-- `__sub__` -/
def sub (x y : Cap) : Cap := fun f => subOp (x f) (y f)
/-- `__gt__` (the loop returns False at the first failing field) -/
def gt (x y : Cap) : Bool := fields.all fun f => !gtFail (x f) (y f)
/-- `__lt__` -/
def lt (x y : Cap) : Bool := fields.all fun f => !ltFail (x f) (y f)
/-- `__eq__` -/
def eq (x y : Cap) : Bool := fields.all fun f => !eqFail (x f) (y f)
/-- `negative_fields` -/
def negativeFields (x : Cap) : List String := fields.filter fun f => negField (x f)
/-- `positive_fields(fs)` -/
def positiveFields (x : Cap) (fs : List String) : Bool := fs.all fun f => !posFail (x f)
/-- `FreeCapacity(total=, allocated=).free` -/
def free (total alloc : Cap) : Cap := fun f => freeOp (total f) (alloc f)

/-- Python's operator methods that would change how `+ - < > ==` and their augmented / reflected / total-ordering
forms behave if the class defined them.  `a += b` calls `__iadd__` when it exists and otherwise rebinds `a` to
`a.__add__(b)`; `__le__`/`__ge__`/`__ne__`/`__bool__`/`__hash__` would change comparisons and truthiness. -/
def operatorHooks : List String :=
  ["__iadd__", "__isub__", "__imul__", "__radd__", "__rsub__", "__neg__", "__pos__", "__abs__",
   "__le__", "__ge__", "__ne__", "__bool__", "__len__", "__hash__", "__setattr__", "__getattr__",
   "__getattribute__", "__delattr__", "__copy__", "__deepcopy__"]

/-- `x += y` / `x -= y` on a class without in-place operators: the name is rebound to a NEW value and the object
that was bound before (the operand) keeps its value.  Result = (new binding, old object afterwards). -/
def augAdd (x y : Cap) : Cap × Cap := (add x y, x)
def augSub (x y : Cap) : Cap × Cap := (sub x y, x)

/-- observable content: the values in field order -/
def toList (x : Cap) : List Int := fields.map x

/-- build from values in field order (missing = 0) -/
def ofList (vs : List Int) : Cap := fun f =>
  match (fields.zip vs).find? (fun p => p.1 == f) with
  | some p => p.2
  | none => 0

/-! ### `__str__` : `"{ cpu: 1 , ram: 1,000 G}"`-style rendering with thousands separators -/

def groupDigits (ds : List Char) : List Char :=
  -- ds are the decimal digits, most significant first; insert ',' every three from the right
  let n := ds.length
  (ds.zipIdx.foldr (fun (c, i) acc =>
      let fromRight := n - 1 - i
      if fromRight % 3 == 0 && fromRight != 0 then c :: ',' :: acc else c :: acc) [])

def fmtComma (v : Int) : String :=
  let s := String.ofList (groupDigits (toString v.natAbs).toList)
  if v < 0 then "-" ++ s else s

def unitOf (f : String) : String :=
  match units.find? (fun p => p.1 == f) with
  | some p => p.2
  | none => ""

def toStr (x : Cap) : String :=
  let fs := fields.filter fun f => x f != 0
  if fs.isEmpty then "" else
  let body := String.join (fs.map fun f => f ++ ": " ++ fmtComma (x f) ++ " " ++ unitOf f ++ ", ")
  "{ " ++ (body.dropEnd 2).toString ++ "}"

end FimVerif.Cap
