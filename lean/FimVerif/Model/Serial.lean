import FimVerif.Model.GraphML
import FimVerif.Generated.Serial
/-!
# C01 — the Topology-level entry points (`Topology.load`, constructors, `clone_graph`, `delete_graph`)

`load` is *interpreted from the load plan the translator reads out of /repo on every run*
(`Gen.Serial.topologyLoad` / `advertizedLoad`): which importer entry point each argument shape
reaches and the program order of the store- / topology-affecting statements. The meaning of the
individual steps (what an import does to the store, what `delete_graph` removes) is the
hand-written model of `Model/GraphML.lean`, tied to the code by the correspondence.
Both store flavours are covered through `StoreOps`. No Mathlib.
-/
namespace FimVerif.Serial
open FimVerif.GraphML FimVerif.SerialSpec

/-! ## the disjoint store's `del_graph` -/

/-- `del_graph` of `NetworkXGraphStorageDisjoint`: `if len(self.graphs[g].nodes) > 0: self.graphs[g].clear()`;
    reading the defaultdict creates an empty entry for an unknown id, the counter is kept -/
def dDelGraph (s : DStore) (g : Val) : DStore :=
  match s.graphs.lookup g with
  | some _ => { s with graphs := DStore.put s.graphs g ⟨[], []⟩ }
  | none => { s with graphs := s.graphs ++ [(g, ⟨[], []⟩)] }

/-! ## what `load` needs from a store flavour -/

structure StoreOps (σ κ : Type) where
  importDirect : σ → Doc κ → Except String Val × σ
  importString : σ → Doc κ → Val → Except String Val × σ
  delGraph : σ → Val → σ

def sharedOps {κ : Type} [DecidableEq κ] : StoreOps Store κ := ⟨importDirect, importString, Store.delGraph⟩
def disjointOps {κ : Type} [DecidableEq κ] : StoreOps DStore κ := ⟨dImportDirect, dImportString, dDelGraph⟩

/-- the argument shape of a `load` call (a constructor passes `graph_file` / `graph_string` on) -/
inductive Shape
  | file | string | stringNewId
  deriving DecidableEq, Repr

def _root_.FimVerif.SerialSpec.LoadSpec.entry (sp : LoadSpec) : Shape → Option Entry
  | .file => sp.onFile
  | .string => sp.onString
  | .stringNewId => sp.onStringNewId

/-- the state a `load` call works on: the store, the graph id `self.graph_model` holds, the locals -/
structure LState (σ : Type) where
  store : σ
  held : Val
  remembered : Option Val
  imported : Option Val

def LState.pick {σ : Type} (st : LState σ) : Which → Option Val
  | .held => some st.held
  | .remembered => st.remembered
  | .imported => st.imported

section
variable {σ κ : Type}

/-- one statement of `load`; an exception leaves the state as it is at that point -/
def stepLoad (ops : StoreOps σ κ) (entry : Entry) (doc : Doc κ) (newId : Val) (st : LState σ) :
    LoadStep → Except String Unit × LState σ
  | .importDoc =>
    let r := if entry.direct then ops.importDirect st.store doc else ops.importString st.store doc newId
    match r with
    | (.ok g, s') => (.ok (), { st with store := s', imported := some g })
    | (.error e, s') => (.error e, { st with store := s' })
  | .rebind =>
    match st.imported with
    | some g => (.ok (), { st with held := g })
    | none => (.error "unbound", st)
  | .remember => (.ok (), { st with remembered := some st.held })
  | .delete w onlyIfIdsDiffer =>
    match st.pick w with
    | none => (.error "unbound", st)
    | some id =>
      if onlyIfIdsDiffer then
        match st.imported with
        | none => (.error "unbound", st)
        | some g => if id = g then (.ok (), st) else (.ok (), { st with store := ops.delGraph st.store id })
      else (.ok (), { st with store := ops.delGraph st.store id })

def runSteps (ops : StoreOps σ κ) (entry : Entry) (doc : Doc κ) (newId : Val) :
    List LoadStep → LState σ → Except String Unit × LState σ
  | [], st => (.ok (), st)
  | step :: rest, st =>
    match stepLoad ops entry doc newId st step with
    | (.ok _, st') => runSteps ops entry doc newId rest st'
    | (.error e, st') => (.error e, st')

/-- `t.load(...)` on a topology holding graph id `held`: result (the id held afterwards, or the
    exception), the store, the id held afterwards (unchanged when the call raised before rebinding) -/
def load (ops : StoreOps σ κ) (sp : LoadSpec) (s : σ) (held : Val) (shape : Shape) (doc : Doc κ) (newId : Val) :
    Except String Val × σ × Val :=
  match sp.entry shape with
  | none => (.error "type", s, held)          -- the method has no such parameter
  | some entry =>
    match runSteps ops entry doc newId sp.steps ⟨s, held, none, none⟩ with
    | (.ok _, st) => (.ok st.held, st.store, st.held)
    | (.error e, st) => (.error e, st.store, st.held)

/-- `Topology(graph_file= / graph_string=, importer=)`: a fresh model id, then `load` when the
    constructor passes the text on; an exception means no object -/
def construct (ops : StoreOps σ κ) (sp : LoadSpec) (ctorLoads : Bool) (s : σ) (fresh : Val) (shape : Shape) (doc : Doc κ) :
    Except String Val × σ :=
  if ctorLoads then
    match load ops sp s fresh shape doc fresh with
    | (r, s', _) => (r, s')
  else (.ok fresh, s)

end

/-! ## `Topology.serialize`, `clone_graph`, `delete_graph` -/

/-- `Topology.serialize(file_name=…, fmt)`: the text is written with `f.write(graph_string)`; a model that is
    not in the (shared) store serializes to `None`, and writing `None` raises `TypeError`.
    `Topology.serialize(fmt)` without a file name is `serialize` itself. -/
def serializeToFile (s : Store) (g : Val) (f : Fmt) : Except String (Doc Nat) :=
  match serialize s g f with
  | .error e => .error e
  | .ok none => .error "type"
  | .ok (some d) => .ok d

/-- `NetworkXPropertyGraph.clone_graph(new_graph_id)`: `extract_graph(id).copy()` then `add_graph` -/
def cloneGraph (s : Store) (g newId : Val) : Except String Unit × Store :=
  match s.extract g with
  | none => (.error "attribute", s)              -- `None.copy()`
  | some G => s.addGraph newId (DStore.copyGraph G)

def dCloneGraph (s : DStore) (g newId : Val) : Except String Unit × DStore :=
  let (G, s1) := s.extract g
  s1.addGraph newId (DStore.copyGraph G)

/-- `ABCPropertyGraph.clone_graph` (what the persistent backend inherits): serialize, then
    `import_graph_from_string(graph_string, new_graph_id)` -/
def abcCloneGraph (s : Store) (g newId : Val) : Except String Val × Store :=
  match serialize s g .graphml with
  | .error e => (.error e, s)
  | .ok none => (.error "query", s)
  | .ok (some doc) => importString s doc newId

def dAbcCloneGraph (s : DStore) (g newId : Val) : Except String Val × DStore :=
  match dSerialize s g .graphml with
  | (.error e, s1) => (.error e, s1)
  | (.ok doc, s1) => dImportString s1 doc newId

/-! ## `validate_graph` on the disjoint store -/

/-- the disjoint store's graph as a one-graph store: what `get_graph(graph_id)` hands `validate_graph` -/
def storeOfGraph (G : Graph Nat) : Store := ⟨G.nodes.map fun p => ⟨p.1, p.2⟩, G.edges, 0⟩

/-- `NetworkXPropertyGraphDisjoint.validate_graph()`: the shared code run on `self.graphs[graph_id]`
    (reading the defaultdict creates an empty entry for an unknown id) -/
def dValidate (names : List String) (jsonOk : String → Bool) (s : DStore) (g : Val) : Except String Unit × DStore :=
  match s.graphs.lookup g with
  | some G => (validate names jsonOk (storeOfGraph G) g, s)
  | none => (validate names jsonOk (storeOfGraph ⟨[], []⟩) g, { s with graphs := s.graphs ++ [(g, ⟨[], []⟩)] })

/-! ## `enumerate_graph_nodes` / `enumerate_graph_nodes_to_string` (and `GraphML.nx_write_graphml`)

`nx.read_graphml(file)`, every node without a (non-empty) `NodeID` gets a fresh uuid, then the graph is written
again: to a file through `GraphML.nx_write_graphml` (`generate_graphml` + `networkx_to_neo4j`), or returned as the
bare `generate_graphml` text. Fresh uuids are outside the model: a document that needs one is reported as such. -/

/-- `(node_id_prop not in attrs) or len(attrs[node_id_prop]) == 0` -/
def needsNodeId (a : Attrs) : Except String Bool :=
  match a.get? "NodeID" with
  | none => .ok true
  | some (.str t) => .ok (t == "")
  | some (.other d) => if d == "null" then .error "type" else .ok (d == "[]" || d == "{}")
  | some _ => .error "type"                     -- len(int) / len(bool) / len(float)

/-- the loop body of `enumerate_graph_nodes` for a node that keeps its id (a fresh uuid is outside the model) -/
def keepsNodeId {κ : Type} (p : κ × Attrs) : Except String Unit :=
  match needsNodeId p.2 with
  | .error e => .error e
  | .ok true => .error "uuid"
  | .ok false => .ok ()

def enumerateDoc {κ : Type} [DecidableEq κ] (d : GDoc κ) (toFile : Bool) : Except String (GDoc κ) :=
  match fromGraphML d with
  | .error _ => .error "read"                  -- whatever read_graphml raises
  | .ok G =>
    match forE keepsNodeId G.nodes with
    | .error e => .error e
    | .ok _ =>
      match toGraphML G with
      | .error e => .error e
      | .ok d1 => if toFile then toNeo4j d1 else .ok d1

end FimVerif.Serial
