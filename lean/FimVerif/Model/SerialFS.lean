import FimVerif.Model.GraphML
import FimVerif.Generated.Serial
/-!
# C01 - the file entry points over a file system that is written more than once

`import_graph_from_file_direct(graph_file=p)` asks `ABCGraphImporter.get_graph_id(graph_file=p)` for the graph id and then reads
the file again.  A process writes a path many times (`Topology.serialize(file_name=p)` is `open(p, 'w')`), so what the two reads
return is the text written LAST.  Whether the id helper really reads the file on every call is an observation the translator makes
on the code (`Gen.Serial.graphIdFollowsFile`); the model carries the other behaviour as well (an answer remembered per file
name), so that the theorems say what depends on it.
-/
namespace FimVerif.GraphML

/-- the files of the process: `open(p, 'w').write(text)` puts a new content in front, reading finds the newest -/
structure FS (κ : Type) where
  files : List (String × Doc κ)

namespace FS
variable {κ : Type}

def empty : FS κ := ⟨[]⟩
def write (fs : FS κ) (p : String) (d : Doc κ) : FS κ := ⟨(p, d) :: fs.files⟩
def read (fs : FS κ) (p : String) : Option (Doc κ) := fs.files.lookup p

end FS

/-- answers of the id helper remembered per file name (empty for ever when the helper reads the file on every call) -/
abbrev IdMemo := List (String × Val)

section
variable {κ : Type} [DecidableEq κ]

/-- `get_graph_id(graph_file=p)`; `follows = true`: the file is read on every call (the memo is neither consulted nor filled) -/
def graphIdOfFile (follows : Bool) (fs : FS κ) (memo : IdMemo) (p : String) : Except String Val × IdMemo :=
  match (if follows then none else memo.lookup p) with
  | some g => (.ok g, memo)
  | none =>
    match fs.read p with
    | none => (.error "import", memo)
    | some d =>
      match getGraphId d with
      | .ok g => (.ok g, if follows then memo else (p, g) :: memo)
      | .error e => (.error e, memo)

/-- `import_graph_from_file_direct(graph_file=p)` on the shared store -/
def importFileDirect (follows : Bool) (s : Store) (fs : FS κ) (memo : IdMemo) (p : String) :
    (Except String Val × Store) × IdMemo :=
  match graphIdOfFile follows fs memo p with
  | (.error e, m) => ((.error e, s), m)
  | (.ok g, m) =>
    match (fs.read p).bind readDoc with
    | none => ((.error "import", s), m)
    | some G => ((.ok g, s.addGraphDirect g G), m)

/-- the same on the per-graph store -/
def dImportFileDirect (follows : Bool) (s : DStore) (fs : FS κ) (memo : IdMemo) (p : String) :
    (Except String Val × DStore) × IdMemo :=
  match graphIdOfFile follows fs memo p with
  | (.error e, m) => ((.error e, s), m)
  | (.ok g, m) =>
    match (fs.read p).bind readDoc with
    | none => ((.error "import", s), m)
    | some G => ((.ok g, s.addGraphDirect g G), m)

/-- `import_graph_from_file(graph_file=p, graph_id=g)`: no id helper involved -/
def importFile (s : Store) (fs : FS κ) (p : String) (g : Val) : Except String Val × Store :=
  match fs.read p with
  | none => (.error "import", s)
  | some d => importString s d g

end
end FimVerif.GraphML
