/-!
# C01 — vocabulary of the generated serialization tables (`Generated/Serial.lean`)

Hand-written *types only*; the values are regenerated from /repo by `gen/serial.py` on every run.
No Mathlib.
-/
namespace FimVerif.SerialSpec

/-- the importer entry point a branch of `Topology.load` calls -/
inductive Entry
  | file          -- import_graph_from_file(graph_file, graph_id)
  | fileDirect    -- import_graph_from_file_direct(graph_file)
  | string        -- import_graph_from_string(graph_string, graph_id)
  | stringDirect  -- import_graph_from_string_direct(graph_string)
  deriving DecidableEq, Repr

/-- does the entry point keep the graph id found in the text? -/
def Entry.direct : Entry → Bool
  | .fileDirect | .stringDirect => true
  | _ => false

/-- which graph a `delete_graph()` inside `load` is aimed at -/
inductive Which
  | held         -- `self.graph_model` at the time of the call
  | remembered   -- a local that was assigned `self.graph_model` earlier in `load`
  | imported     -- the graph the importer call returned
  deriving DecidableEq, Repr

/-- the store- / topology-affecting statements of a `load` method, in program order -/
inductive LoadStep
  | importDoc                                  -- `x = importer.import_graph_from_…(…)`
  | rebind                                     -- `self.graph_model = <Model>(graph_id = x.graph_id, …)`
  | remember                                   -- `prev = self.graph_model`
  | delete (w : Which) (onlyIfIdsDiffer : Bool) -- `<w>.delete_graph()`, possibly under `if <w>.graph_id != x.graph_id`
  deriving DecidableEq, Repr

/-- a `load` method: entry point per argument shape (`none` = that shape is not accepted) and the steps -/
structure LoadSpec where
  onFile : Option Entry          -- load(file_name = …)
  onString : Option Entry        -- load(graph_string = …)
  onStringNewId : Option Entry   -- load(graph_string = …, new_graph_id = …)
  steps : List LoadStep
  deriving DecidableEq, Repr

/-- `first_label` of `nx.convert_node_labels_to_integers` in `add_graph` / `add_graph_direct` -/
inductive FirstLabel
  | startId              -- `self.start_id` (store-wide counter)
  | const (n : Nat)
  deriving DecidableEq, Repr

/-- the label the first node gets when the store's counter stands at `startId` -/
def FirstLabel.eval : FirstLabel → Nat → Nat
  | .startId, n => n
  | .const c, _ => c

end FimVerif.SerialSpec
