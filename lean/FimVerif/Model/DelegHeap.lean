import FimVerif.Model.Deleg

/-!
# Histories on one `Pools` object with object identity (C12)

`Pools.pool_by_id` and `Pools.pools_by_delegation` hold *references* to `Pool` objects: a pool that already sits in the
container can be re-delegated (`set_delegation_id`), completed (`set_pool_details`, `set_defined_on`, `add_defined_for`) or
replaced by another object of the same name (`add_pool`) between two indexing runs, and the index built by an earlier run -
possibly a partial one, left behind by a run that raised on an unfinished pool - aliases the same objects under the keys they
had then.  `Model/Deleg.lean` stores pools by value; this file adds the heap: pools are numbered objects, the container and
the index hold numbers, `view` reads a state as the value-level `Pools` of `Model/Deleg.lean` (what the getters show).
-/

namespace FimVerif.Deleg
open FimVerif.Gen.DelegConsts

variable {D : Type}

structure HPools (D : Type) where
  ty : DType
  /-- every `Pool` object constructed so far, by reference number -/
  heap : List (Pool D)
  /-- `pool_by_id` in insertion order: reference numbers (key = the object's immutable `pool_id`) -/
  byId : List Nat
  /-- `pools_by_delegation`: delegation id (as it was when the run filed the pool) ↦ references -/
  index : Option (List (String × List Nat))

def hEmpty (ty : DType) : HPools D := { ty := ty, heap := [], byId := [], index := none }

/-- what a dangling reference reads as (never happens: references are only made by `hNew`) -/
def nullPool (ty : DType) : Pool D := { ty := ty, pid := "", deleg := none, on_ := none, for_ := [], details := none }

def HPools.deref (s : HPools D) (r : Nat) : Pool D := s.heap.getD r (nullPool s.ty)

def viewIdx (f : Nat → Pool D) (idx : List (String × List Nat)) : List (String × List (Pool D)) :=
  idx.map (fun e => (e.1, e.2.map f))

/-- the state as the getters show it: the value-level `Pools` of `Model/Deleg.lean` -/
def HPools.view (s : HPools D) : Pools D :=
  { ty := s.ty, byId := s.byId.map s.deref, index := s.index.map (viewIdx s.deref) }

/-- `Pool(...)` succeeded: a new object -/
def hNew (s : HPools D) (p : Pool D) : HPools D × Nat := ({ s with heap := s.heap ++ [p] }, s.heap.length)

/-- `pool_by_id[pool.get_pool_id()] = pool` on references -/
def hPut (f : Nat → Pool D) (r : Nat) : List Nat → List Nat
  | [] => [r]
  | q :: l => if (f q).pid = (f r).pid then r :: l else q :: hPut f r l

/-- `Pools.add_pool(pool=<object r>)` -/
def hAddPool (s : HPools D) (r : Nat) : Except Err (HPools D) :=
  if (s.deref r).ty ≠ s.ty then .error .pool
  else if (s.deref r).pid = singlePoolName then .error .pool
  else .ok { s with byId := hPut s.deref r s.byId }

/-- a setter call on object `r` (`g` one of `mSetDeleg … mSetFor`): every holder of the reference sees it -/
def hMut (s : HPools D) (r : Nat) (g : Pool D → Pool D) : HPools D :=
  if r < s.heap.length then { s with heap := s.heap.set r (g (s.deref r)) } else s

def mSetDeleg (k : String) (p : Pool D) : Pool D := { p with deleg := some k }
def mSetOn (n : String) (p : Pool D) : Pool D := { p with on_ := some n }
def mSetDetails (x : D) (p : Pool D) : Pool D := { p with details := some x }

/-- the key `build_index_by_delegation_id` files a pool under, after `validate_pool` -/
def keyOfPool (p : Pool D) : Except Err String := do
  validatePool p
  match p.deleg with
  | none => .error .pool
  | some k => pure k

def hIndexAdd (k : String) (r : Nat) : List (String × List Nat) → List (String × List Nat)
  | [] => [(k, [r])]
  | e :: l => if e.1 = k then (e.1, e.2 ++ [r]) :: l else e :: hIndexAdd k r l

/-- the loop of `build_index_by_delegation_id` on references, with what it leaves behind when `validate_pool` raises -/
def hIndexGo (f : Nat → Pool D) (idx : List (String × List Nat)) : List Nat → List (String × List Nat) × Option Err
  | [] => (idx, none)
  | r :: l =>
    match keyOfPool (f r) with
    | .error e => (idx, some e)
    | .ok k => hIndexGo f (hIndexAdd k r idx) l

/-- `Pools.build_index_by_delegation_id()` at any point of a history: `pools_by_delegation = {}` first, whatever it was -/
def hIndex (s : HPools D) : HPools D × Option Err :=
  let r := hIndexGo s.deref [] s.byId
  ({ s with index := some r.1 }, r.2)

/-- the calls of a history (a `Pool` construction that raised does not appear: it leaves nothing behind) -/
inductive HStep (D : Type) where
  | add (p : Pool D)                       -- `p = Pool(...)` and its setters, then `add_pool(pool=p)` (which may raise)
  | mut (r : Nat) (g : Pool D → Pool D)    -- a setter on the r-th object
  | index                                  -- `build_index_by_delegation_id()` (which may raise)

def hStep (s : HPools D) : HStep D → HPools D
  | .add p =>
    let (s1, r) := hNew s p
    match hAddPool s1 r with
    | .ok s2 => s2
    | .error _ => s1
  | .mut r g => hMut s r g
  | .index => (hIndex s).1

def hRun (s : HPools D) (steps : List (HStep D)) : HPools D := steps.foldl hStep s

/-! ## the reference-level run reads as the value-level run -/

theorem indexStep_keyOf (idx : List (String × List (Pool D))) (p : Pool D) :
    indexStep idx p = (keyOfPool p).map (fun k => indexAdd k p idx) := by
  unfold indexStep keyOfPool
  cases validatePool p with
  | error e => rfl
  | ok u =>
    cases p.deleg with
    | none => rfl
    | some k => rfl

theorem viewIdx_add (f : Nat → Pool D) (k : String) (r : Nat) (idx : List (String × List Nat)) :
    viewIdx f (hIndexAdd k r idx) = indexAdd k (f r) (viewIdx f idx) := by
  induction idx with
  | nil => rfl
  | cons e l ih =>
    unfold hIndexAdd
    by_cases h : e.1 = k
    · simp [h, viewIdx, indexAdd]
    · simp only [h, if_false]
      show (e.1, e.2.map f) :: viewIdx f (hIndexAdd k r l) = indexAdd k (f r) ((e.1, e.2.map f) :: viewIdx f l)
      rw [ih]
      simp [indexAdd, h]

theorem hIndexGo_view (f : Nat → Pool D) (idx : List (String × List Nat)) (l : List Nat) :
    viewIdx f (hIndexGo f idx l).1 = (indexGo (viewIdx f idx) (l.map f)).1 ∧
      (hIndexGo f idx l).2 = (indexGo (viewIdx f idx) (l.map f)).2 := by
  induction l generalizing idx with
  | nil => exact ⟨rfl, rfl⟩
  | cons r l ih =>
    simp only [List.map_cons]
    unfold hIndexGo indexGo
    rw [indexStep_keyOf]
    cases hk : keyOfPool (f r) with
    | error e => exact ⟨rfl, rfl⟩
    | ok k =>
      simp only [Except.map]
      rw [← viewIdx_add]
      exact ih _

end FimVerif.Deleg
