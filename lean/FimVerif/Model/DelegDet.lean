import FimVerif.Model.Deleg
import FimVerif.Model.Codec
import FimVerif.Generated.Fields
/-!
# The details of a delegation are real `Capacities` / `Labels` objects (C12 on top of C03)

`DetailOps` instantiated with the C03 model of the `JSONField` classes (`Model/Codec.lean`), on the class
specifications the C03 translator regenerates from `fim/slivers/capacities_labels.py` on every run
(`Generated/Fields.lean`: field lists, defaults, the `_set_fields` guard, the drop rule of `to_dict`):

* a details object is its class and its `__dict__` (`Codec.Fields`);
* `to_dict()` is `Codec.toDict`, `Capacities(**d)` / `Labels(**d)` is `Codec.construct`;
* `valid` stands for the `VALIDATORS` / `LAMBDA_VALIDATORS` of `Labels` (C16's subject, abstract here).

The two properties use different JSON value types (C03 keeps the digits of a float, C12 only the fact that a value
is a float, because no float is ever accepted by either class); `up` / `down` translate.  This is what the C12 driver
executes, so the correspondence check ties it to the code.  Core only (no Mathlib).
-/
namespace FimVerif.Deleg

/-- JSON values of the C03 model -/
abbrev CVal := FimVerif.JVal

mutual
def up : CVal → JVal
  | .null => .null
  | .bool b => .bool b
  | .int i => .int i
  | .float _ => .flt
  | .str s => .str s
  | .arr xs => .arr (upL xs)
  | .obj kvs => .obj (upK kvs)
def upL : List CVal → List JVal
  | [] => []
  | x :: xs => up x :: upL xs
def upK : List (String × CVal) → List (String × JVal)
  | [] => []
  | (k, v) :: r => (k, up v) :: upK r
end

mutual
def down : JVal → CVal
  | .null => .null
  | .bool b => .bool b
  | .int i => .int i
  | .flt => .float "0.5"
  | .str s => .str s
  | .arr xs => .arr (downL xs)
  | .obj kvs => .obj (downK kvs)
def downL : List JVal → List CVal
  | [] => []
  | x :: xs => down x :: downL xs
def downK : List (String × JVal) → List (String × CVal)
  | [] => []
  | (k, v) :: r => (k, down v) :: downK r
end

/-- the generated class specification behind a delegation type -/
def specOf : DType → Codec.ClassSpec
  | .cap => Gen.Fields.capacities
  | .lab => Gen.Fields.labels

/-- exception classes of the C03 model (wire names of `core.err_kind`) as C12's -/
def errOf (e : String) : Err :=
  if e = "assertion" then .assertion
  else if e = "type" then .type
  else if e = "capacity" then .capacity
  else if e = "label" then .label
  else .unmodelled

/-- a `Capacities` / `Labels` instance: its class and its `__dict__` -/
structure CDet where
  kind : DType
  fields : Codec.Fields

/-- only `Labels` has value validators -/
def validFor (valid : String → CVal → Bool) : DType → String → CVal → Bool
  | .cap => fun _ _ => true
  | .lab => valid

/-- `x.to_dict()` -/
def cToDict (x : CDet) : Option JVal :=
  match Codec.toDict (specOf x.kind) x.fields with
  | none => none
  | some kvs => some (.obj (upK kvs))

/-- `Capacities(**j)` / `Labels(**j)` (`**` of anything but a mapping is a `TypeError`) -/
def cFromDict (valid : String → CVal → Bool) (ty : DType) (j : JVal) : Except Err CDet :=
  match j with
  | .obj kvs =>
    match Codec.construct (specOf ty) (validFor valid ty) (downK kvs) with
    | .ok f => .ok ⟨ty, f⟩
    | .error e => .error (errOf e)
  | _ => .error .type

def cOps (valid : String → CVal → Bool) : DetailOps CDet :=
  { kindOf := (·.kind), toDict := cToDict, fromDict := cFromDict valid }

/-- the instance `__dict__` in field order (what the driver prints) -/
def cItems (x : CDet) : List (String × CVal) :=
  (Codec.names (specOf x.kind)).map (fun k => (k, x.fields k))

end FimVerif.Deleg
