import FimVerif.Model.Sliver
import FimVerif.Model.Codec
import FimVerif.Model.Deleg
import FimVerif.Generated.Fields
/-!
# A value model for C02 that carries the codec models of C03 and C12

`Model/Sliver.lean` is generic in the value model (`Codecs V P`).  The driver's `concrete` model represents codec
objects by their text; here the values *are* the objects of C03's and C12's models and the encoders / decoders of the
closed set are C03's `encode` / `decode` (the seven `JSONField` classes, by class name from `Generated/Fields.lean`),
`tagsEncode` / `tagsDecode`, `gatewayEncode` / `gatewayDecode`, `pathInfoEncode` / `pathInfoDecode`, `eroEncode` /
`eroDecode`, `minfoEncode` / `minfoDecode`, `jdFromText` (JSONData), and C12's `Deleg.encode` / `Deleg.decode`.
A graph-property value is the *parsed* form of the stored text (`RP`): the `json.dumps` / `json.loads` layer between
the two is CPython's and is not modelled (it is the same trust as in C03 and C12).

Nothing here is executed against the code: the dispatch (which decoder a from-row calls) is the generated table's
(`Dec`, `arg`) pair, the decoders themselves are tied to the code by the correspondence runs of C03 and C12.
-/
namespace FimVerif.SliverRich
open FimVerif FimVerif.Sliver FimVerif.Gen.SliverMap

/-- what the code calls out to and this model takes as parameters (each is some other property's subject) -/
structure Params where
  /-- the `Labels` value validators (C16) -/
  valid : String → JVal → Bool
  /-- `Tags._check` -/
  okTag : String → Bool
  /-- `datetime.fromisoformat(..).isoformat()` on the texts of a `MaintenanceEntry` -/
  iso : String → Option String
  /-- `json.loads` accepts the text -/
  validJson : String → Bool

inductive RVal where
  | str (s : String)
  | enum (cls name : String)
  /-- an object of one of the `JSONField` classes: class name and `__dict__` -/
  | jf (cls : String) (x : Codec.Fields)
  | tags (ts : List String)
  /-- a `Gateway`: its `lab.__dict__` -/
  | gw (g : Codec.Fields)
  | pinfo (p : Codec.PathInfo)
  | ero (p : Codec.PathInfo)
  | minfo (m : Codec.MInfo)
  | deleg (ds : Deleg.Delegations Deleg.Det)
  | jdata (cls text : String)
  | tuple (xs : List String)
  | bool (b : Bool)
  | ip (s : String)

/-- a stored graph-property value, as `json.loads` (where the code parses it) shows it -/
inductive RP where
  /-- a text used as it is -/
  | text (s : String)
  /-- the text of a C03 codec: `none` is the empty text -/
  | json (j : Option JVal)
  /-- the text of `Delegations.to_json` -/
  | djson (j : Deleg.JVal)
  /-- `json.dumps` of a sequence of strings / a bool / None -/
  | strs (xs : List String)
  | jbool (b : Bool)
  | jnull
  /-- an encoder raised (outside every domain considered) -/
  | bad

def specOf (cls : String) : Option Codec.ClassSpec := Gen.Fields.all.find? (fun c => c.name == cls)

def maxOf (cls : String) : Nat :=
  match Gen.Fields.jsonDataMax.find? (fun e => e.1 == cls) with
  | some e => e.2
  | none => 0

def textOf : RVal → Option String
  | .str s => some s
  | .enum _ n => some n
  | .ip s => some s
  | _ => none

def delegTy (arg : String) : Option Deleg.DType :=
  if arg = "Delegations.CAPACITY" then some .cap else if arg = "Delegations.LABEL" then some .lab else none

def exc {α β : Type} (e : Except Err α) (f : α → β) : Except Err β :=
  match e with
  | .ok a => .ok (f a)
  | .error x => .error x

def rich (R : Params) : Codecs RVal RP where
  enc := fun e vs =>
    match e, vs with
    | .ident, [v] => match textOf v with | some s => .text s | none => .bad
    | .str, [v] => match textOf v with | some s => .text s | none => .bad
    | .toJson, [.jf cls x] =>
      match specOf cls with
      | some c => .json (Codec.encode c x)
      | none => .bad
    | .toJson, [.tags ts] => .json (some (Codec.tagsEncode ts))
    | .toJson, [.gw g] => .json (Codec.gatewayEncode Gen.Fields.labels (some g))
    | .toJson, [.pinfo p] => match Codec.pathInfoEncode p with | .ok j => .json (some j) | .error _ => .bad
    | .toJson, [.ero p] => match Codec.eroEncode p with | .ok j => .json (some j) | .error _ => .bad
    | .toJson, [.minfo m] => match Codec.minfoEncode m with | .ok j => .json (some j) | .error _ => .bad
    | .toJson, [.deleg ds] => match Deleg.encode Deleg.detOps ds with | .ok j => .djson j | .error _ => .bad
    | .jsonData, [.jdata _ t] => .text t
    | .jsonDumps, [.tuple xs] => .strs xs
    | .jsonDumps, [.bool b] => .jbool b
    | .commaJoin, [.str a, .str b] => .text (a ++ "," ++ b)
    | _, _ => .bad
  encNone := fun _ => .jnull
  dec := fun d arg x =>
    match d, x with
    | .ident, .text s => .ok (some (.str s))
    | .typeFromStr, .text s => .ok ((enumMember arg s).map fun _ => .enum arg s)
    | .fromString, .text s => .ok ((enumMember arg s).map fun _ => .enum arg s)
    | .fromJson, .json j =>
      if arg = "Tags" then exc (Codec.tagsDecode R.okTag j) (Option.map .tags)
      else if arg = "Gateway" then exc (Codec.gatewayDecode Gen.Fields.labels R.valid j) (Option.map .gw)
      else if arg = "PathInfo" then exc (Codec.pathInfoDecode j) (Option.map .pinfo)
      else if arg = "ERO" then exc (Codec.eroDecode j) (Option.map .ero)
      else if arg = "MaintenanceInfo" then exc (Codec.minfoDecode R.iso j) (Option.map .minfo)
      else match specOf arg with
        | some c => exc (Codec.decode c (if arg = "Labels" then R.valid else fun _ _ => true) j) (Option.map (.jf arg))
        | none => .error "type"
    | .fromJson, .djson j =>
      match delegTy arg with
      | some ty =>
        match Deleg.decode Deleg.detOps ty j with
        | .ok ds => .ok (some (.deleg ds))
        | .error _ => .error "delegation"
      | none => .error "type"
    | .jsonLoads, .strs xs => .ok (some (.tuple xs))
    | .jsonLoads, .jbool b => .ok (some (.bool b))
    | .jsonLoads, .jnull => .ok none
    | .jsonDataCtor, .text t => exc (Codec.jdFromText R.validJson (maxOf arg) t) (fun s => some (.jdata arg s))
    | .commaRSplit, .text t =>
      match rsplitComma t with
      | some (a, b) => .ok (some (.str (if arg = "0" then a else b)))
      | none => .error "value"
    | .commaSplit, .text t =>
      match splitComma t with
      | [a, b] => .ok (some (.str (if arg = "0" then a else b)))
      | _ => .error "value"
    | _, _ => .error "type"
  absentObj := fun _ => .str ""
  boolFalse := .bool false
  norm := fun n v =>
    match n, v with
    | .ipAddress, .str s => .ok (.ip s)
    | _, v => .ok v
  isDedicated := fun v => match v with
    | .enum c n => c == "InterfaceType" && n == "DedicatedPort"
    | _ => false

end FimVerif.SliverRich
