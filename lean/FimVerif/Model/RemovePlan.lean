import FimVerif.Model.RemoveNames
import FimVerif.Generated.RemovalPlan
/-!
# The removal calls as interpretations of their generated plans (C08)

`Generated/RemovalPlan.lean` lists, for every removal function of /repo, the tracked helper calls in evaluation order
(regenerated from the AST on every run).  This file runs those lists: the `…P` functions below are the model the driver
executes.  `Proofs/Lemmas/C08Plan.lean` proves `…P = …` (the hand-written functions of `Model/Remove.lean` the theorems are
about) for the plans as generated today; a dropped, added or re-ordered helper call, another `delete_parent`, another
length test in `remove_cp_and_links`, another loop order or guard in `prune` changes what runs here and breaks that proof.
No Mathlib.
-/
namespace FimVerif.Remove
open FimVerif.Gen.RemovalPlan (Step S IfsArg)
namespace Plan
export FimVerif.Gen.RemovalPlan (removeNode removeNodeIfs removeFacility removeFacilityIfs removeSwitch removeLink
  removeNetworkService removeNetworkServiceIfs nodeRemoveComponent nodeRemoveComponentIfs nodeRemoveNetworkService
  nodeRemoveNetworkServiceIfs removeChildInterface removeChildInterfaceIfs pruneNodeFn pruneNsFn pruneNsFnIfs
  pruneComponentsFn pruneInterfaceFn pruneInterfaceFnIfs gRemoveNode gRemoveComp gRemoveNs gRemoveLink cpOnlyChild cpLinkEnds
  cpDeleteParentDefault pruneLoops disconnectInterface unpeer removeInterface disconnectInterfaces discPeerCount nodeRemoveStorage)
end Plan

/-- `remove_cp_and_links` with the length tests and the default of `delete_parent` taken from the table -/
def cpFamilyP (g : G) (x : Nat) (dp : Bool) : List Nat :=
  x :: (g.nbrs x .connects .cp).filter (fun p => (g.nbrs p .connects .cp).length == Plan.cpOnlyChild && dp)

def cpLinksP (g : G) (fam : List Nat) : List Nat :=
  fam.flatMap (fun i => (g.nbrs i .connects .link).filter (fun l => (g.nbrs l .connects .cp).length == Plan.cpLinkEnds))

def removeCpP (g : G) (x : Nat) (dp : Option Bool) : Except Err G :=
  let d := dp.getD Plan.cpDeleteParentDefault
  if g.has x then deleteAll g (dedup (cpFamilyP g x d ++ cpLinksP g (cpFamilyP g x d))) else .error .query

/-- a graph-level plan: neighbour queries set `cur`, `del` deletes the element itself (present: its class has just been
checked, and the calls in between delete elements of other classes only), a looped call runs over `cur` -/
def runG (callee : Step → Option (G → Nat → Except Err G)) (x : Nat) : List S → G → List Nat → Except Err G
  | [], g, _ => .ok g
  | ⟨.qComps, false⟩ :: rest, g, _ => runG callee x rest g (g.nbrs x .has .comp)
  | ⟨.qNss, false⟩ :: rest, g, _ => runG callee x rest g (g.nbrs x .has .ns)
  | ⟨.qCps, false⟩ :: rest, g, _ => runG callee x rest g (g.nbrs x .connects .cp)
  | ⟨.del, false⟩ :: rest, g, cur => runG callee x rest (g.minus [x]) cur
  | ⟨st, true⟩ :: rest, g, cur =>
    match callee st with
    | some f => (cur.foldlM f g).bind (fun g' => runG callee x rest g' cur)
    | none => .error .assertion
  | _ :: _, _, _ => .error .assertion

def removeNsP (g : G) (x : Nat) : Except Err G :=
  if g.cls? x == some .ns then
    runG (fun st => match st with | .gcp dp => some (fun g i => removeCpP g i dp) | _ => none) x Plan.gRemoveNs g []
  else .error .query

def removeCompP (g : G) (x : Nat) : Except Err G :=
  if g.cls? x == some .comp then
    runG (fun st => match st with | .gns => some removeNsP | _ => none) x Plan.gRemoveComp g []
  else .error .query

def removeNodeGP (g : G) (x : Nat) : Except Err G :=
  if g.cls? x == some .node then
    runG (fun st => match st with | .gcomp => some removeCompP | .gns => some removeNsP | _ => none) x Plan.gRemoveNode g []
  else .error .query

def removeLinkGP (g : G) (x : Nat) : Except Err G :=
  if g.cls? x == some .link then runG (fun _ => none) x Plan.gRemoveLink g [] else .error .query

/-- what a user-level plan works on -/
structure ApiCtx where
  x : Nat
  ifs : G → List Nat
  each : List Nat := []

/-- the argument of `_disconnect_interfaces`, by its extracted shape -/
def ifsOf (a : IfsArg) (x : Nat) : G → List Nat :=
  match a with
  | .ifsNodesDict | .ifsFacilitiesDict => fun g => ifaceListNode g x
  | .ifsComponentsDict => fun g => ifaceListComp g x
  | .ifsOfLookedUp | .ifsOfFreshHandle => fun g => g.nbrs x .connects .cp
  | .ifsSingleton => fun _ => [x]

def ifsOfList (l : List IfsArg) (x : Nat) : G → List Nat :=
  match l with
  | [a] => ifsOf a x
  | _ => fun _ => []

def stepApi (c : ApiCtx) (s : S) (g : G) : Except Err G :=
  match s with
  | ⟨.disc, false⟩ => disconnectDeep g (c.ifs g)
  | ⟨.gnode, false⟩ => removeNodeGP g c.x
  | ⟨.gcomp, false⟩ => removeCompP g c.x
  | ⟨.gns, false⟩ => removeNsP g c.x
  | ⟨.gcp dp, false⟩ => removeCpP g c.x dp
  | ⟨.gcp dp, true⟩ => c.each.foldlM (fun g p => removeCpP g p dp) g
  | ⟨.glink, false⟩ => removeLinkGP g c.x
  | _ => .error .assertion

def runApi (c : ApiCtx) (plan : List S) (g : G) : Except Err G := plan.foldlM (fun g s => stepApi c s g) g

def removeNodeApiP (g : G) (n : Nat) : Except Err G :=
  if g.cls? n == some .node && g.kind? n != some kFacility then
    runApi { x := n, ifs := ifsOfList Plan.removeNodeIfs n } Plan.removeNode g
  else .error .topology

def removeFacilityApiP (g : G) (n : Nat) : Except Err G :=
  if g.cls? n == some .node && g.kind? n == some kFacility then
    runApi { x := n, ifs := ifsOfList Plan.removeFacilityIfs n } Plan.removeFacility g
  else .error .topology

def removeSwitchApiP (g : G) (n : Nat) : Except Err G :=
  if g.cls? n == some .node && g.kind? n == some kSwitch then
    match Plan.removeSwitch with
    | [⟨.callRemoveNode, false⟩] => removeNodeApiP g n
    | _ => .error .assertion
  else .error .topology

def removeComponentApiP (g : G) (c : Nat) : Except Err G :=
  if g.cls? c == some .comp then
    runApi { x := c, ifs := ifsOfList Plan.nodeRemoveComponentIfs c } Plan.nodeRemoveComponent g
  else .error .query

/-- `Topology.remove_network_service` and `Node.remove_network_service` (two plans, one model function: they must agree) -/
def removeNsApiP (g : G) (s : Nat) : Except Err G :=
  if g.cls? s == some .ns then
    if Plan.removeNetworkService == Plan.nodeRemoveNetworkService then
      runApi { x := s, ifs := ifsOfList Plan.removeNetworkServiceIfs s } Plan.removeNetworkService g
    else .error .assertion
  else .error .query

def removeLinkApiP (g : G) (l : Nat) : Except Err G :=
  if g.cls? l == some .link then
    runApi { x := l, ifs := fun _ => [], each := (g.nbrs l .connects .cp).filter (fun p => g.kind? p == some kServicePort) }
      Plan.removeLink g
  else .error .query

def removeChildP (g : G) (h : List IfH) (p c : Nat) : Except Err (G × List IfH) :=
  if g.kind? p == some kDedicatedPort then
    (runApi { x := c, ifs := ifsOfList Plan.removeChildInterfaceIfs c } Plan.removeChildInterface g).map (fun g' => (g', hDrop h c))
  else .error .assertion

def removeInterfaceP (g : G) (h : List IfH) (i : Nat) : Except Err (G × List IfH) :=
  match Plan.removeInterface with
  | [⟨.gcp dp, false⟩] => (removeCpP g i dp).map (fun g' => (g', hDrop h i))
  | _ => .error .assertion

/-- the body of one deletion loop of `prune` -/
def pruneBody (st : Step) : Option (G → Nat → Except Err G) :=
  match st with
  | .pruneNode => (match Plan.pruneNodeFn with | [⟨.callRemoveNode, false⟩] => some removeNodeApiP | _ => none)
  | .pruneComp => (match Plan.pruneComponentsFn with | [⟨.callRemoveComponent, false⟩] => some removeComponentApiP | _ => none)
  | .pruneNs => some (fun g s => if g.cls? s == some .ns then runApi { x := s, ifs := ifsOfList Plan.pruneNsFnIfs s } Plan.pruneNsFn g else .error .query)
  | .pruneIface => some (fun g i => runApi { x := i, ifs := ifsOfList Plan.pruneInterfaceFnIfs i } Plan.pruneInterfaceFn g)
  | _ => none

/-- deletion phase of `prune`: the loops in the order of the table, each guarded or not as the table says -/
def pruneP (g : G) (nodes comps nss ifs : List Nat) : Except Err G :=
  Plan.pruneLoops.foldlM (fun g lp =>
    let xs := match lp.1 with | .pruneNode => nodes | .pruneComp => comps | .pruneNs => nss | .pruneIface => ifs | _ => []
    match pruneBody lp.1 with
    | some f => xs.foldlM (fun g x => if lp.2 then (if g.has x then f g x else .ok g) else f g x) g
    | none => .error .assertion) g

end FimVerif.Remove
