import FimVerif.Model.Regex
import FimVerif.Generated.Validators
import FimVerif.Generated.EntryPoints
import FimVerif.Model.JsonParse
/-!
Executable model of the validation done on every construction path (C16).

Hand-mirrored control flow (checked differentially): `Labels._set_fields` (assertions, unknown field / forgiving,
regex check on scalar or each list element, range lambda on scalar or each list element, assignment) and the four ways
into it (constructor, `_set_fields` on an existing object, `JSONField.update`, `from_json`), the model-element path
(`update_labels` + read back through `to_json`/`from_json`), `Tags.__init__/_check/from_json`, `BaseSliver.set_name`,
`set_boot_script`, `JSONData.__init__` (size and validity; JSON parsing itself is CPython's and is an input here).
Generated (Generated/Validators.lean): every regex, range, anchor mode, size limit and comparison operator.
-/
namespace FimVerif.V16
open FimVerif.Regex FimVerif.Gen.Validators FimVerif.Gen.EntryPoints

/-! ### Python `int(str)` -/

def digitValIn : List (Nat × Nat) → Nat → Option Nat
  | [], _ => none
  | (lo, hi) :: t, c => if c < lo then none else if c ≤ hi then some (c - lo) else digitValIn t c

def digitVal (c : Char) : Option Nat := digitValIn digitDecades c.toNat

def strip (s : List Char) : List Char :=
  ((s.dropWhile isSpace).reverse.dropWhile isSpace).reverse

/-- digits with single underscores between them; returns (value, number of digits) -/
def digitsGo : List Char → Nat → Nat → Option (Nat × Nat)
  | [], acc, n => some (acc, n)
  | c :: r, acc, n =>
    if c = '_' then
      match r with
      | [] => none
      | d :: r' =>
        match digitVal d with
        | some v => digitsGo r' (acc * 10 + v) (n + 1)
        | none => none
    else
      match digitVal c with
      | some v => digitsGo r (acc * 10 + v) (n + 1)
      | none => none

def pyNat (body : List Char) : Option Nat :=
  match body with
  | [] => none
  | c :: _ =>
    if c = '_' then none
    else match digitsGo body 0 0 with
      | some (v, n) => if n > intMaxStrDigits then none else some v
      | none => none

/-- `int(s)` for a str `s`; `none` = ValueError -/
def pyInt (s : List Char) : Option Int :=
  match strip s with
  | '-' :: r => (pyNat r).map (fun n => - (Int.ofNat n))
  | '+' :: r => (pyNat r).map Int.ofNat
  | r => (pyNat r).map Int.ofNat

/-- `s.split(sep)` for a one-character separator -/
def splitOn (sep : Char) : List Char → List (List Char)
  | [] => [[]]
  | c :: r =>
    match splitOn sep r with
    | [] => [[]]      -- unreachable: the result is never empty
    | h :: t => if c = sep then [] :: h :: t else (c :: h) :: t

abbrev Res := Except String

def evalInt (v : List Char) : IntE → Res Int
  | .lit n => pure n
  | .ofStr => match pyInt v with
    | some n => pure n
    | none => throw "value"
  | .ofPart sep i => match (splitOn sep v)[i]? with
    | none => throw "index"
    | some p => match pyInt p with
      | some n => pure n
      | none => throw "value"

def cmpOp : CmpOp → Int → Int → Bool
  | .le, a, b => decide (a ≤ b)
  | .lt, a, b => decide (a < b)

/-- `True if c1 and c2 and … else False`, left to right with short circuit; errors of `int()` propagate -/
def evalRange (v : List Char) : List Cmp → Res Bool
  | [] => pure true
  | c :: cs =>
    match evalInt v c.l with
    | .error e => .error e
    | .ok a =>
      match evalInt v c.r with
      | .error e => .error e
      | .ok b => if cmpOp c.op a b then evalRange v cs else pure false

/-! ### Labels -/

inductive Item where
  | str (s : List Char)
  | other                     -- a list element that is not a str
  deriving Repr, DecidableEq

inductive Val where
  | none
  | str (s : List Char)
  | list (xs : List Item)
  | other                     -- neither None, str nor list
  deriving Repr, DecidableEq

abbrev LObj := List (String × Val)

def defaultObj : LObj := labelFields.map (fun f => (f, Val.none))

def setKey (k : String) (v : Val) : LObj → LObj
  | [] => []
  | (k', v') :: t => if k' == k then (k', v) :: t else (k', v') :: setKey k v t

def regexItems (r : Re) : List Item → Res Unit
  | [] => pure ()
  | .other :: _ => throw "type"              -- re.match on a non-str raises TypeError
  | .str s :: t => if accepts labelAnchorList r s then regexItems r t else throw "label"

def rangeItems (cs : List Cmp) : List Item → Res Unit
  | [] => pure ()
  | .other :: _ => throw "unmodelled"        -- int() of a non-str: not modelled (unreachable when every range has a regex)
  | .str s :: t =>
    match evalRange s cs with
    | .error e => .error e
    | .ok true => rangeItems cs t
    | .ok false => throw "label"

def checkRegex (k : String) (v : Val) : Res Unit :=
  match labelRegex.lookup k with
  | none => pure ()
  | some r =>
    match v with
    | .list xs => regexItems r xs
    | .str s => if accepts labelAnchorScalar r s then pure () else throw "label"
    | _ => pure ()

def checkRange (k : String) (v : Val) : Res Unit :=
  match labelRange.lookup k with
  | none => pure ()
  | some cs =>
    match v with
    | .list xs => rangeItems cs xs
    | .str s =>
      match evalRange s cs with
      | .error e => .error e
      | .ok true => pure ()
      | .ok false => throw "label"
    | _ => pure ()

/-- a list holding something that is not a str (`all(isinstance(i, str) for i in v)` fails) -/
def Val.hasOther : Val → Bool
  | .list xs => xs.any (fun i => i == Item.other)
  | _ => false

/-- one iteration of the loop in `Labels._set_fields`: the two assertions (not None; a str or a list of str), the field
test (`k in self.__dict__`: only instance fields, not methods or class attributes), regex, range, assignment -/
def setField (forgiving : Bool) (obj : LObj) (k : String) (v : Val) : Res LObj :=
  match v with
  | .none => throw "assertion"
  | .other => throw "assertion"
  | _ =>
    if v.hasOther then throw "assertion"
    else if labelFields.contains k then
      match checkRegex k v with
      | .error e => .error e
      | .ok _ =>
        match checkRange k v with
        | .error e => .error e
        | .ok _ => pure (setKey k v obj)
    else if forgiving then pure obj else throw "label"

def setFields (forgiving : Bool) (obj : LObj) : List (String × Val) → Res LObj
  | [] => pure obj
  | (k, v) :: t =>
    match setField forgiving obj k v with
    | .error e => .error e
    | .ok obj' => setFields forgiving obj' t

/-- the entry points -/
inductive Path where
  | ctor | setf | update | json | elem
  deriving Repr, DecidableEq

/-- `from_json`: (after the fix in JSONField.from_json) keys that are not fields are dropped before the setter sees them -/
def jsonKeys (kw : List (String × Val)) : List (String × Val) :=
  if fromJsonFiltersUnknown then kw.filter (fun kv => labelFields.contains kv.1) else kw

/-- `to_dict`/`to_json` keep what is not None (a str or list is never `== 0`) -/
def toDict (obj : LObj) : List (String × Val) := obj.filter (fun kv => kv.2 != Val.none)

/-- `from_json(to_json(obj))`: the empty encoding decodes to None -/
def readBack (obj : LObj) : Res (Option LObj) :=
  if (toDict obj).isEmpty then pure none
  else match setFields true defaultObj (jsonKeys (toDict obj)) with
    | .error e => .error e
    | .ok o => pure (some o)

/-- `base` is the object the call starts from (ignored by ctor/json). -/
def enter (p : Path) (base : LObj) (kw : List (String × Val)) : Res LObj :=
  match p with
  | .ctor => setFields false defaultObj kw
  | .setf => setFields false base kw
  | .update => setFields false base kw          -- copy of every field of `base`, then _set_fields(**kw)
  | .json => setFields true defaultObj (jsonKeys kw)
  | .elem =>                                     -- ModelElement.update_labels, then what `element.labels` reads back
    match setFields false base kw with
    | .error e => .error e
    | .ok o =>
      match readBack o with
      | .error e => .error e
      | .ok none => pure defaultObj
      | .ok (some o') => pure o'

/-! ### Tags -/

inductive TArg where
  | one (i : Item)
  | many (xs : List Item)

def tagCheck : Item → Res (List Char)
  | .other => throw "tag"
  | .str s => if accepts tagAnchor tagRe s then pure s else throw "tag"

def tagItems : List Item → Res (List (List Char))
  | [] => pure []
  | i :: t =>
    match tagCheck i with
    | .error e => .error e
    | .ok s => match tagItems t with
      | .error e => .error e
      | .ok r => pure (s :: r)

def tagsCtor : List TArg → Res (List (List Char))
  | [] => pure []
  | a :: t =>
    match (match a with | .one i => tagItems [i] | .many xs => tagItems xs) with
    | .error e => .error e
    | .ok r => match tagsCtor t with
      | .error e => .error e
      | .ok r' => pure (r ++ r')

/-! ### Names, boot script, JSON blobs -/

def setName (cls : String) (v : Val) : Res (List Char) :=
  match v with
  | .none => throw "type"              -- the assert lets None through, re.match(None) raises TypeError
  | .str s =>
    match nameRe.lookup cls with
    | none => throw "unmodelled"
    | some r => if accepts nameAnchor r s then pure s else throw "value"
  | _ => throw "assertion"

def setBoot (v : Val) : Res (Option (List Char)) :=
  match v with
  | .none => pure none
  | .str s => if bootOk s.length then pure (some s) else throw "assertion"
  | _ => throw "assertion"

/-- str path: `len(data) > MAX` then `json.loads` (validity is an input) -/
def jsonStr (cls : String) (len : Nat) (valid : Bool) : Res Unit :=
  match jsonMax.lookup cls with
  | none => throw "unmodelled"
  | some m => if jsonTooLong len m then throw "jsondata" else if valid then pure () else throw "jsondata"

/-- object path: `json.dumps` (success and length are inputs) then the size check -/
def jsonObj (cls : String) (dumpsOk : Bool) (len : Nat) : Res Unit :=
  match jsonMax.lookup cls with
  | none => throw "unmodelled"
  | some m => if !dumpsOk then throw "jsondata" else if jsonTooLong len m then throw "jsondata" else pure ()

/-! ### JSON blobs with `json.loads` / `json.dumps` modelled (Model/JsonParse.lean `parse`, Model/Json.lean `render`)

`jsonStr` / `jsonObj` above take validity and the dumped length as inputs computed by CPython; here they are computed by the
model: `JParse.parse` is `json.loads` (None = JSONDecodeError), `JVal.render` is `json.dumps` with the default separators and
ensure_ascii. Floats are carried as their lexeme, so object values with floats stay on the `jsonObj` path. -/

/-- `JSONData(text)` for a str -/
def jsonText (cls : String) (text : String) : Res Unit :=
  jsonStr cls text.length (JParse.parse text).isSome

/-- `JSONData(obj)` for a JSON-representable object: what is stored is the dumped text -/
def jsonValue (cls : String) (j : JVal) : Res String :=
  match jsonMax.lookup cls with
  | none => throw "unmodelled"
  | some m =>
    match j with
    | .null => pure (JVal.render (.obj []))         -- `data is None`: the empty object, no size check
    | _ => if jsonTooLong (JVal.render j).length m then throw "jsondata" else pure (JVal.render j)

/-! ### Entry points: which guards count, names of existing elements over histories, derived names

Generated/EntryPoints.lean lists every statement of fim/user, fim/slivers and the decode functions of abc_property_graph that
stores a value of a validated domain together with the check that dominates it, and every public function that takes such a
value with the guarded writers its value reaches. `acceptedGuards` says which guard idioms are validators; two idioms the
translator also recognises are deliberately not accepted: "then:set_property" (the element's cached name written before the
check; /repo ee3a7fa reversed the order) and "copy:same-field" (Gateway copying `lab.mac` by assignment; /repo 58a3eee made it
go through `_set_fields`). -/

def acceptedGuards : List String :=
  ["regex:NAME_REGEX", "size:BOOST_SCRIPT_SIZE",
   "isinstance:Labels", "isinstance:Tags", "isinstance:MeasurementData", "isinstance:UserData", "isinstance:LayoutData",
   "regex+range:VALIDATORS", "copy:valid-instance", "free-field", "check:Tags._check", "empty", "constant",
   "size+loads", "dumps+size", "after:set_property",
   "setter:name", "setter:labels", "setter:tags", "setter:boot_script", "setter:json", "sliverdict", "sliver:setters-only"]

/-- the guarded writers this file models: set_name → `setName`, set_boot_script → `setBoot`, Labels._set_fields → `setFields`,
JSONField.update → `enter .update`, Tags.__init__ → `tagsCtor`, JSONData.__init__ → `jsonStr`/`jsonObj` -/
def modelledWriters : List String :=
  ["BaseSliver.set_name", "BaseSliver.set_boot_script", "Labels._set_fields", "JSONField.update", "Tags.__init__", "JSONData.__init__"]

def entryOk (e : Entry) : Bool :=
  e.unguarded.isEmpty
  && (if e.domain == "any" then e.requires.all (fun r => e.reached.contains r) else e.requires.any (fun r => e.reached.contains r))
  && e.reached.all (fun r => guardedWriters.contains r)

/-- A model element: the `Name` property in the graph and the name the element object answers with. Every way of rewriting
the name (rename(), the `name` property, set_property('name', ..), set_properties(name=..)) is `set_name` of the element's
sliver class followed by the write; a rejected value changes neither. -/
structure Elem where
  cls : String
  name : List Char
  handle : List Char
  deriving Repr, DecidableEq

inductive NameEntry where
  | rename | assign | setProperty | setProperties
  deriving Repr, DecidableEq

def stepElem (e : Elem) (op : NameEntry × Val) : Elem :=
  match setName e.cls op.2 with
  | .error _ => e
  | .ok s =>
    match op.1 with
    | .rename | .assign => { e with name := s, handle := s }
    | .setProperty | .setProperties => { e with name := s }      -- the element object keeps its cached name

def runElem (e : Elem) (ops : List (NameEntry × Val)) : Elem := ops.foldl stepElem e

/-- a name the entry point derives from the name it was given and checks against another class's NAME_REGEX -/
def derivedName (parent name : List Char) (d : Derived) : List Char :=
  (if d.withParent then parent ++ ['-'] else []) ++ name ++ d.suffix.toList

def checkDerived (parent name : List Char) : List Derived → Res Unit
  | [] => pure ()
  | d :: t =>
    match setName d.cls (.str (derivedName parent name d)) with
    | .error e => .error e
    | .ok _ => checkDerived parent name t

def derivedFor (kind variant : String) : List Derived :=
  derived.filter (fun d => d.kind == kind && d.variant == variant)

/-- Node.add_component (catalogue models with interfaces), Topology.add_facility, Topology.add_switch: the element's own
name check, then every derived name -/
def createNamed (own kind variant : String) (parent : List Char) (v : Val) : Res (List Char) :=
  match setName own v with
  | .error e => .error e
  | .ok s =>
    match checkDerived parent s (derivedFor kind variant) with
    | .error e => .error e
    | .ok _ => pure s

/-! ### A kept sliver object over a history of setter calls, and its property dictionary

One sliver object is kept while a caller applies any sequence of `set_name` / `set_boot_script` calls to it (directly, through
`set_property` or the bulk `set_properties` - they dispatch to the same setters), some of them refused. What the object then
holds is what `base_sliver_to_graph_properties_dict` writes out and `set_base_sliver_properties_from_graph_properties_dict`
has to take back. The two facts about the code this depends on are generated by behavioural probes
(`Gen.Validators.writeFirst`: setters that assign before they check; `Gen.Validators.decodeAlters`: member words the decoder
does not hand to the setter as they are, e.g. a placeholder word such as "None" taken for "no value"). The model is written
over an arbitrary `KeptCfg`, so it says what happens when either list is not empty. -/

structure KeptCfg where
  writeFirst : List String
  decodeAlters : List String
  deriving Repr

/-- the configuration of the code as it is (regenerated every run) -/
def repoKept : KeptCfg := ⟨Gen.Validators.writeFirst, Gen.Validators.decodeAlters⟩

/-- `resource_name` and `boot_script` of one sliver object: any Python value (a setter that assigns first can leave anything) -/
structure Sliver where
  cls : String
  name : Val
  boot : Val
  deriving Repr, DecidableEq

inductive SetOp where
  | name (v : Val)
  | boot (v : Val)
  deriving Repr, DecidableEq

def optVal : Option (List Char) → Val
  | none => .none
  | some s => .str s

def stepSliver (cfg : KeptCfg) (s : Sliver) : SetOp → Sliver
  | .name v =>
    match setName s.cls v with
    | .ok n => { s with name := .str n }
    | .error _ => if cfg.writeFirst.contains "set_name" then { s with name := v } else s
  | .boot v =>
    match setBoot v with
    | .ok b => { s with boot := optVal b }
    | .error _ => if cfg.writeFirst.contains "set_boot_script" then { s with boot := v } else s

def runSliver (cfg : KeptCfg) (s : Sliver) (ops : List SetOp) : Sliver := ops.foldl (stepSliver cfg) s

/-- the decoder's view of one text property: absent, or the text - unless the text is one of the altered words -/
def decodeText (cfg : KeptCfg) : Val → Val
  | .str w => if cfg.decodeAlters.contains (String.ofList w) then .none else .str w
  | v => v

/-- encode (only what is not None is written; texts as they are), then decode into a fresh sliver of the class:
`set_properties(name=d.get(Name), ..., boot_script=d.get(BootScript))` -/
def reDecode (cfg : KeptCfg) (s : Sliver) : Res Sliver :=
  match setName s.cls (decodeText cfg s.name) with
  | .error e => .error e
  | .ok n =>
    match setBoot (decodeText cfg s.boot) with
    | .error e => .error e
    | .ok b => pure ⟨s.cls, .str n, optVal b⟩


end FimVerif.V16
