import FimVerif.Model.Lock
/-!
# C20, model B — threads running store operations under every interleaving

The shared state of a store is its id counters (`start_id` of the shared store is counter 0;
`graph_node_ids[g]` of the per-graph store is counter `g`; both start at 1) and its nodes.
A node is recorded as `(id space, internal id, owning graph)`; the list `nodes` records every
node that was added and not deleted.  The real stores keep nodes in dictionaries keyed by the
internal id, so two live nodes with the same `(space, id)` mean that the second silently
replaced the first: `dictView` is what such a dictionary would contain.

Atomicity.  One step of `step` is one micro-instruction, executed atomically.  The instructions `acq`, `rel`, `read`,
`bumpReg`, `setCtr`, `delSpace`, `delAll`, `ctor`, `reinit` and the atoms `ld`, `st`, `ins`, `rmOne` are each one attribute
load/store or one dictionary primitive of CPython, which the GIL makes atomic; `loc` / `rdg` have no effect on the modelled state.
The composite instructions `bump` (load + store), `add` / `addFrom` with more than one node (one dictionary insertion per
node) and `del` (one dictionary deletion per node) are NOT atomic in CPython: `Proofs/Lemmas/C20Fine.lean` gives their
expansion into atoms (`FineM`) and proves that the discipline monitor accepts the expanded programs, so every theorem about
accepted programs holds with thread switches between atoms as well (`C20.store_threads_safe_atomwise`).

Each thread runs a list of micro-instructions (`Lock.Micro`), one per step; `step t` performs
the next instruction of thread `t` (`none` when `t` is finished or blocked on the lock);
`run` follows an arbitrary schedule, skipping entries whose thread is not enabled.
`threading.Lock` semantics are kept as they are: `release` by *any* thread frees the lock;
releasing a free lock is an error (`RuntimeError` in CPython) recorded in `relErr`.
-/
namespace FimVerif.Sched
open FimVerif.Lock

structure Node where
  space : Nat
  id : Nat
  owner : Nat
  deriving DecidableEq, Repr, Inhabited

structure Shared where
  ctr : Nat → Nat
  nodes : List Node
  /-- identity of the store (and of its lock): incremented when the singleton is replaced by a fresh store -/
  gen : Nat := 0

structure Thread where
  prog : List Micro
  reg : Nat
  /-- second register: the value loaded by the first half of a counter increment -/
  tmp : Nat := 0
  deriving Inhabited

structure Sys where
  lock : Option Nat
  relErr : Bool
  sh : Shared
  thr : Nat → Thread

def upd {α : Type} (f : Nat → α) (i : Nat) (v : α) : Nat → α := fun j => if j = i then v else f j

@[simp] theorem upd_same {α : Type} (f : Nat → α) (i : Nat) (v : α) : upd f i v i = v := by simp [upd]
@[simp] theorem upd_other {α : Type} (f : Nat → α) (i j : Nat) (v : α) (h : j ≠ i) : upd f i v j = f j := by
  simp [upd, h]

/-- insert ids `lo .. lo+k-1` -/
def addIds (c g : Nat) : Nat → Nat → List Node → List Node
  | _, 0, l => l
  | lo, k + 1, l => addIds c g (lo + 1) k (⟨c, lo, g⟩ :: l)

/-- effect of one micro-instruction on the shared state and on the thread's register -/
def effect (m : Micro) (reg : Nat) (sh : Shared) : Shared × Nat :=
  match m with
  | .read c => (sh, sh.ctr c)
  | .bump c k => ({ sh with ctr := upd sh.ctr c (sh.ctr c + k) }, reg)
  | .bumpReg c k => ({ sh with ctr := upd sh.ctr c (reg + k) }, reg)
  | .setCtr c v => ({ sh with ctr := upd sh.ctr c v }, reg)
  | .add c g k => ({ sh with nodes := addIds c g reg k sh.nodes }, reg)
  | .addFrom c g lo k => ({ sh with nodes := addIds c g lo k sh.nodes }, reg)
  | .del g => ({ sh with nodes := sh.nodes.filter (fun n => n.owner != g) }, reg)
  | .delSpace c => ({ sh with nodes := sh.nodes.filter (fun n => n.space != c) }, reg)
  | .delAll => ({ sh with nodes := [] }, reg)
  | .ctor weak =>
    -- the singleton exists from the start; a weak creation guard takes an empty store for "no store yet"
    if weak && sh.nodes.isEmpty then (⟨fun _ => 1, [], sh.gen + 1⟩, reg) else (sh, reg)
  | .reinit => (⟨fun _ => 1, [], sh.gen + 1⟩, reg)
  | .ins c g off => ({ sh with nodes := addIds c g (reg + off) 1 sh.nodes }, reg)
  | .rmOne g => ({ sh with nodes := sh.nodes.eraseP (fun n => n.owner == g) }, reg)
  | _ => (sh, reg)

/-- `effect` extended to the two atoms that use the second register -/
def effectT (m : Micro) (reg tmp : Nat) (sh : Shared) : Shared × Nat × Nat :=
  match m with
  | .ld c => (sh, reg, sh.ctr c)
  | .st c k => ({ sh with ctr := upd sh.ctr c (tmp + k) }, reg, tmp)
  | _ => ((effect m reg sh).1, (effect m reg sh).2, tmp)

def step (t : Nat) (s : Sys) : Option Sys :=
  match (s.thr t).prog with
  | [] => none
  | m :: rest =>
    if m = .acq then
      match s.lock with
      | none => some { s with lock := some t, thr := upd s.thr t ⟨rest, (s.thr t).reg, (s.thr t).tmp⟩ }
      | some _ => none                                   -- blocked
    else if m = .rel then
      match s.lock with
      | none => some { s with relErr := true, thr := upd s.thr t ⟨rest, (s.thr t).reg, (s.thr t).tmp⟩ }
      | some _ => some { s with lock := none, thr := upd s.thr t ⟨rest, (s.thr t).reg, (s.thr t).tmp⟩ }
    else
      let r := effectT m (s.thr t).reg (s.thr t).tmp s.sh
      -- `reinit` installs a new lock object: it is free, whoever holds the old one
      some { s with lock := if m = .reinit then none else s.lock, sh := r.1, thr := upd s.thr t ⟨rest, r.2.1, r.2.2⟩ }

def run : List Nat → Sys → Sys
  | [], s => s
  | t :: ts, s =>
    match step t s with
    | none => run ts s
    | some s' => run ts s'

def initShared : Shared := ⟨fun _ => 1, [], 0⟩

def init (progs : List (List Micro)) : Sys :=
  ⟨none, false, initShared, fun t => ⟨progs.getD t [], 0, 0⟩⟩

def finished (s : Sys) : Prop := ∀ t, (s.thr t).prog = []

/-- executable `finished` for the first `n` threads -/
def finished' (n : Nat) (s : Sys) : Bool := (List.range n).all fun t => (s.thr t).prog.isEmpty

/-- the next lock operation of the remaining program is a release: the thread is inside a locked region -/
def inside : List Micro → Bool
  | [] => false
  | .acq :: _ => false
  | .rel :: _ => true
  | _ :: p => inside p

/-- key of a node in the store's dictionary -/
def Node.key (n : Node) : Nat × Nat := (n.space, n.id)

/-- what a dictionary keyed by `(space, id)` contains after the insertions recorded in `nodes`
(newest first): a later insertion under the same key replaces the earlier node -/
def dictView : List Node → List Node
  | [] => []
  | n :: l => n :: (dictView l).filter (fun m => m.key != n.key)

/-- sum of the sizes of the insertions into graph `g` in a program -/
def addsOf (g : Nat) : List Micro → Nat
  | [] => 0
  | .add _ g' k :: p => (if g' = g then k else 0) + addsOf g p
  | .addFrom _ g' _ k :: p => (if g' = g then k else 0) + addsOf g p
  | .ins _ g' _ :: p => (if g' = g then 1 else 0) + addsOf g p
  | _ :: p => addsOf g p

def isDelete : Micro → Bool
  | .del _ => true
  | .delSpace _ => true
  | .delAll => true
  | .rmOne _ => true
  | .reinit => true
  | _ => false

end FimVerif.Sched
