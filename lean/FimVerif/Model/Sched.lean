import FimVerif.Model.Lock
/-!
# C20, model B — threads running store operations under every interleaving

The shared state of a store is its id counters (`start_id` of the shared store is counter 0;
`graph_node_ids[g]` of the per-graph store is counter `g`; both start at 1) and its nodes.
A node is recorded as `(id space, internal id, owning graph)`; the list `nodes` records every
node that was added and not deleted.  The real stores keep nodes in dictionaries keyed by the
internal id, so two live nodes with the same `(space, id)` mean that the second silently
replaced the first: `dictView` is what such a dictionary would contain.

Each thread runs a list of micro-instructions (`Lock.Micro`), one per step; `step t` performs
the next instruction of thread `t` (`none` when `t` is finished or blocked on the lock);
`run` follows an arbitrary schedule, skipping entries whose thread is not enabled.
`threading.Lock` semantics are kept as they are: `release` by *any* thread frees the lock;
releasing a free lock is an error (`RuntimeError` in CPython) recorded in `relErr`.
-/
namespace FimVerif.Sched
open FimVerif.Lock

structure Node where
  space : Nat
  id : Nat
  owner : Nat
  deriving DecidableEq, Repr, Inhabited

structure Shared where
  ctr : Nat → Nat
  nodes : List Node
  /-- identity of the store (and of its lock): incremented when the singleton is replaced by a fresh store -/
  gen : Nat := 0

structure Thread where
  prog : List Micro
  reg : Nat
  deriving Inhabited

structure Sys where
  lock : Option Nat
  relErr : Bool
  sh : Shared
  thr : Nat → Thread

def upd {α : Type} (f : Nat → α) (i : Nat) (v : α) : Nat → α := fun j => if j = i then v else f j

@[simp] theorem upd_same {α : Type} (f : Nat → α) (i : Nat) (v : α) : upd f i v i = v := by simp [upd]
@[simp] theorem upd_other {α : Type} (f : Nat → α) (i j : Nat) (v : α) (h : j ≠ i) : upd f i v j = f j := by
  simp [upd, h]

/-- insert ids `lo .. lo+k-1` -/
def addIds (c g : Nat) : Nat → Nat → List Node → List Node
  | _, 0, l => l
  | lo, k + 1, l => addIds c g (lo + 1) k (⟨c, lo, g⟩ :: l)

/-- effect of one micro-instruction on the shared state and on the thread's register -/
def effect (m : Micro) (reg : Nat) (sh : Shared) : Shared × Nat :=
  match m with
  | .read c => (sh, sh.ctr c)
  | .bump c k => ({ sh with ctr := upd sh.ctr c (sh.ctr c + k) }, reg)
  | .bumpReg c k => ({ sh with ctr := upd sh.ctr c (reg + k) }, reg)
  | .setCtr c v => ({ sh with ctr := upd sh.ctr c v }, reg)
  | .add c g k => ({ sh with nodes := addIds c g reg k sh.nodes }, reg)
  | .addFrom c g lo k => ({ sh with nodes := addIds c g lo k sh.nodes }, reg)
  | .del g => ({ sh with nodes := sh.nodes.filter (fun n => n.owner != g) }, reg)
  | .delSpace c => ({ sh with nodes := sh.nodes.filter (fun n => n.space != c) }, reg)
  | .delAll => ({ sh with nodes := [] }, reg)
  | .ctor weak =>
    -- the singleton exists from the start; a weak creation guard takes an empty store for "no store yet"
    if weak && sh.nodes.isEmpty then (⟨fun _ => 1, [], sh.gen + 1⟩, reg) else (sh, reg)
  | _ => (sh, reg)

def step (t : Nat) (s : Sys) : Option Sys :=
  match (s.thr t).prog with
  | [] => none
  | m :: rest =>
    if m = .acq then
      match s.lock with
      | none => some { s with lock := some t, thr := upd s.thr t ⟨rest, (s.thr t).reg⟩ }
      | some _ => none                                   -- blocked
    else if m = .rel then
      match s.lock with
      | none => some { s with relErr := true, thr := upd s.thr t ⟨rest, (s.thr t).reg⟩ }
      | some _ => some { s with lock := none, thr := upd s.thr t ⟨rest, (s.thr t).reg⟩ }
    else
      let r := effect m (s.thr t).reg s.sh
      some { s with sh := r.1, thr := upd s.thr t ⟨rest, r.2⟩ }

def run : List Nat → Sys → Sys
  | [], s => s
  | t :: ts, s =>
    match step t s with
    | none => run ts s
    | some s' => run ts s'

def initShared : Shared := ⟨fun _ => 1, [], 0⟩

def init (progs : List (List Micro)) : Sys :=
  ⟨none, false, initShared, fun t => ⟨progs.getD t [], 0⟩⟩

def finished (s : Sys) : Prop := ∀ t, (s.thr t).prog = []

/-- executable `finished` for the first `n` threads -/
def finished' (n : Nat) (s : Sys) : Bool := (List.range n).all fun t => (s.thr t).prog.isEmpty

/-- the next lock operation of the remaining program is a release: the thread is inside a locked region -/
def inside : List Micro → Bool
  | [] => false
  | .acq :: _ => false
  | .rel :: _ => true
  | _ :: p => inside p

/-- key of a node in the store's dictionary -/
def Node.key (n : Node) : Nat × Nat := (n.space, n.id)

/-- what a dictionary keyed by `(space, id)` contains after the insertions recorded in `nodes`
(newest first): a later insertion under the same key replaces the earlier node -/
def dictView : List Node → List Node
  | [] => []
  | n :: l => n :: (dictView l).filter (fun m => m.key != n.key)

/-- sum of the sizes of the insertions into graph `g` in a program -/
def addsOf (g : Nat) : List Micro → Nat
  | [] => 0
  | .add _ g' k :: p => (if g' = g then k else 0) + addsOf g p
  | .addFrom _ g' _ k :: p => (if g' = g then k else 0) + addsOf g p
  | _ :: p => addsOf g p

def isDelete : Micro → Bool
  | .del _ => true
  | .delSpace _ => true
  | .delAll => true
  | _ => false

end FimVerif.Sched
