import FimVerif.Generated.QueryIdioms
/-!
# Neighbour and path queries of `NetworkXPropertyGraph` (C06)

A read-only *typed graph view* of one graph id in the store (what `storage.extract_graph`
hands to the query functions): nodes `(NodeID, Class)` and undirected edges
`(NodeID, NodeID, relation)`.  The view is built from the `add_node` / `add_link` calls made
for that graph id (`build`), with `nx.Graph.add_edge`'s replace-on-same-pair behaviour.

The query functions mirror the control flow of
`fim/graph/networkx_property_graph.py` / `networkx_mixin.py` statement by statement.  Which
variable each drop-list loop appends, and whether `_drop_edges_not_of_type` iterates over a
snapshot, is *read from the source on every run* (`Generated/QueryIdioms.lean`); the model has
both behaviours and selects by the generated flag.

Third-party pieces are modelled, not verified: `nx.shortest_path` by a layered breadth-first
search (`bfs`), `nx.all_simple_paths` by a depth-first enumeration with the cutoff as fuel
(`allSimple`), `nx.cycle_basis(G.subgraph(path)) == []` by "every edge of G with both ends on
the path joins two consecutive path nodes" (`chordFree`).
-/
namespace FimVerif.Query
open FimVerif.Gen

abbrev EdgeT := String × String × String

structure TGraph where
  nodes : List (String × String)
  edges : List EdgeT
deriving Repr, Inhabited

inductive Err where
  | query    -- PropertyGraphQueryException
  | type     -- TypeError (the "Unable to find graph" exception is built without its required node_id)
  | runtime  -- RuntimeError: dictionary changed size during iteration
deriving DecidableEq, Repr

def Err.kind : Err → String
  | .query => "query" | .type => "type" | .runtime => "runtime"

def empty : TGraph := ⟨[], []⟩

def verts (g : TGraph) : List String := g.nodes.map (·.1)

/-- `graph.nodes[m].get('Class')` -/
def classOf (g : TGraph) (m : String) : Option String := (g.nodes.find? (·.1 == m)).map (·.2)

/-- does edge `e` join `u` and `v` (either orientation) -/
def joins (e : EdgeT) (u v : String) : Bool := (e.1 == u && e.2.1 == v) || (e.1 == v && e.2.1 == u)

/-- the far end of `e` seen from `u` -/
def other (u : String) (e : EdgeT) : Option String :=
  if e.1 = u then some e.2.1 else if e.2.1 = u then some e.1 else none

/-- `graph.neighbors(u)` -/
def nbrs (g : TGraph) (u : String) : List String := g.edges.filterMap (other u)

/-- `graph.edges[(u, v)].get('Class')` -/
def relOf (g : TGraph) (u v : String) : Option String := (g.edges.find? (joins · u v)).map (·.2.2)

/-! ### building the view (`add_node`, `add_link` on one graph id) -/

def addNode (g : TGraph) (id cls : String) : TGraph :=
  if id ∈ verts g then g else { g with nodes := g.nodes ++ [(id, cls)] }

/-- `nx.Graph.add_edge(a, b, Class=r)`: an existing edge between the two nodes keeps its place and gets the new relation -/
def addLink (g : TGraph) (a r b : String) : TGraph :=
  if a ∈ verts g ∧ b ∈ verts g then
    if g.edges.any (joins · a b) then
      { g with edges := g.edges.map (fun e => if joins e a b then (e.1, e.2.1, r) else e) }
    else { g with edges := g.edges ++ [(a, b, r)] }
  else g

inductive Op where
  | node (id cls : String)
  | link (a r b : String)

def apply (g : TGraph) : Op → TGraph
  | .node i c => addNode g i c
  | .link a r b => addLink g a r b

def build (ops : List Op) : TGraph := ops.foldl apply empty

/-- well-formedness of a view: node ids distinct, edge ends are nodes, at most one edge per unordered pair -/
def wf (g : TGraph) : Bool :=
  decide (verts g).Nodup
  && g.edges.all (fun e => decide (e.1 ∈ verts g) && decide (e.2.1 ∈ verts g))
  && decide (g.edges.Pairwise (fun e f => joins f e.1 e.2.1 = false))

/-! ### common prologue of every query -/

/-- `storage.extract_graph(graph_id)` returns None for a graph without nodes; the exception raised for it
    lacks the mandatory `node_id` keyword, so what escapes is a TypeError -/
def extract (g : TGraph) : Except Err Unit := if g.nodes.isEmpty then .error .type else .ok ()

/-- `_find_node` (one graph id; ids distinct) -/
def findNode (g : TGraph) (n : String) : Except Err Unit := if n ∈ verts g then .ok () else .error .query

/-! ### first and second neighbours -/

/-- the drop-list loop
    `for v in cand: if graph.edges[(near, v)].get('Class') != r: drop.append(W)` followed by
    `cand.difference(drop)`.  `loopVar = true`: `W` is `v`.  `loopVar = false`: `W` is `near`, so the only
    node that can ever be removed is `near` itself. -/
def viaFilter (loopVar : Bool) (g : TGraph) (near : String) (cand : List String) (r : String) : List String :=
  if loopVar then cand.filter (fun v => relOf g near v == some r)
  else if cand.any (fun v => relOf g near v != some r) then cand.filter (fun v => v != near) else cand

/-- `_filter_nodes_by_label` -/
def filterByLabel (g : TGraph) (l : List String) (c : String) : List String :=
  l.filter (fun m => classOf g m == some c)

/-- `_get_first_neighbors_via` -/
def firstNeighborsVia (g : TGraph) (n r : String) : List String :=
  viaFilter QueryIdioms.firstViaDropsNeighbour g n (nbrs g n) r

/-- `get_first_neighbor` -/
def getFirstNeighbor (g : TGraph) (n r c : String) : Except Err (List String) := do
  extract g
  findNode g n
  pure (filterByLabel g (firstNeighborsVia g n r) c)

/-- second hop from the first-hop node `m` -/
def secondOf (hop2 : Bool) (g : TGraph) (n m r2 c2 : String) : List (String × String) :=
  let sn := viaFilter hop2 g m (nbrs g m) r2
  let sn := filterByLabel g sn c2
  if sn.isEmpty then [] else (sn.filter (fun k => k != n)).map (fun k => (m, k))

/-- body of `get_first_and_second_neighbor` after the prologue, parametrised by the two idiom flags -/
def twoHopWith (hop1 hop2 : Bool) (g : TGraph) (n r1 c1 r2 c2 : String) : List (String × String) :=
  let fn := viaFilter hop1 g n (nbrs g n) r1
  if fn.isEmpty then [] else
  (filterByLabel g fn c1).flatMap (fun m => secondOf hop2 g n m r2 c2)

def twoHop (g : TGraph) (n r1 c1 r2 c2 : String) : List (String × String) :=
  twoHopWith QueryIdioms.hop1DropsNeighbour QueryIdioms.hop2DropsNeighbour g n r1 c1 r2 c2

/-- `get_first_and_second_neighbor` -/
def getFirstAndSecondNeighbor (g : TGraph) (n r1 c1 r2 c2 : String) : Except Err (List (String × String)) := do
  extract g
  findNode g n
  pure (twoHop g n r1 c1 r2 c2)

/-! ### shortest path -/

/-- `_drop_edges_not_of_type` on the extracted copy -/
def dropWith (snapshot : Bool) (g : TGraph) (r : String) : Except Err TGraph :=
  if snapshot then .ok { g with edges := g.edges.filter (fun e => e.2.2 == r) }
  else if g.edges.all (fun e => e.2.2 == r) then .ok g else .error .runtime

def dropEdgesNotOfType (g : TGraph) (r : String) : Except Err TGraph :=
  dropWith QueryIdioms.dropIteratesSnapshot g r

def adjB (g : TGraph) (u v : String) : Bool := g.edges.any (joins · u v)

def hd (p : List String) : String := p.headD ""

/-- layered breadth-first search from the target back to `a`.  Every frontier entry is a path
    `v :: … :: [z]`; `unv` are the nodes not yet reached.  Stands in for `nx.shortest_path`. -/
def bfs (g : TGraph) (a : String) : Nat → List (List String) → List String → List String
  | 0, _, _ => []
  | fuel + 1, fr, unv =>
    match fr.find? (fun p => hd p == a) with
    | some p => p
    | none =>
      let nx := unv.filterMap (fun v => (fr.find? (fun p => adjB g v (hd p))).map (v :: ·))
      if nx.isEmpty then []
      else bfs g a fuel nx (unv.filter (fun v => !(fr.any (fun p => adjB g v (hd p)))))

def shortest (g : TGraph) (a z : String) : List String :=
  bfs g a ((verts g).length + 1) [[z]] ((verts g).filter (fun v => v != z))

/-- `get_nodes_on_shortest_path` -/
def getNodesOnShortestPath (g : TGraph) (a z : String) (rel : Option String) : Except Err (List String) := do
  extract g
  let g' ← match rel with
    | some r => dropEdgesNotOfType g r
    | none => pure g
  findNode g a
  findNode g z
  pure (shortest g' a z)

/-! ### path with hops -/

/-- all simple paths from `cur` to `z` that avoid `vis`, with at most `fuel` edges; stands in for
    `nx.all_simple_paths(graph, a, z, cutoff)` (depth-first, neighbours in adjacency order, a path stops at `z`) -/
def allSimple (g : TGraph) (z : String) : Nat → String → List String → List (List String)
  | 0, cur, _ => if cur = z then [[cur]] else []
  | fuel + 1, cur, vis =>
    if cur = z then [[cur]]
    else (nbrs g cur).flatMap (fun v =>
      if v ∈ cur :: vis then [] else (allSimple g z fuel v (cur :: vis)).map (cur :: ·))

/-- `u` immediately followed by `v` in `p` -/
def consec : List String → String → String → Bool
  | x :: y :: t, u, v => (x == u && y == v) || consec (y :: t) u v
  | _, _, _ => false

/-- `len(nx.cycle_basis(graph.subgraph(path))) == 0` for a simple path of `graph` -/
def chordFree (g : TGraph) (p : List String) : Bool :=
  g.edges.all (fun e => !(decide (e.1 ∈ p) && decide (e.2.1 ∈ p)) || consec p e.1 e.2.1 || consec p e.2.1 e.1)

def hopOk (g : TGraph) (hops : List String) (p : List String) : Bool :=
  chordFree g p && hops.all (fun h => decide (h ∈ p))

/-- `if not len(result) or len(result) > len(path): result = path` over the enumeration -/
def pickWith (strict : Bool) (ps : List (List String)) : List String :=
  ps.foldl (fun res p =>
    if res.isEmpty || (if strict then decide (res.length > p.length) else decide (res.length ≥ p.length)) then p else res) []

def pick (ps : List (List String)) : List String := pickWith QueryIdioms.hopsReplaceStrict ps

def pathWithHops (g : TGraph) (a z : String) (hops : List String) (cutoff : Nat) : List String :=
  pick ((allSimple g z cutoff a []).filter (hopOk g hops))

/-- `get_nodes_on_path_with_hops` -/
def getNodesOnPathWithHops (g : TGraph) (a z : String) (hops : List String) (cutoff : Nat) :
    Except Err (List String) := do
  extract g
  findNode g a
  findNode g z
  pure (pathWithHops g a z hops cutoff)

/-! ### derived helpers of `ABCPropertyGraph` (thin wrappers) -/

/-- `get_parent` (the id part): exactly one first neighbour, else None -/
def getParentId (g : TGraph) (n rel parent : String) : Except Err (Option String) := do
  let l ← getFirstNeighbor g n rel parent
  pure (match l with | [p] => some p | _ => none)

/-- `find_peer_connection_points` / `get_all_node_or_component_connection_points`: second components -/
def secondComponents (g : TGraph) (n r1 c1 r2 c2 : String) : Except Err (List String) := do
  let l ← getFirstAndSecondNeighbor g n r1 c1 r2 c2
  pure (l.map (·.2))

/-! ### derived helpers with a class gate

`labels, _ = self.get_node_properties(node_id=n)`; `if K1 not in labels and K2 not in labels …: raise
PropertyGraphQueryException`; then the neighbour query with fixed relation / class constants.  The admitted classes and
the constants are read from the source (`Generated/QueryIdioms.lean`). -/

/-- `get_node_properties(node_id)[0]`: the node must exist; its labels are the one-element *list* `[Class]` -/
def labelsOf (g : TGraph) (n : String) : Except Err (List String) :=
  match classOf g n with
  | some c => .ok [c]
  | none => .error .query

/-- the gate: raise unless one of the admitted classes is among the labels (list membership, whole names) -/
def classGate (g : TGraph) (n : String) (admitted : List String) : Except Err Unit := do
  let labels ← labelsOf g n
  if admitted.all (fun k => !(labels.contains k)) then .error .query else .ok ()

def arg (l : List String) (i : Nat) : String := l.getD i ""

/-- `get_all_ns_or_link_connection_points` -/
def linkCps (g : TGraph) (n : String) : Except Err (List String) := do
  classGate g n QueryIdioms.linkCpsGate
  getFirstNeighbor g n (arg QueryIdioms.linkCpsQuery 0) (arg QueryIdioms.linkCpsQuery 1)

/-- `get_all_child_connection_points` -/
def childCps (g : TGraph) (n : String) : Except Err (List String) := do
  classGate g n QueryIdioms.childCpsGate
  getFirstNeighbor g n (arg QueryIdioms.childCpsQuery 0) (arg QueryIdioms.childCpsQuery 1)

/-- `get_all_node_or_component_connection_points` -/
def nodeCps (g : TGraph) (n : String) : Except Err (List String) := do
  classGate g n QueryIdioms.nodeCpsGate
  secondComponents g n (arg QueryIdioms.nodeCpsQuery 0) (arg QueryIdioms.nodeCpsQuery 1)
    (arg QueryIdioms.nodeCpsQuery 2) (arg QueryIdioms.nodeCpsQuery 3)

/-- `find_peer_connection_points` (None is reported as the empty list); no gate -/
def peerCps (g : TGraph) (n : String) : Except Err (List String) :=
  secondComponents g n (arg QueryIdioms.peerQuery 0) (arg QueryIdioms.peerQuery 1)
    (arg QueryIdioms.peerQuery 2) (arg QueryIdioms.peerQuery 3)

end FimVerif.Query
