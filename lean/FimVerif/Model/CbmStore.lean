import FimVerif.Model.CbmPlan
/-!
# C14: the shared in-memory store and the broker calls as interpreters of their *plans*

`NetworkXGraphStorage`: one node list for all graphs (internal integer keys handed out from `start_id`, membership by the
`GraphID` property), edges between keys.  The primitives mirror the abstract graph interface as `merge_adm`, `unmerge_adm`,
`snapshot`, `rollback` use it (`clone_graph`, `update_nodes_property`, `rewrite_delegations`, `_update_node_delegations`,
`merge_nodes` = `nx.contracted_nodes`, `update_node_property`, `delete_node`, `delete_graph`, `cast_graph`); the four calls are
interpreters of `Plans` (generated from the source by `gen/cbmcfg.py`).  `Store.view` is what the abstract interface shows of
one graph; the driver checks on every request that the view of the combined model is what the abstract model
(`Model/Cbm.lean`, the subject of the theorems) computes, and `Proofs/Lemmas/C14Frame.lean` proves that no plan touches the
view of any graph other than the combined model and the temporary graph (the source models in particular).
-/
namespace FimVerif.Cbm

structure SNode where
  key : Nat
  gid : String
  n : Node
deriving DecidableEq, Repr, Inhabited

structure SEdge where
  ka : Nat
  kb : Nat
  props : Props
deriving DecidableEq, Repr, Inhabited

structure Store where
  nodes : List SNode
  edges : List SEdge
  next : Nat
deriving Repr, Inhabited

def Store.empty : Store := ⟨[], [], 1⟩

def Store.find (s : Store) (k : Nat) : Option SNode := s.nodes.find? (fun n => n.key == k)
def Store.nodesOf (s : Store) (g : String) : List SNode := s.nodes.filter (fun n => n.gid == g)
def Store.graphExists (s : Store) (g : String) : Bool := s.nodes.any (fun n => n.gid == g)
/-- `_find_node` (first match; NodeIDs are unique within a graph) -/
def Store.findNode (s : Store) (g : String) (i : String) : Option SNode := s.nodes.find? (fun n => n.gid == g && n.n.id == i)

/-- the edge `e` as graph `g` sees it -/
def Store.viewEdge (s : Store) (g : String) (e : SEdge) : Option Edge :=
  match s.find e.ka, s.find e.kb with
  | some x, some y => if x.gid == g && y.gid == g then some ⟨x.n.id, y.n.id, e.props⟩ else none
  | _, _ => none

/-- what the abstract graph interface shows of graph `g` -/
def Store.view (s : Store) (g : String) : Graph :=
  ⟨(s.nodesOf g).map (·.n), s.edges.filterMap (s.viewEdge g)⟩

def SEdge.touches (e : SEdge) (k : Nat) : Bool := e.ka == k || e.kb == k
def SEdge.joinsK (e : SEdge) (a b : Nat) : Bool := (e.ka == a && e.kb == b) || (e.ka == b && e.kb == a)

/-! ## primitives -/

/-- `storage.del_graph` -/
def Store.delGraph (s : Store) (g : String) : Store :=
  let dead := (s.nodesOf g).map (·.key)
  { s with nodes := s.nodes.filter (fun n => n.gid != g),
           edges := s.edges.filter (fun e => !dead.contains e.ka && !dead.contains e.kb) }

/-- `storage.add_graph(dst, extract_graph(src).copy())`: fresh keys from `start_id`, an existing graph `dst` is replaced -/
def Store.clone (s : Store) (src dst : String) : Except Err Store :=
  let ns := s.nodesOf src
  if ns.isEmpty then .error .attribute else                 -- extract_graph returns None; None.copy()
  let keys := ns.map (·.key)
  let es := s.edges.filter (fun e => keys.contains e.ka && keys.contains e.kb)
  let s0 := if s.graphExists dst then s.delGraph dst else s
  let new := fun (k : Nat) => s0.next + keys.idxOf k
  .ok { nodes := s0.nodes ++ ns.map (fun n => { n with key := new n.key, gid := dst }),
        edges := s0.edges ++ es.map (fun e => { e with ka := new e.ka, kb := new e.kb }),
        next := s0.next + ns.length }

/-- `add_graph` of a model given from outside (how the sources get into the store) -/
def Store.load (s : Store) (a : Adm) : Store :=
  let s0 := if s.graphExists a.id then s.delGraph a.id else s
  let ids := a.g.nodes.map (·.id)
  let new := fun (i : String) => s0.next + ids.idxOf i
  { nodes := s0.nodes ++ a.g.nodes.map (fun n => ⟨new n.id, a.id, n⟩),
    edges := s0.edges ++ a.g.edges.map (fun e => ⟨new e.a, new e.b, e.props⟩),
    next := s0.next + a.g.nodes.length }

/-- a property update on all nodes of a graph -/
def Store.mapGraph (s : Store) (g : String) (f : Node → Node) : Store :=
  { s with nodes := s.nodes.map (fun n => if n.gid == g then { n with n := f n.n } else n) }

/-- `update_nodes_property(GraphID, to)`: raises on a graph without nodes -/
def Store.rehome (s : Store) (g to : String) : Except Err Store :=
  if s.graphExists g then .ok { s with nodes := s.nodes.map (fun n => if n.gid == g then { n with gid := to } else n) }
  else .error .query

/-- a property update on one node -/
def Store.updNode (s : Store) (g : String) (i : String) (f : Node → Node) : Store :=
  { s with nodes := s.nodes.map (fun n => if n.gid == g && n.n.id == i then { n with n := f n.n } else n) }

def Store.delKey (s : Store) (k : Nat) : Store :=
  { s with nodes := s.nodes.filter (fun n => n.key != k), edges := s.edges.filter (fun e => !e.touches k) }

/-- `delete_node` -/
def Store.delNode (s : Store) (g : String) (i : String) : Store :=
  match s.findNode g i with
  | some x => s.delKey x.key
  | none => s

/-- the end of `e` (an edge at `v`) that is not `v`, as `nx.contracted_nodes(G, u, v)` re-attaches it (a self-loop of `v`
becomes one of `u`) -/
def otherEnd (u v : Nat) (e : SEdge) : Nat :=
  let z := if e.ka == v then e.kb else e.ka
  if z == v then u else z

/-- edges `nx.contracted_nodes(G, u, v)` adds at `u`: one for every edge of `v` whose other end `u` is not joined to yet -/
def contractAdd (u v : Nat) (rest : List SEdge) : List SEdge → List SEdge → List SEdge
  | acc, [] => acc
  | acc, e :: es =>
    if (rest ++ acc).any (fun f => f.joinsK u (otherEnd u v e)) then contractAdd u v rest acc es
    else contractAdd u v rest (acc ++ [⟨u, otherEnd u v e, e.props⟩]) es

/-- `merge_nodes(node_id, other_graph)` with the default policy: the node of `g` keeps its properties, the edges of the
other graph's node move over (an edge that already exists keeps its data), the other node goes -/
def Store.contract (s : Store) (g other : String) (i : String) : Store :=
  match s.findNode g i, s.findNode other i with
  | some u, some v =>
    let mine := s.edges.filter (fun e => e.touches v.key)
    let rest := s.edges.filter (fun e => !e.touches v.key)
    { s with nodes := s.nodes.filter (fun n => n.key != v.key), edges := rest ++ contractAdd u.key v.key rest [] mine }
  | _, _ => s

/-! ## interpreters -/

structure Env where
  cbm : String
  tmp : String
  adm : String
deriving Repr

def Env.get (e : Env) : G → String
  | .cbm => e.cbm | .tmp => e.tmp | .adm => e.adm

/-- `rewrite_delegations` on one node (label delegations first) -/
def rekeyNode (aid : String) (n : Node) : Except Err Node :=
  match n.ldel.rekey aid with
  | .error e => .error e
  | .ok ld =>
    match n.cdel.rekey aid with
    | .error e => .error e
    | .ok cd => .ok { n with ldel := ld, cdel := cd }

/-- `rewrite_delegations` over the nodes of graph `g` in store order; nodes before the one that raises are rewritten -/
def rewriteFrom (g aid : String) : List SNode → Option Err × List SNode
  | [] => (none, [])
  | n :: ns =>
    if n.gid == g then
      match rekeyNode aid n.n with
      | .error e => (some e, n :: ns)
      | .ok m => let r := rewriteFrom g aid ns; (r.1, { n with n := m } :: r.2)
    else let r := rewriteFrom g aid ns; (r.1, n :: r.2)

def execL (e : Env) (i : String) (s : Store) : LStep → Option Err × Store
  | .updateDelegations on frm =>
    match s.findNode (e.get on) i, s.findNode (e.get frm) i with
    | some u, some v =>
      if conflict u.n v.n then (some .query, s)
      else (none, s.updNode (e.get on) i (fun n => { n with ldel := n.ldel.take v.n.ldel, cdel := n.cdel.take v.n.cdel }))
    | _, _ => (some .query, s)
  | .mergeNodes on other =>
    match s.findNode (e.get on) i, s.findNode (e.get other) i with
    | some _, some _ => (none, s.contract (e.get on) (e.get other) i)
    | _, _ => (some .query, s)
  | .appendProvenance on by_ =>
    match s.findNode (e.get on) i with
    | some _ => (none, s.updNode (e.get on) i (fun n => { n with prov := n.prov ++ [e.get by_] }))
    | none => (some .query, s)

def execBody (e : Env) (i : String) : Store → List LStep → Option Err × Store
  | s, [] => (none, s)
  | s, st :: rest =>
    match execL e i s st with
    | (none, s') => execBody e i s' rest
    | r => r

def execLoop (e : Env) (body : List LStep) : Store → List String → Option Err × Store
  | s, [] => (none, s)
  | s, i :: is =>
    match execBody e i s body with
    | (none, s') => execLoop e body s' is
    | r => r

/-- ids present in both graphs, in the order of the first -/
def Store.commonIds (s : Store) (a b : String) : List String :=
  ((s.nodesOf a).map (·.n.id)).filter (fun i => ((s.nodesOf b).map (·.n.id)).contains i)

def sameMembers (x y : List String) : Bool := x.length == y.length && x.all y.contains && y.all x.contains

def execM (e : Env) (order : List String) : Store → List MStep → Option Err × Store
  | s, [] => (none, s)
  | s, st :: rest =>
    match st with
    | .clone src dst =>
      match s.clone (e.get src) (e.get dst) with
      | .error x => (some x, s)
      | .ok s' => execM e order s' rest
    | .rewriteDelegations g real =>
      match rewriteFrom (e.get g) (e.get real) s.nodes with
      | (some x, ns) => (some x, { s with nodes := ns })
      | (none, ns) => execM e order { s with nodes := ns } rest
    | .setProvenance g by_ => execM e order (s.mapGraph (e.get g) (fun n => { n with prov := [e.get by_] })) rest
    | .rehome g to =>
      match s.rehome (e.get g) (e.get to) with
      | .error x => (some x, s)
      | .ok s' => execM e order s' rest
    | .forCommon a b body =>
      let common := s.commonIds (e.get a) (e.get b)
      -- the iteration order of Python's set of common ids is given by the harness
      let ord := if sameMembers order common then order else common
      match execLoop e body s ord with
      | (none, s') => execM e order s' rest
      | r => r

/-- `merge_adm` -/
def Store.mergeAdm (P : Plans) (e : Env) (order : List String) (s : Store) : Option Err × Store :=
  if P.requireAdm && !s.graphExists e.adm then (some .assertion, s)
  else if s.graphExists e.cbm then execM e order s P.mergeNonEmpty else execM e order s P.mergeEmpty

/-- one element of `unmerge_adm`: `.error n'` = raised with the element left as `n'` -/
def unmergeNodeBy (gid : String) : List UStep → Node × Bool → Except Node (Node × Bool)
  | [], r => .ok r
  | .provenance :: rest, (n, _) =>
    let pd := provUnmerge gid n.prov
    unmergeNodeBy gid rest ({ n with prov := pd.1 }, pd.2)
  | .deleg true :: rest, (n, d) =>
    match n.cdel.unmerge gid with
    | .error _ => .error n
    | .ok cd => unmergeNodeBy gid rest ({ n with cdel := cd }, d)
  | .deleg false :: rest, (n, d) =>
    match n.ldel.unmerge gid with
    | .error _ => .error n
    | .ok ld => unmergeNodeBy gid rest ({ n with ldel := ld }, d)

/-- the element loop of `unmerge_adm` over the ids listed at the start; returns the ids to delete -/
def unmergeLoop (P : Plans) (cbm gid : String) : Store → List String → List String → Option Err × Store × List String
  | s, [], dels => (none, s, dels)
  | s, i :: is, dels =>
    match s.findNode cbm i with
    | none => (some .query, s, dels)
    | some x =>
      match unmergeNodeBy gid P.unmergeNode (x.n, false) with
      | .error n' => (some .query, s.updNode cbm i (fun _ => n'), dels)
      | .ok (n', del) =>
        let s' := s.updNode cbm i (fun _ => n')
        if del then
          if P.unmergeDeleteAfter then unmergeLoop P cbm gid s' is (dels ++ [i])
          else unmergeLoop P cbm gid (s'.delNode cbm i) is dels
        else unmergeLoop P cbm gid s' is dels

/-- `unmerge_adm` -/
def Store.unmergeAdm (P : Plans) (cbm gid : String) (s : Store) : Option Err × Store :=
  if !s.graphExists cbm then (some .query, s) else             -- list_all_node_ids on an empty graph
  match unmergeLoop P cbm gid s ((s.nodesOf cbm).map (·.n.id)) [] with
  | (some e, s', _) => (some e, s')
  | (none, s', dels) => (none, dels.foldl (fun t i => t.delNode cbm i) s')

def execR (e : Env) : Store → List RStep → Option Err × Store
  | s, [] => (none, s)
  | s, st :: rest =>
    match st with
    | .deleteGraph g => execR e (s.delGraph (e.get g)) rest
    | .assertExists g => if s.graphExists (e.get g) then execR e s rest else (some .assertion, s)
    | .rehome g to =>
      match s.rehome (e.get g) (e.get to) with
      | .error x => (some x, s)
      | .ok s' => execR e s' rest

/-! ## a broker on the shared store -/

/-- graph ids: the combined model, the temporary graphs of successive merges (uuids in the code), the snapshots -/
structure Names where
  cbm : String
  tmp : Nat → String
  snap : Nat → String

structure SWorld where
  s : Store
  next : Nat          -- index of the next snapshot
  tmp : Nat           -- number of merges so far
deriving Repr, Inhabited

inductive SOp where
  | merge (adm : String) (order : List String)   -- merge the graph with this id (it lies in the store)
  | unmerge (gid : String)
  | snapshot
  | rollback (k : Nat)
deriving Repr, Inhabited

def sstep (P : Plans) (N : Names) (w : SWorld) : SOp → Option Err × SWorld
  | .merge adm order =>
    let r := w.s.mergeAdm P ⟨N.cbm, N.tmp w.tmp, adm⟩ order
    (r.1, { w with s := r.2, tmp := w.tmp + 1 })
  | .unmerge gid =>
    let r := w.s.unmergeAdm P N.cbm gid
    (r.1, { w with s := r.2 })
  | .snapshot =>
    let r := execM ⟨N.cbm, N.snap w.next, N.cbm⟩ [] w.s P.snapshot
    (r.1, { w with s := r.2, next := if r.1.isNone then w.next + 1 else w.next })
  | .rollback k =>
    let r := execR ⟨N.cbm, N.snap k, N.cbm⟩ w.s P.rollback
    (r.1, { w with s := r.2 })

def srun (P : Plans) (N : Names) (w : SWorld) : List SOp → SWorld
  | [] => w
  | op :: ops => srun P N (sstep P N w op).2 ops

/-- the plans the abstract model (`mergeOrd`, `unmerge`, `snapshot`, `rollback` of Model/Cbm.lean) mirrors -/
def modelPlans : Plans :=
  { requireAdm := true,
    mergeEmpty := [.clone .adm .tmp, .rewriteDelegations .tmp .adm, .setProvenance .tmp .adm, .rehome .tmp .cbm],
    mergeNonEmpty := [.clone .adm .tmp, .rewriteDelegations .tmp .adm, .setProvenance .tmp .adm,
                      .forCommon .cbm .tmp [.updateDelegations .cbm .tmp, .mergeNodes .cbm .tmp, .appendProvenance .cbm .adm],
                      .rehome .tmp .cbm],
    unmergeNode := [.provenance, .deleg true, .deleg false],
    unmergeDeleteAfter := true,
    snapshot := [.clone .cbm .tmp],
    rollback := [.deleteGraph .cbm, .assertExists .tmp, .rehome .tmp .cbm] }

/-! ## comparing a view with the abstract model -/

def Edge.canon (e : Edge) : String × String × Props := if e.a ≤ e.b then (e.a, e.b, e.props) else (e.b, e.a, e.props)

/-- same node list; same edges up to order and orientation -/
def Graph.sameAs (g h : Graph) : Bool :=
  g.nodes == h.nodes && g.edges.length == h.edges.length &&
  g.edges.all (fun e => h.edges.any (fun f => e.canon == f.canon)) && h.edges.all (fun e => g.edges.any (fun f => e.canon == f.canon))

end FimVerif.Cbm
