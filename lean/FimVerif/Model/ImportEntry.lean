import FimVerif.Generated.ImportIds

/-!
# The importer entry points above the store models (C04, C20)

The store models know an import as a store operation that CARRIES its graph id (`Store.Op.addGraph g ig`,
`Store.Op.addGraphDirect g ig`; in C20's interleaving model the graph index inside the micro-instructions of `add_graph`).
A client, however, calls an importer entry point on a *document*:

* `import_graph_from_string(graph_string, graph_id)` / `import_graph_from_file(graph_file, graph_id)` — with a graph id;
* the same two without one — the library allocates the id;
* `import_graph_from_string_direct(graph_string)` / `import_graph_from_file_direct(graph_file)` — the document names its graph.

The harnesses lower such a call to the store operation on the graph id given by `target` below, and drive the implementation
through the entry points themselves (strings and work files that are rewritten between imports).  `target` is a function of
the call's own arguments, the document's content and the ids handed out so far — not of the path, and not of earlier calls.
Whether the entry points of the code behave like that is observed by `gen/importids.py` (`Gen.ImportIds`): the theorems
`C04.import_targets_are_modelled` and `C20.idless_imports_get_fresh_ids` say that the observed tables are the ones below.
-/
namespace FimVerif.ImportEntry

/-- how a call says which graph the document is for -/
inductive Addressing where
  /-- `graph_id=` given by the caller -/
  | named (g : String)
  /-- direct entry point: the id on the document's nodes -/
  | document
  /-- no id: the library picks one -/
  | idless
  deriving DecidableEq, Repr

/-- the graph id an import is filed under: `docId` = the GraphID the document's nodes carry (direct imports), `fresh` = the
    id the library generates for this call -/
def target (a : Addressing) (docId fresh : String) : String :=
  match a with
  | .named g => g
  | .document => docId
  | .idless => fresh

/-- the freshness the lowering of id-less imports relies on: the generated ids are pairwise distinct and none is in use -/
def Fresh (generated inUse : List String) : Prop := generated.Nodup ∧ ∀ g ∈ generated, g ∉ inUse

instance (a b : List String) : Decidable (Fresh a b) := by unfold Fresh; exact inferInstance

/-- under `Fresh`, id-less imports are addressed to pairwise different graphs, none of which a caller-chosen id names: the
    i-th and j-th id-less import of a history (i ≠ j) have different targets, whatever their documents say -/
theorem idless_targets_distinct {generated inUse : List String} (h : Fresh generated inUse) {i j : Nat}
    (hi : i < generated.length) (hj : j < generated.length) (hij : i ≠ j) (di dj : String) :
    target .idless di generated[i] ≠ target .idless dj generated[j] := by
  simp only [target]
  intro e
  exact hij ((List.getElem_inj h.1).mp e)

/-- ... and different from the target of every import that names a graph id in use -/
theorem idless_target_not_named {generated inUse : List String} (h : Fresh generated inUse) {i : Nat}
    (hi : i < generated.length) (g : String) (hg : g ∈ inUse) (d d' f : String) :
    target .idless d generated[i] ≠ target (.named g) d' f := by
  simp only [target]
  intro e
  exact h.2 _ (List.getElem_mem hi) (e ▸ hg)

/-- a direct import's target is a function of the document alone -/
theorem document_target_ignores_history (docId f f' : String) : target .document docId f = target .document docId f' := rfl

example : Fresh ["u1", "u2"] ["graph-1"] := by decide

/-- what the store models assume of the entry points, in the vocabulary of `Gen.ImportIds` (every row `true`) -/
def modelIdless : List (String × Bool) :=
  [("shared.import_graph_from_string", true), ("shared.import_graph_from_file", true),
   ("disjoint.import_graph_from_string", true), ("disjoint.import_graph_from_file", true)]

def modelNamed : List (String × Bool) := modelIdless

def modelDocument : List (String × Bool) :=
  [("shared.import_graph_from_string_direct", true), ("shared.import_graph_from_file_direct", true),
   ("disjoint.import_graph_from_string_direct", true), ("disjoint.import_graph_from_file_direct", true)]

end FimVerif.ImportEntry
