/-!
# AMap — association lists with Python `dict` behaviour (C04/C05)

A property dictionary is an insertion-ordered list of `(key, value)` pairs.  `set` overwrites the
first binding in place or appends (what `d[k] = v` does), `erase` removes every binding of the key
(`d.pop(k)`), `update` folds `set` over another dictionary (`d.update(e)`).  The laws below are all
that the store proofs use.  Core only (no Mathlib).
-/
namespace FimVerif.AMap

variable {α : Type}

def get (k : String) : List (String × α) → Option α
  | [] => none
  | p :: m => if p.1 = k then some p.2 else get k m

def set (k : String) (v : α) : List (String × α) → List (String × α)
  | [] => [(k, v)]
  | p :: m => if p.1 = k then (k, v) :: m else p :: set k v m

def erase (k : String) : List (String × α) → List (String × α)
  | [] => []
  | p :: m => if p.1 = k then erase k m else p :: erase k m

def has (k : String) (m : List (String × α)) : Bool := (get k m).isSome

/-- `m.update(upd)` -/
def update (m upd : List (String × α)) : List (String × α) :=
  upd.foldl (fun acc p => set p.1 p.2 acc) m

def keys (m : List (String × α)) : List String := m.map (·.1)

theorem get_set_eq (k : String) (v : α) (m : List (String × α)) : get k (set k v m) = some v := by
  induction m with
  | nil => simp [set, get]
  | cons p m ih => grind [get, set]

theorem get_set_ne (k k' : String) (v : α) (m : List (String × α)) (h : k' ≠ k) :
    get k' (set k v m) = get k' m := by
  induction m with
  | nil => grind [get, set]
  | cons p m ih => grind [get, set]

theorem get_erase_eq (k : String) (m : List (String × α)) : get k (erase k m) = none := by
  induction m with
  | nil => simp [erase, get]
  | cons p m ih => grind [get, erase]

theorem get_erase_ne (k k' : String) (m : List (String × α)) (h : k' ≠ k) :
    get k' (erase k m) = get k' m := by
  induction m with
  | nil => grind [get, erase]
  | cons p m ih => grind [get, erase]

theorem update_cons (m : List (String × α)) (p : String × α) (upd : List (String × α)) :
    update m (p :: upd) = update (set p.1 p.2 m) upd := rfl

theorem get_update_not_mem (k : String) (m upd : List (String × α)) (h : k ∉ keys upd) :
    get k (update m upd) = get k m := by
  induction upd generalizing m with
  | nil => simp [update]
  | cons p upd ih =>
    simp only [keys, List.map_cons, List.mem_cons, not_or] at h
    rw [update_cons, ih _ (by simpa [keys] using h.2), get_set_ne _ _ _ _ h.1]

theorem erase_of_get_none (k : String) (m : List (String × α)) (h : get k m = none) : erase k m = m := by
  induction m with
  | nil => rfl
  | cons p m ih => grind [get, erase]

/-- erasing a key commutes with setting another key -/
theorem erase_set_ne (k k' : String) (v : α) (m : List (String × α)) (h : k' ≠ k) :
    erase k' (set k v m) = set k v (erase k' m) := by
  induction m with
  | nil => grind [set, erase]
  | cons p m ih => grind [set, erase]

/-- erasing the key just set: the binding disappears whatever it was -/
theorem erase_set_eq (k : String) (v : α) (m : List (String × α)) :
    erase k (set k v m) = erase k m := by
  induction m with
  | nil => grind [set, erase]
  | cons p m ih => grind [set, erase]

theorem erase_erase_comm (k k' : String) (m : List (String × α)) :
    erase k (erase k' m) = erase k' (erase k m) := by
  induction m with
  | nil => rfl
  | cons p m ih => grind [erase]

theorem erase_update_not_mem (k : String) (m upd : List (String × α)) (h : k ∉ keys upd) :
    erase k (update m upd) = update (erase k m) upd := by
  induction upd generalizing m with
  | nil => simp [update]
  | cons p upd ih =>
    simp only [keys, List.map_cons, List.mem_cons, not_or] at h
    rw [update_cons, update_cons, ih _ (by simpa [keys] using h.2), erase_set_ne _ _ _ _ h.1]

theorem get_eq_none_iff (k : String) (m : List (String × α)) : get k m = none ↔ k ∉ keys m := by
  induction m with
  | nil => simp [get, keys]
  | cons p m ih => grind [get, keys]

theorem not_mem_keys_of_has_false (k : String) (m : List (String × α)) (h : has k m = false) : k ∉ keys m := by
  rw [← get_eq_none_iff]
  simpa [has] using h

end FimVerif.AMap
