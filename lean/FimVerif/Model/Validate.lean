import FimVerif.Generated.Constraints
/-!
# Slice validation (C10)

Executable model of `Topology.validate`, `Node.validate_constraints`,
`NetworkService.validate_constraints` / `__validate_nstype_constraints`,
`NetworkService.__service_guardrails` and the pre-checks of `connect_interface`.

The constraint table is a *parameter* (`Cfg.svc`, `Cfg.node`): the same functions are run
on the table regenerated from the source (`Gen.Constraints`) and on tables edited by the
harness, and the theorems in `Proofs/C10.lean` hold for every table.

Abstraction.  A node is its type and the set of property names that are set - a non-empty string or
any object (a node with components has `attached_components_info`) - together with those of them whose
value is an object without content (`hollow`) and the names that hold the empty string (`blank`, not
counted as set).  A service is its type, its declared site, its other set properties (same three
lists), the site of the node that owns the service itself
(none for a free-standing slice service) and its interfaces; an interface of a service is
either a `ServicePort` together with what `get_peers()` returns, or any other kind (then the
interface handed to the constraint check is that interface itself, owned by the service's
owner).  A node-side interface is its kind and its owner node's site (`none`: `get_owner_node`
returns `None`).

Everything follows the order of the checks in the code; the error kind is the Python exception
class (`topology` = TopologyException, `attribute` = AttributeError, `key` = KeyError).
The state (the services with their `site`) is returned on failure too: `validate` writes the
inferred site before later checks raise.
-/
namespace FimVerif.Validate
open FimVerif.Gen.Constraints (SvcRow NodeRow)

inductive Err | topology | attribute | key
  deriving DecidableEq, Repr

def Err.name : Err → String
  | .topology => "topology" | .attribute => "attribute" | .key => "key"

abbrev Res := Except Err Unit

instance : DecidableEq Res := fun a b =>
  match a, b with
  | .ok _, .ok _ => isTrue rfl
  | .error e, .error f =>
    if h : e = f then isTrue (by rw [h]) else isFalse (by intro h'; cases h'; exact h rfl)
  | .ok _, .error _ => isFalse (by intro h; cases h)
  | .error _, .ok _ => isFalse (by intro h; cases h)

/-- Python truthiness of a `str or None`. -/
def truthy : Option String → Bool
  | some s => s != ""
  | none => false

/-- What the model is parametric in: the two tables and the code facts the translator extracts. -/
structure Cfg where
  svc : List (String × SvcRow)
  node : List (String × NodeRow)
  nodeGetters : List String
  nodeShallow : List String
  /-- node properties the check reads through the node handle instead of the shallow sliver (components) -/
  nodeViaHandle : List String
  svcGetters : List String
  svcShallow : List String
  /-- constrained properties whose (non-string) value class defines `__len__`/`__bool__` -/
  svcFalsyCapable : List String
  nodeFalsyCapable : List String
  /-- the presence test of each of the four check loops: `true` = truthiness of the value, `false` = `is not None` -/
  svcReqTruthy : Bool
  svcForbTruthy : Bool
  nodeReqTruthy : Bool
  nodeForbTruthy : Bool
  /-- node types `Topology.validate` never hands to `validate_constraints` -/
  nodeTypesNotValidated : List String
  guardPairs : List (String × String)
  ctorRunsGuardrails : Bool
  connectRunsGuardrails : Bool

structure Node where
  ty : String
  /-- properties that are set: a non-empty string or any object -/
  props : List String
  /-- those of `props` whose value is an object without content: still set, but falsy if its class can be -/
  hollow : List String := []
  /-- properties that hold the empty string: not set, yet not `None` either -/
  blank : List String := []
  deriving DecidableEq, Repr

structure NIface where
  kind : String
  owner : Option String
  deriving DecidableEq, Repr

/-- An interface of a service. The list position is its identity; `name` is only a label: two interfaces
of one service may carry the same name (service ports are called `<node>-<interface>`), and the name-keyed
view `NetworkService.interfaces` then shows fewer entries than `interface_list`. `validate` walks the list. -/
inductive SIface
  | direct (name : String) (kind : String)
  | port (name : String) (peers : Option (List NIface))
  deriving Repr

def SIface.name : SIface → String
  | .direct n _ => n
  | .port n _ => n

def SIface.rename (f : String → String) : SIface → SIface
  | .direct n k => .direct (f n) k
  | .port n ps => .port (f n) ps

structure Svc where
  ty : String
  site : Option String
  /-- properties (other than `site`) that are set: a non-empty string or any object -/
  props : List String
  owner : Option String
  ifs : List SIface
  /-- those of `props` whose value is an object without content (an ERO that refers to a graph or has no
  payload): still set, but falsy if its class defines `__len__`/`__bool__` -/
  hollow : List String
  /-- properties (other than `site`) that hold the empty string: not set, yet not `None` either -/
  blank : List String := []
  deriving Repr

/-- the name-keyed view `NetworkService.interfaces` (a dict: one entry per distinct name) -/
def Svc.interfaceNames (s : Svc) : List String := (s.ifs.map SIface.name).eraseDups

def Svc.rename (f : String → String) (s : Svc) : Svc := { s with ifs := s.ifs.map (SIface.rename f) }

structure Topo where
  /-- the slice is an `ExperimentTopology` (interface-count limits apply) -/
  exp : Bool
  nodes : List Node
  svcs : List Svc
  deriving Repr

def Topo.rename (f : String → String) (t : Topo) : Topo := { t with svcs := t.svcs.map (Svc.rename f) }

/-! ### nodes : `Node.validate_constraints` -/

/-- What a presence test makes of a property: the truthiness test (`if [not] value`) sees a set value unless it is an
object without content of a class that can be falsy, and never an empty string; the `is not None` test sees both. -/
def present (truthyTest : Bool) (falsyCapable props hollow blank : List String) (p : String) : Bool :=
  if truthyTest then props.contains p && !(hollow.contains p && falsyCapable.contains p)
  else props.contains p || blank.contains p

/-- the check can read the property at all: through the node handle, or `node_sliver.property_exists(p)` and the shallow
sliver rebuilt from the graph node's property dictionary carries it -/
def nodeReadable (c : Cfg) (p : String) : Bool :=
  c.nodeViaHandle.contains p || (c.nodeGetters.contains p && c.nodeShallow.contains p)

/-- `__property_is_set(node_sliver, p)` as used by the loop with presence test `mode` -/
def nodeSees (c : Cfg) (mode : Bool) (n : Node) (p : String) : Bool :=
  nodeReadable c p && present mode c.nodeFalsyCapable n.props n.hollow n.blank p

def validateNode (c : Cfg) (n : Node) : Res :=
  match c.node.lookup n.ty with
  | none => .error .key
  | some row =>
    if row.req.all (nodeSees c c.nodeReqTruthy n) then
      if row.forb.any (nodeSees c c.nodeForbTruthy n) then .error .topology else .ok ()
    else .error .topology

def validateNodes (c : Cfg) : List Node → Res
  | [] => .ok ()
  | n :: ns =>
    match validateNode c n with
    | .ok _ => validateNodes c ns
    | .error e => .error e

/-- the nodes `Topology.validate` walks (`self.nodes`, which leaves Facility nodes out, and `self.facilities`) -/
def visibleNodes (c : Cfg) (t : Topo) : List Node :=
  t.nodes.filter fun n => !c.nodeTypesNotValidated.contains n.ty

/-! ### services -/

/-- the loop in `Topology.validate` that replaces every `ServicePort` by its single peer -/
def resolveOne (s : Svc) : SIface → Except Err NIface
  | .direct _ k => .ok ⟨k, s.owner⟩
  | .port _ (some [p]) => .ok p
  | .port _ _ => .error .topology

def resolve (s : Svc) : List SIface → Except Err (List NIface)
  | [] => .ok []
  | i :: is =>
    match resolveOne s i with
    | .error e => .error e
    | .ok n =>
      match resolve s is with
      | .error e => .error e
      | .ok ns => .ok (n :: ns)

/-- `for interface in interfaces: owner = get_owner_node(interface); sites.add(owner.site)`;
an interface without owner is refused -/
def ownerSites : List NIface → Except Err (List String)
  | [] => .ok []
  | i :: is =>
    match i.owner with
    | none => .error .topology
    | some x =>
      match ownerSites is with
      | .error e => .error e
      | .ok xs => .ok (x :: xs)

/-- a Python `set` of strings as a duplicate-free list (the last occurrence of each element is kept) -/
def dedup : List String → List String
  | [] => []
  | x :: xs => if xs.contains x then dedup xs else x :: dedup xs

/-- the `sites` set, as a duplicate-free list -/
def siteSet (row : SvcRow) (nifs : List NIface) : Except Err (List String) :=
  if row.numSites != 0 then
    match ownerSites nifs with
    | .error e => .error e
    | .ok xs => .ok (dedup xs)
  else .ok []

/-- `__validate_nstype_constraints`: result and the service's `site` afterwards -/
def nstypeConstraints (exp : Bool) (row : SvcRow) (s : Svc) (nifs : List NIface) : Res × Option String :=
  if exp && row.minIfs != 0 && decide (nifs.length < row.minIfs) then (.error .topology, s.site)
  else if exp && row.numIfs != 0 && decide (nifs.length > row.numIfs) then (.error .topology, s.site)
  else
    match siteSet row nifs with
    | .error e => (.error e, s.site)
    | .ok sites =>
      if decide (sites.length > row.numSites) then (.error .topology, s.site)
      else
        match sites with
        | [] => (.ok (), s.site)
        | [x] =>
          -- `old_site = self.site; inferred = sites.pop(); if not old_site: self.site = inferred`
          -- `if old_site and old_site != inferred: raise`
          if truthy s.site then
            (if s.site == some x then (.ok (), s.site) else (.error .topology, s.site))
          else (.ok (), some x)
        | _ => if truthy s.site then (.error .topology, s.site) else (.ok (), s.site)

/-- what the presence test `mode` makes of the value of a service property (`validate_constraints` tests
`if [not] sliver.get_property(p)`) -/
def valueSeen (c : Cfg) (mode : Bool) (s : Svc) (p : String) : Bool :=
  present mode c.svcFalsyCapable s.props s.hollow s.blank p

/-- ... and of the site the service has at that moment -/
def siteSeen (mode : Bool) (site : Option String) : Bool :=
  if mode then truthy site else site.isSome

/-- the presence test on `ns_sliver.get_property(p)`; no getter is an `AttributeError` -/
def svcSees (c : Cfg) (mode : Bool) (s : Svc) (site : Option String) (p : String) : Except Err Bool :=
  if c.svcGetters.contains p then
    .ok (c.svcShallow.contains p && (if p == "site" then siteSeen mode site else valueSeen c mode s p))
  else .error .attribute

def checkReq (c : Cfg) (s : Svc) (site : Option String) : List String → Res
  | [] => .ok ()
  | p :: ps =>
    match svcSees c c.svcReqTruthy s site p with
    | .error e => .error e
    | .ok true => checkReq c s site ps
    | .ok false => .error .topology

def checkForb (c : Cfg) (s : Svc) (site : Option String) : List String → Res
  | [] => .ok ()
  | p :: ps =>
    match svcSees c c.svcForbTruthy s site p with
    | .error e => .error e
    | .ok false => checkForb c s site ps
    | .ok true => .error .topology

def checkIfTypes (row : SvcRow) (nifs : List NIface) : Res :=
  if row.ifTypes.isEmpty then .ok ()
  else if nifs.all (fun i => row.ifTypes.contains i.kind) then .ok () else .error .topology

/-- `NetworkService.validate_constraints(interfaces)` -/
def validateConstraints (c : Cfg) (exp : Bool) (row : SvcRow) (s : Svc) (nifs : List NIface) : Res × Option String :=
  match nstypeConstraints exp row s nifs with
  | (.error e, site) => (.error e, site)
  | (.ok _, site) =>
    match checkReq c s site row.req with
    | .error e => (.error e, site)
    | .ok _ =>
      match checkForb c s site row.forb with
      | .error e => (.error e, site)
      | .ok _ => (checkIfTypes row nifs, site)

/-- one iteration of the service loop of `Topology.validate` -/
def validateSvc (c : Cfg) (exp : Bool) (s : Svc) : Res × Svc :=
  match c.svc.lookup s.ty with
  | none => (.error .key, s)
  | some row =>
    match resolve s s.ifs with
    | .error e => (.error e, s)
    | .ok nifs =>
      let r := validateConstraints c exp row s nifs
      (r.1, { s with site := r.2 })

def validateSvcs (c : Cfg) (exp : Bool) : List Svc → Res × List Svc
  | [] => (.ok (), [])
  | s :: rest =>
    match validateSvc c exp s with
    | (.error e, s') => (.error e, s' :: rest)
    | (.ok _, s') =>
      let r := validateSvcs c exp rest
      (r.1, s' :: r.2)

/-! ### instances per site -/

/-- contribution of one service to `services_per_site[site]`: only a service with a site counts -/
def instContribution (s : Svc) (site : String) : Nat :=
  if truthy s.site && s.site == some site then 1 else 0

def instCount (svcs : List Svc) (ty : String) (site : String) : Nat :=
  ((svcs.filter fun s => s.ty == ty).map fun s => instContribution s site).sum

/-- every site a count can be non-zero for -/
def mentionedSites (svcs : List Svc) : List String :=
  svcs.filterMap (fun s => if truthy s.site then s.site else none)

def instLimit (c : Cfg) (ty : String) : Nat :=
  match c.svc.lookup ty with
  | some row => row.numInst
  | none => 0

/-- A service of a limited type that has no site makes the loop `for interface in s.interfaces:` run over
the *names* of its interfaces; `get_owner_node(<str>)` returns (not raises) a `TopologyException` object and
`.site` on it is an `AttributeError`.  (Latent: no shipped row limits instances.) -/
def instCrash (c : Cfg) (svcs : List Svc) : Bool :=
  svcs.any fun s => instLimit c s.ty != 0 && !truthy s.site && !s.ifs.isEmpty

def instWithin (c : Cfg) (svcs : List Svc) : Bool :=
  svcs.all fun s =>
    instLimit c s.ty == 0 ||
      (mentionedSites svcs).all fun site => decide (instCount svcs s.ty site ≤ instLimit c s.ty)

/-- The instances-per-site pass. With several limited types the code visits them in `set` order; the model
reports the crash first, which is exact when one type is limited (all the harness generates). -/
def instances (c : Cfg) (svcs : List Svc) : Res :=
  if instCrash c svcs then .error .attribute
  else if instWithin c svcs then .ok () else .error .topology

/-! ### `Topology.validate` -/

def validate (c : Cfg) (t : Topo) : Res × Topo :=
  match validateNodes c (visibleNodes c t) with
  | .error e => (.error e, t)
  | .ok _ =>
    match validateSvcs c t.exp t.svcs with
    | (.error e, svcs') => (.error e, { t with svcs := svcs' })
    | (.ok _, svcs') =>
      (instances c svcs', { t with svcs := svcs' })

/-! ### connecting an interface -/

/-- `__service_guardrails(sliver, interface)` -/
def guardrails (c : Cfg) (ty kind : String) : Res :=
  if c.guardPairs.contains (ty, kind) then .error .topology else .ok ()

/-- The checks made when an interface is attached to a service: through the constructor's
`interfaces=` list (`viaCtor`) or by a direct `connect_interface` call. `ownerPresent`: the interface
belongs to a node; `connected`: it already has a peer. -/
def connect (c : Cfg) (viaCtor : Bool) (ty kind : String) (ownerPresent connected : Bool) : Res :=
  match (if (viaCtor && c.ctorRunsGuardrails) || c.connectRunsGuardrails then guardrails c ty kind else .ok ()) with
  | .error e => .error e
  | .ok _ =>
    if !ownerPresent then .error .topology
    else if connected then .error .topology
    else .ok ()

/-- The configuration regenerated from the source. -/
def genCfg : Cfg :=
  { svc := Gen.Constraints.svcRows, node := Gen.Constraints.nodeRows,
    nodeGetters := Gen.Constraints.nodeGetters, nodeShallow := Gen.Constraints.nodeShallow,
    nodeViaHandle := Gen.Constraints.nodeViaHandle,
    svcGetters := Gen.Constraints.svcGetters, svcShallow := Gen.Constraints.svcShallow,
    svcFalsyCapable := Gen.Constraints.svcFalsyCapable, nodeFalsyCapable := Gen.Constraints.nodeFalsyCapable,
    svcReqTruthy := Gen.Constraints.svcReqTruthy, svcForbTruthy := Gen.Constraints.svcForbTruthy,
    nodeReqTruthy := Gen.Constraints.nodeReqTruthy, nodeForbTruthy := Gen.Constraints.nodeForbTruthy,
    nodeTypesNotValidated := Gen.Constraints.nodeTypesNotValidated, guardPairs := Gen.Constraints.guardPairs,
    ctorRunsGuardrails := Gen.Constraints.ctorRunsGuardrails,
    connectRunsGuardrails := Gen.Constraints.connectRunsGuardrails }

end FimVerif.Validate
