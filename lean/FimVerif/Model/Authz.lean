import FimVerif.Generated.Authz
/-!
Executable model of `fim/authz/attribute_collector.py` (`ResourceAuthZAttributes`) and
`fim/logging/log_collector.py` (`LogCollector`), mirroring the code's control flow.

* `Attrs` is the `defaultdict(list)` `_attributes`: an insertion-ordered association list.
  `upd a k f` is every write access `d[k] = f(d[k])` (a missing key is created at the end with `f []`),
  so `d[k].append(v)` is `upd a k (· ++ [v])`, `d[k] = vs` is `upd a k (fun _ => vs)` and the key-creating
  *read* of a defaultdict (`x not in d[k]`) is `upd a k id`.
* `nodeStep`, `svcStep`, `collect` are `_collect_attributes_from_node_sliver`, `_collect_attributes_from_ns_sliver`
  (as repaired by the `fix:` commit: an in-slice PortMirror returns before listing its site) and
  `_collect_attributes_from_topo`.
* `svcStepLegacy` is the exemption as it was before the repair (append-if-absent, then `pop()` of the last
  element, key removed when the list becomes empty); kept only for `legacy_mirror_counterexample`.
* `toPdp` is `transform_to_pdp_request`; `logCollect` is `LogCollector._collect_attributes_from_topo`.
* `svcStepObj` / `dispatchAuthz` / `sharedSession`: the same steps with the caller's sliver *object* afterwards (the
  sliver dispatch is handed the caller's objects), as repaired by /repo 0131a6f; `svcStepObjLegacy` wrote the
  UNKNOWN-SITE placeholder into the object.
* `recordSites` / `collectAsm`: the ASM path (validate, then collect); `inferSite` is proved equal to C10's model of
  what `validate()` records (Proofs/Lemmas/C11Validate.lean).
No Mathlib.
-/
namespace FimVerif.Authz
open FimVerif.Gen.Authz

inductive Val where
  | s (v : String)
  | i (v : Int)
  deriving DecidableEq, Repr

structure Caps where
  core : Int
  ram : Int
  disk : Int
  deriving DecidableEq, Repr

/-- what the collectors read of a NodeSliver; `site = ""` stands for `None` and `''` (both falsy) -/
structure NodeS where
  name : String
  ntype : String
  site : String
  caps : Option Caps
  alloc : Option Caps
  comps : Option (List String)
  deriving DecidableEq, Repr

/-- what the collectors read of a NetworkServiceSliver; `bw = some b` iff `capacities` is set -/
structure SvcS where
  name : String
  stype : String
  site : String
  bw : Option Int
  mport : Option String
  deriving DecidableEq, Repr

/-- a node interface as `_collect_attributes_from_topo` sees it: `none` = no peer / peer without labels,
`some ln` = first peer has labels whose `local_name` is `ln` (possibly `None`) -/
abbrev Iface := Option (Option String)

structure Slice where
  nodes : List NodeS
  svcs : List SvcS
  facs : List String
  ifaces : List Iface
  deriving Repr

abbrev Attrs := List (Key × List Val)

def get : Attrs → Key → List Val
  | [], _ => []
  | (k', v) :: r, k => if k' = k then v else get r k

def upd : Attrs → Key → (List Val → List Val) → Attrs
  | [], k, f => [(k, f [])]
  | (k', v) :: r, k, f => if k' = k then (k', f v) :: r else (k', v) :: upd r k f

def keys (a : Attrs) : List Key := a.map (·.1)

/-- `del d[k]` -/
def del : Attrs → Key → Attrs
  | [], _ => []
  | (k', v) :: r, k => if k' = k then r else (k', v) :: del r k

/-- `if v not in d[k]: d[k].append(v)` on a defaultdict (the read creates the key) -/
def addIfAbsent (a : Attrs) (k : Key) (v : Val) : Attrs :=
  let a' := upd a k id
  if v ∈ get a' k then a' else upd a' k (· ++ [v])

def lutFind (t : String) : List (String × Key) → Option Key
  | [] => none
  | (t', k) :: r => if t' = t then some k else lutFind t r

def typeStep (a : Attrs) (n : NodeS) : Attrs :=
  if n.ntype = switchNodeType then upd a .RESOURCE_TYPE (fun _ => [.s switchType]) else a

def capsStep (a : Attrs) (n : NodeS) : Attrs :=
  match n.caps with
  | some c => upd (upd (upd a .RESOURCE_CPU (· ++ [.i c.core])) .RESOURCE_RAM (· ++ [.i c.ram])) .RESOURCE_DISK (· ++ [.i c.disk])
  | none => a

/-- `if sliver.site: if sliver.site not in d[RESOURCE_SITE]: d[RESOURCE_SITE].append(sliver.site)` (nodes and services) -/
def siteStep (a : Attrs) (site : String) : Attrs :=
  if site ≠ "" then addIfAbsent a .RESOURCE_SITE (.s site) else a

def compsStep (a : Attrs) (n : NodeS) : Attrs :=
  match n.comps with
  | some cs => cs.foldl (fun a c => upd a .RESOURCE_COMPONENT (· ++ [.s c])) a
  | none => a

/-- `_collect_attributes_from_node_sliver`, statement by statement -/
def nodeStep (a : Attrs) (n : NodeS) : Attrs :=
  compsStep (siteStep (capsStep (typeStep a n) n) n.site) n

def effSite (s : SvcS) : String := if s.site = "" then unknownSite else s.site

/-- the in-slice exemption: a PortMirror whose mirrored port is a port of the slice -/
def exempt (inPorts : List (Option String)) (s : SvcS) : Prop := s.stype = mirrorType ∧ s.mport ∈ inPorts

instance (inPorts : List (Option String)) (s : SvcS) : Decidable (exempt inPorts s) := by
  unfold exempt; exact inferInstance

def bwStep (a : Attrs) (s : SvcS) : Attrs :=
  match s.bw with
  | some b => upd a .RESOURCE_BW (· ++ [.i b])
  | none => a

/-- the `if sliver.resource_type in {...}` block (repaired: the exemption returns before the site is listed) -/
def listStep (inPorts : List (Option String)) (a : Attrs) (s : SvcS) : Attrs :=
  match lutFind s.stype nstypeLut with
  | none => a
  | some k => if exempt inPorts s then a else addIfAbsent a k (.s (effSite s))

/-- `_collect_attributes_from_ns_sliver` (repaired) -/
def svcStep (inPorts : List (Option String)) (a : Attrs) (s : SvcS) : Attrs :=
  listStep inPorts (siteStep (bwStep a s) s.site) s

/-- the same block before the repair: append-if-absent, then `pop()`; the key is removed when the list is empty -/
def listStepLegacy (inPorts : List (Option String)) (a : Attrs) (s : SvcS) : Attrs :=
  match lutFind s.stype nstypeLut with
  | none => a
  | some k =>
    let a := addIfAbsent a k (.s (effSite s))
    if exempt inPorts s ∧ (get a k).length ≠ 0 then
      let a := upd a k List.dropLast
      if (get a k).length = 0 then del a k else a
    else a

def svcStepLegacy (inPorts : List (Option String)) (a : Attrs) (s : SvcS) : Attrs :=
  listStepLegacy inPorts (siteStep (bwStep a s) s.site) s

def inPorts (ifs : List Iface) : List (Option String) := ifs.filterMap id

def init : Attrs := [(.RESOURCE_TYPE, [.s initType])]

def facStep (a : Attrs) (f : String) : Attrs := upd a .RESOURCE_FACILITY_PORT (· ++ [.s f])

/-- `_collect_attributes_from_topo` on a fresh collector -/
def collect (sl : Slice) : Attrs :=
  let a := sl.nodes.foldl nodeStep init
  let a := sl.svcs.foldl (svcStep (inPorts sl.ifaces)) a
  sl.facs.foldl facStep a

def collectLegacy (sl : Slice) : Attrs :=
  let a := sl.nodes.foldl nodeStep init
  let a := sl.svcs.foldl (svcStepLegacy (inPorts sl.ifaces)) a
  sl.facs.foldl facStep a

/-! ### transform_to_pdp_request -/

structure PAttr where
  id : String
  dataType : String
  value : List Val
  deriving DecidableEq, Repr

abbrev Pdp := List (String × List PAttr)

/-- one iteration of `for k, v in self._attributes.items()`; `none` = KeyError on the table -/
def pdpStep (cats : Pdp) (kv : Key × List Val) : Option Pdp :=
  match kv.1.dataType, kv.1.category with
  | some dt, some c => some (cats.map fun p => if p.1 = c then (p.1, p.2 ++ [⟨kv.1.id, dt, kv.2⟩]) else p)
  | _, _ => none

def pdpFold : Pdp → Attrs → Option Pdp
  | cats, [] => some cats
  | cats, kv :: r => match pdpStep cats kv with
    | some cats' => pdpFold cats' r
    | none => none

def toPdp (a : Attrs) : Option Pdp := pdpFold (categories.map (·, [])) a

/-! ### LogCollector -/

structure Log where
  nodes : List Caps := []
  cores : Int := 0
  vm : Nat := 0
  p4 : Nat := 0
  comps : List (String × Nat) := []
  svcs : List (String × Int) := []
  facs : List String := []
  sites : List String := []
  deriving Repr

/-- `set.add` on a duplicate-free list -/
def addSet (l : List String) (x : String) : List String := if x ∈ l then l else l ++ [x]

/-- `d[t] = d.get(t, 0) + 1` -/
def bump : List (String × Nat) → String → List (String × Nat)
  | [], t => [(t, 1)]
  | (t', n) :: r, t => if t' = t then (t', n + 1) :: r else (t', n) :: bump r t

def cnt : List (String × Nat) → String → Nat
  | [], _ => 0
  | (t', n) :: r, t => if t' = t then n else cnt r t

def vmType : String := "VM"
def swType : String := "Switch"
def facType : String := "Facility"

/-- the `if / elif / elif` on the node type -/
def logKind (l : Log) (n : NodeS) : Log :=
  if n.ntype = vmType then
    let l := { l with vm := l.vm + 1 }
    let cap := match n.alloc with
      | some c => some c
      | none => n.caps
    match cap with
    | some c => { l with cores := l.cores + c.core, nodes := l.nodes ++ [c] }
    | none => l
  else if n.ntype = swType then { l with p4 := l.p4 + 1 }
  else if n.ntype = facType then { l with facs := addSet l.facs n.name }
  else l

/-- `if sliver.site: sites.add(sliver.site)` (nodes and services) -/
def logSite (l : Log) (site : String) : Log :=
  if site ≠ "" then { l with sites := addSet l.sites site } else l

def logComps (l : Log) (n : NodeS) : Log :=
  match n.comps with
  | some cs => { l with comps := cs.foldl bump l.comps }
  | none => l

/-- `LogCollector._collect_attributes_from_node_sliver`, statement by statement -/
def logNode (l : Log) (n : NodeS) : Log := logComps (logSite (logKind l n) n.site) n

/-- `LogCollector._collect_attributes_from_ns_sliver` -/
def logSvc (l : Log) (s : SvcS) : Log :=
  logSite { l with svcs := l.svcs ++ [(s.stype, s.bw.getD 0)] } s.site

def logFac (l : Log) (f : String) : Log := { l with facs := addSet l.facs f }

def logCollect (sl : Slice) : Log :=
  let l := sl.nodes.foldl logNode {}
  let l := sl.svcs.foldl logSvc l
  sl.facs.foldl logFac l

/-! ### the caller's sliver objects

`collect_resource_attributes(source=<sliver>)` is handed the caller's own sliver objects (an aggregate manager authorizes a
sliver and then logs it). The step functions above are functional; these say what the *object* looks like afterwards. -/

/-- `_collect_attributes_from_ns_sliver` with the sliver object afterwards (as repaired by /repo 0131a6f: the
UNKNOWN-SITE placeholder is put on a copy, the caller's object keeps its site) -/
def svcStepObj (inPorts : List (Option String)) (a : Attrs) (s : SvcS) : Attrs × SvcS := (svcStep inPorts a s, s)

/-- before the repair: `sliver.site = "UNKNOWN-SITE"` was assigned on the caller's object (services of a listed type) -/
def svcStepObjLegacy (inPorts : List (Option String)) (a : Attrs) (s : SvcS) : Attrs × SvcS :=
  (svcStep inPorts a s,
   match lutFind s.stype nstypeLut with
   | some _ => { s with site := effSite s }
   | none => s)

/-- one authorization collection over the caller's slivers through the sliver dispatch (no in-slice ports, no
facilities): the attributes, and the service objects as they are afterwards -/
def dispatchAuthz (step : Attrs → SvcS → Attrs × SvcS) (ns : List NodeS) (ss : List SvcS) : Attrs × List SvcS :=
  ss.foldl (fun (p : Attrs × List SvcS) s => ((step p.1 s).1, p.2 ++ [(step p.1 s).2])) (ns.foldl nodeStep init, [])

/-- authorize, log, authorize again - the same objects throughout -/
def sharedSession (step : Attrs → SvcS → Attrs × SvcS) (ns : List NodeS) (ss : List SvcS) : Attrs × Log × Attrs :=
  let r1 := dispatchAuthz step ns ss
  let l1 := logCollect ⟨ns, r1.2, [], []⟩
  let r2 := dispatchAuthz step ns r1.2
  (r1.1, l1, r2.1)

/-! ### the ASM path

`_collect_attributes_from_asm` (both collectors): rebuild an ExperimentTopology from the serialised model,
`t.validate()`, then `_collect_attributes_from_topo(t)`. What `validate()` contributes to the collectors is the site it
records on a service that spans exactly one site and declared none (`NetworkService.__validate_nstype_constraints`). -/

/-- a service as the serialised model carries it: declared site (or none), plus what `validate()` looks at -/
structure RawSvc where
  svc : SvcS
  /-- site of the owner node of every attached interface, in the order validate() traces them -/
  osites : List String
  /-- `ServiceConstraints[type].num_sites != NO_LIMIT` (only then are the owner sites gathered) -/
  limited : Bool
  deriving Repr

/-- `__validate_nstype_constraints`: `if len(sites) == 1: if not self.site: self.site = sites.pop()` -/
def inferSite (r : RawSvc) : SvcS :=
  if r.limited then
    match r.osites.foldl addSet [] with
    | [x] => if r.svc.site = "" then { r.svc with site := x } else r.svc
    | _ => r.svc
  else r.svc

structure RawSlice where
  nodes : List NodeS
  svcs : List RawSvc
  facs : List String
  ifaces : List Iface
  deriving Repr

/-- the slice as the collectors see it once `validate()` has run -/
def recordSites (rs : RawSlice) : Slice :=
  { nodes := rs.nodes, svcs := rs.svcs.map inferSite, facs := rs.facs, ifaces := rs.ifaces }

/-- `ResourceAuthZAttributes._collect_attributes_from_asm`: validate, then collect -/
def collectAsm (rs : RawSlice) : Attrs := collect (recordSites rs)

/-- `LogCollector._collect_attributes_from_asm`: validate, then collect -/
def logCollectAsm (rs : RawSlice) : Log := logCollect (recordSites rs)

/-- the model a validated topology serialises to: the inferred sites are stored on the services -/
def stamp (rs : RawSlice) : RawSlice :=
  { rs with svcs := rs.svcs.map fun r => { r with svc := inferSite r } }

/-! ### value objects: what a caller may do with the objects a slice hands out (seeded C11-r6-1)

`readsFresh` (Generated/Authz.lean, a behavioural probe on a real topology) says whether a read parses the stored text
into an object of its own; the `fresh = false` reading (a parse memo keyed by the text) is kept for the counterexample. -/

namespace VObj

/-- the caller's view of the value objects of a slice: element `i` *stores* a property text (`stored[i]`, the value the text
denotes; `none` = unset); reading it (`element.capacities`, `get_sliver().capacities`) parses the text into an object the
caller holds by handle and may change in place; writing (`element.capacities = obj`, `set_property`) serialises the
object's value at that moment. `memo`: a parse memo (value of the text ↦ handle), consulted only when reads are not fresh. -/
structure St (α : Type) where
  stored : List (Option α)
  heap : List α
  memo : List (α × Nat)

inductive Op (α : Type) where
  | read (i : Nat)
  | new (v : α)
  | poke (h : Nat) (v : α)
  | write (i h : Nat)
  | unset (i : Nat)

def Op.writes {α} : Op α → Option Nat
  | .write i _ => some i
  | .unset i => some i
  | _ => none

variable {α : Type} [DecidableEq α]

def lookup (m : List (α × Nat)) (v : α) : Option Nat := (m.find? (·.1 = v)).map (·.2)

def step (fresh : Bool) (st : St α) : Op α → St α
  | .read i =>
    match st.stored[i]? with
    | some (some v) =>
      if fresh then { st with heap := st.heap ++ [v] }
      else match lookup st.memo v with
        | some _ => st
        | none => { st with heap := st.heap ++ [v], memo := (v, st.heap.length) :: st.memo }
    | _ => st
  | .new v => { st with heap := st.heap ++ [v] }
  | .poke h v => { st with heap := st.heap.set h v }
  | .write i h =>
    match st.heap[h]? with
    | some v => { st with stored := st.stored.set i (some v) }
    | none => st
  | .unset i => { st with stored := st.stored.set i none }

def run (fresh : Bool) (st : St α) (ops : List (Op α)) : St α := ops.foldl (step fresh) st

/-- what a collector reads of element `i` (it reads like everybody else: through the parse) -/
def presented (fresh : Bool) (st : St α) (i : Nat) : Option α :=
  match st.stored[i]? with
  | some (some v) =>
    if fresh then some v
    else match lookup st.memo v with
      | some h => st.heap[h]?
      | none => some v
  | _ => none

def storedAt (st : St α) (i : Nat) : Option α := (st.stored[i]?).join

theorem presented_fresh (st : St α) (i : Nat) : presented true st i = storedAt st i := by
  unfold presented storedAt
  cases h : st.stored[i]? with
  | none => simp
  | some o => cases o <;> simp

theorem step_frame (fresh : Bool) (st : St α) (op : Op α) (j : Nat) (h : op.writes ≠ some j) :
    (step fresh st op).stored[j]? = st.stored[j]? := by
  cases op with
  | read i =>
    simp only [step]
    split
    · split
      · rfl
      · split <;> rfl
    · rfl
  | new v => rfl
  | poke h v => rfl
  | write i hd =>
    simp only [step]
    have hij : i ≠ j := by intro e; apply h; simp [Op.writes, e]
    split
    · simp [List.getElem?_set_ne hij]
    · rfl
  | unset i =>
    simp only [step]
    have hij : i ≠ j := by intro e; apply h; simp [Op.writes, e]
    simp [List.getElem?_set_ne hij]

theorem run_frame (fresh : Bool) (ops : List (Op α)) (st : St α) (j : Nat) (h : ∀ op ∈ ops, op.writes ≠ some j) :
    (run fresh st ops).stored[j]? = st.stored[j]? := by
  induction ops generalizing st with
  | nil => rfl
  | cons op ops ih =>
    simp only [run, List.foldl_cons]
    have := ih (step fresh st op) (fun o ho => h o (List.mem_cons_of_mem _ ho))
    simp only [run] at this
    rw [this, step_frame fresh st op j (h op List.mem_cons_self)]

theorem run_no_write (fresh : Bool) (ops : List (Op α)) (st : St α) (h : ∀ op ∈ ops, op.writes = none) :
    (run fresh st ops).stored = st.stored := by
  apply List.ext_getElem?
  intro j
  exact run_frame fresh ops st j (fun o ho => by rw [h o ho]; simp)

/-- read - change in place - write back on element `i` (any other reads, new objects and pokes of OTHER handles in between
are covered by `run_frame`) -/
theorem rmw (st : St α) (i : Nat) (v0 v : α) (hi : st.stored[i]? = some (some v0)) :
    storedAt (run true st [.read i, .poke st.heap.length v, .write i st.heap.length]) i = some v := by
  have hlt : i < st.stored.length := by
    rcases Nat.lt_or_ge i st.stored.length with h | h
    · exact h
    · rw [List.getElem?_eq_none h] at hi; cases hi
  have h1 : step true st (.read i) = { st with heap := st.heap ++ [v0] } := by
    simp only [step, hi]; rfl
  simp only [run, List.foldl_cons, List.foldl_nil, h1]
  simp [step, storedAt, hlt]

end VObj

/-! ### views of a topology object that is edited between collections (seeded C11-r7-1)

`viewsLive` (Generated/Authz.lean, a behavioural probe on a real topology) says whether the views a collector reads show the
slice as it is at the time of the read; the `live = false` reading (the interface view kept from an earlier read for as long
as the set of nodes stays the same) is kept for the counterexample. -/

namespace View

/-- one topology object across collections: `cur` = the slice as it is stored now; `memo` = the interface view kept from an
earlier read, with the node names it was computed for (consulted only when views are not live) -/
structure St where
  cur : Slice
  memo : Option (List String × List Iface)

def nodeKey (sl : Slice) : List String := sl.nodes.map (·.name)

/-- `topo.interface_list` as a collector reads it -/
def ifacesRead (live : Bool) (st : St) : List Iface :=
  if live then st.cur.ifaces
  else match st.memo with
    | some (k, v) => if k = nodeKey st.cur then v else st.cur.ifaces
    | none => st.cur.ifaces

/-- the slice a collector is presented with -/
def presented (live : Bool) (st : St) : Slice := { st.cur with ifaces := ifacesRead live st }

/-- a collection reads the views (and leaves the memo behind when views are not live) -/
def afterRead (live : Bool) (st : St) : St :=
  if live then st else { st with memo := some (nodeKey st.cur, ifacesRead live st) }

/-- an edit (components, services, nodes added / removed, labels set) leaves another slice stored in the same object -/
def edit (st : St) (sl : Slice) : St := { st with cur := sl }

/-- a history: collect, edit, collect, edit, ... -/
def runHist (live : Bool) (st : St) : List Slice → St
  | [] => st
  | sl :: rest => runHist live (edit (afterRead live st) sl) rest

end View

/-- the nodes of a slice with the sizes their elements present to a reader (node `i` is element `i`) -/
def withCaps (fresh : Bool) (ns : List NodeS) (st : VObj.St Caps) : List NodeS :=
  ns.mapIdx fun i n => { n with caps := VObj.presented fresh st i }

/-- the services of a slice with the bandwidths their elements present -/
def withBw (fresh : Bool) (ss : List SvcS) (st : VObj.St Int) : List SvcS :=
  ss.mapIdx fun i s => { s with bw := VObj.presented fresh st i }

/-- the slice a collector is presented with when the sizes / bandwidths are read off the live elements -/
def liveSlice (fresh : Bool) (sl : Slice) (sizes : VObj.St Caps) (bws : VObj.St Int) : Slice :=
  { sl with nodes := withCaps fresh sl.nodes sizes, svcs := withBw fresh sl.svcs bws }

end FimVerif.Authz
