/-!
# The values `prop_diff` compares (C17): `Labels.__eq__`, `Capacities.__eq__`, `JSONData.__eq__` as written

`BaseSliver.prop_diff` asks `self.get_x() != other.get_x()`; what that means is decided by the value classes of
`fim/slivers/capacities_labels.py` and `fim/slivers/json_data.py`:

* `Labels.__eq__` / `Capacities.__eq__`:  `if not other: return False` (a `None` test: the classes define no `__bool__` /
  `__len__`), then `for f, v in self.__dict__.items(): if v != other.__dict__.get(f[, 0]): return False`, `return True`.
  An instance is its field dictionary (`Fields`, in `__dict__` order); a field holds `None`, an int, a string or a list of strings.
* `JSONData.__eq__`: same class and equal canonical text `json.dumps(json.loads(text), sort_keys=True)`.  A decoded JSON value is
  a `J`; its canonical text is determined by the value with the members of every object sorted by key (`J.canon`): numbers are
  kept as the token Python prints (`1`, `1.0`, `1e+22`), so `1` and `1.0`, `true` and `1` stay different, as they do in the text.
* `x != y` on two optional values (`None` or an instance) is `optNe`.

The sliver model (`Model/Diff.lean`) is generic in the type `V` of property values with decidable equality; it is used with
the canonical forms `Val` below.  `Proofs/Lemmas/C17Val.lean` proves that equality of canonical forms is the classes' own
equality (for two instances with the same fields, i.e. of the same library version).
-/
namespace FimVerif.DiffVal

/-- value of one field of a `Labels` / `Capacities` instance -/
inductive FV where
  | null
  | int (n : Int)
  | str (s : String)
  | strs (l : List String)
deriving DecidableEq, Repr

/-- `instance.__dict__` in insertion order -/
abbrev Fields := List (String × FV)

/-- `d.get(f)` -/
def lookup (d : Fields) (f : String) : Option FV := (d.find? (fun e => e.1 == f)).map (·.2)

/-- the default of `other.__dict__.get(f[, n])` as extracted (`Model/DiffCfg.lean`, `ValCfg`) -/
def missingFV : Option Int → FV
  | none => .null
  | some n => .int n

/-- the loop of `Labels.__eq__` (`missing` = `None`) and `Capacities.__eq__` (`missing` = `0`):
    `for f, v in self.__dict__.items(): if v != other.__dict__.get(f, missing): return False`; `return True` -/
def fieldsEq (missing : FV) (a b : Fields) : Bool :=
  a.all (fun e => e.2 == (lookup b e.1).getD missing)

/-- Python's `x == y` for `x, y` each `None` or an instance of a class whose `__eq__` starts with `if not other: return False`
    and which defines no truth value of its own: `None == None`, an instance never equals `None` (from either side: the
    reflected call lands in the same `__eq__`), two instances are compared by `eq` of the left one -/
def optEq {α : Type} (eq : α → α → Bool) : Option α → Option α → Bool
  | none, none => true
  | some a, some b => eq a b
  | _, _ => false

/-- `x != y` (no `__ne__` is defined: Python negates `__eq__`) -/
def optNe {α : Type} (eq : α → α → Bool) (x y : Option α) : Bool := !optEq eq x y

/-- a decoded JSON value.  One flat inductive: `arr` holds a `cons` / `nil` chain, `obj` a `mem` / `nil` chain -/
inductive J where
  | null
  | bool (b : Bool)
  | num (tok : String)
  | str (s : String)
  | arr (items : J)
  | obj (members : J)
  | nil
  | cons (h : J) (t : J)
  | mem (k : String) (v : J) (t : J)
deriving DecidableEq, Repr

/-- insert a member into a chain sorted by key (`sort_keys=True` sorts the `str` keys by code point, as `String.<` does) -/
def J.insert (k : String) (v : J) : J → J
  | .mem k' v' t => if k < k' then .mem k v (.mem k' v' t) else .mem k' v' (J.insert k v t)
  | other => .mem k v other

/-- the value with the members of every object sorted by key: what `json.dumps(·, sort_keys=True)` prints -/
def J.canon : J → J
  | .arr l => .arr l.canon
  | .obj m => .obj m.canon
  | .cons h t => .cons h.canon t.canon
  | .mem k v t => J.insert k v.canon t.canon
  | x => x

/-- `JSONData.__eq__` on two instances of the same class: `self._canonical() == other._canonical()` -/
def udEq (a b : J) : Bool := a.canon == b.canon

/-- canonical form of a property value: what equality of the value classes is equality of -/
inductive Val where
  | fields (d : Fields)
  | json (j : J)
deriving DecidableEq, Repr

end FimVerif.DiffVal
