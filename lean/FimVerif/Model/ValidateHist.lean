import FimVerif.Model.Validate
/-!
# Histories of a slice (C10)

`Topology.validate` judges the slice *as it is*.  The slice as it is, is what a sequence of API calls has left in
the graph; this file models those calls on a concrete slice - nodes, components, node-side interfaces, the services
nodes and components own, the free-standing services with their service ports - as a step function, and the
abstraction `abs : Slice → Topo` that `validate` looks at.  `Proofs/C10.lean` shows that the abstraction (hence the
verdict) does not depend on the order of independent calls, that interface and node names are labels only, and that a
connect/disconnect round trip leaves no trace.

Calls (the alphabet `Op`), each mirroring what the code does to the graph:

* `connect s i` - `NetworkService.connect_interface`: guardrails, the interface must exist (its node is its owner) and
  must not be connected yet; a ServicePort named `<node>-<interface>` *at that moment* is appended to the service;
* `disconnect i` - `NetworkService.disconnect_interface(i)`: removes the ServicePort peering with `i`, whichever service
  it belongs to (the service the call is made on does not matter); nothing to do if `i` is not connected;
* `removeNode n` / `removeComp n k` - `Topology.remove_node` / `Node.remove_component`: the interfaces are disconnected
  first, then the node (component) goes with its components, services and interfaces;
* `renameNode` / `renameIface` - `ModelElement.rename`: labels only; the service ports made earlier keep their names;
* `setSite n x` - `node.site = x`;
* `peer a b` / `unpeer a b` - two facing ServicePorts `<a>-<b>` / `<b>-<a>`;
* `disconnectPort a b` - `disconnect_interface` called with the ServicePort of `a` that faces `b`: the *facing* port
  (of `b`) is removed and `a`'s own port is left without a peer (what the code does);
* `validate` - `Topology.validate` on `abs σ`; the sites it records are written back, also when it fails.

A refused call (a `TopologyException`) leaves the slice as it was.
-/
namespace FimVerif.Validate.Hist
open FimVerif.Validate

inductive Ep
  | iface (id : Nat)
  | port (uid : Nat)
  deriving DecidableEq, Repr

structure HNode where
  id : Nat
  label : String
  ty : String
  site : String
  /-- properties other than `site` and the components -/
  props : List String
  hollow : List String
  blank : List String
  comps : List Nat
  deriving Repr

structure HIface where
  id : Nat
  label : String
  kind : String
  node : Nat
  comp : Option Nat
  deriving Repr

/-- a service owned by a node or by one of its components; its interfaces are node-side interfaces -/
structure HOwned where
  label : String
  ty : String
  site : Option String
  node : Nat
  comp : Option Nat
  ifs : List Nat
  deriving Repr

structure HPort where
  uid : Nat
  label : String
  peers : List Ep
  deriving Repr

/-- a free-standing service of the slice -/
structure HSvc where
  label : String
  ty : String
  site : Option String
  props : List String
  hollow : List String
  blank : List String
  ports : List HPort
  deriving Repr

structure Slice where
  exp : Bool
  nodes : List HNode
  ifaces : List HIface
  owned : List HOwned
  svcs : List HSvc
  /-- next fresh port id -/
  next : Nat
  deriving Repr

/-! ### the abstraction `validate` looks at -/

def findNode (σ : Slice) (id : Nat) : Option HNode := σ.nodes.find? (·.id == id)
def findIface (σ : Slice) (id : Nat) : Option HIface := σ.ifaces.find? (·.id == id)

def nodeAbs (n : HNode) : Node :=
  { ty := n.ty,
    props := (if n.site != "" then ["site"] else []) ++ n.props ++ (if n.comps.isEmpty then [] else ["attached_components_info"]),
    hollow := n.hollow,
    blank := (if n.site == "" then ["site"] else []) ++ n.blank }

def ownerSite (σ : Slice) (nid : Nat) : Option String := (findNode σ nid).map (·.site)

def epAbs (σ : Slice) : Ep → NIface
  | .iface id =>
    match findIface σ id with
    | some i => ⟨i.kind, ownerSite σ i.node⟩
    | none => ⟨"", none⟩
  | .port _ => ⟨"ServicePort", none⟩

def portAbs (σ : Slice) (p : HPort) : SIface :=
  .port p.label (if p.peers.isEmpty then none else some (p.peers.map (epAbs σ)))

def ownedAbs (σ : Slice) (o : HOwned) : Svc :=
  { ty := o.ty, site := o.site, props := [], owner := ownerSite σ o.node,
    ifs := o.ifs.filterMap fun id => (findIface σ id).map fun i => SIface.direct i.label i.kind,
    hollow := [] }

def svcAbs (σ : Slice) (s : HSvc) : Svc :=
  { ty := s.ty, site := s.site, props := s.props, owner := none, ifs := s.ports.map (portAbs σ),
    hollow := s.hollow, blank := s.blank }

/-- what `Topology.validate` sees: the nodes, then every service in creation order (the services of nodes and components
exist before the free-standing ones) -/
def abs (σ : Slice) : Topo :=
  { exp := σ.exp, nodes := σ.nodes.map nodeAbs, svcs := σ.owned.map (ownedAbs σ) ++ σ.svcs.map (svcAbs σ) }

/-! ### the calls -/

inductive Op
  | connect (svc : String) (iface : Nat)
  | disconnect (iface : Nat)
  | removeNode (node : Nat)
  | removeComp (node : Nat) (comp : Nat)
  | renameNode (node : Nat) (label : String)
  | renameIface (iface : Nat) (label : String)
  | setSite (node : Nat) (site : String)
  | peer (a b : String)
  | unpeer (a b : String)
  | disconnectPort (a b : String)
  | validate
  deriving Repr

def updSvc (σ : Slice) (label : String) (f : HSvc → HSvc) : Slice :=
  { σ with svcs := σ.svcs.map fun s => if s.label == label then f s else s }

def updNode (σ : Slice) (id : Nat) (f : HNode → HNode) : Slice :=
  { σ with nodes := σ.nodes.map fun n => if n.id == id then f n else n }

def hasSvc (σ : Slice) (label : String) : Bool := σ.svcs.any (·.label == label)

/-- some service port peers with the interface -/
def connected (σ : Slice) (iface : Nat) : Bool :=
  σ.svcs.any fun s => s.ports.any fun p => p.peers.contains (.iface iface)

/-- the port peers with one of the interfaces -/
def peersWith (ifs : List Nat) (p : HPort) : Bool :=
  p.peers.any fun e => match e with | .iface i => ifs.contains i | .port _ => false

/-- drop every service port that peers with one of the interfaces -/
def dropPeersOf (σ : Slice) (ifs : List Nat) : Slice :=
  { σ with svcs := σ.svcs.map fun s => { s with ports := s.ports.filter fun p => !peersWith ifs p } }

def svcTy (σ : Slice) (label : String) : Option String := (σ.svcs.find? (·.label == label)).map (·.ty)

/-- the checks of `connect_interface`; on success the name the new ServicePort gets: `<node>-<interface>` as they are
called at that moment -/
def connectCheck (c : Cfg) (σ : Slice) (svc : String) (iface : Nat) : Except Err String :=
  match svcTy σ svc, findIface σ iface with
  | some ty, some i =>
    match guardrails c ty i.kind with
    | .error e => .error e
    | .ok _ =>
      match findNode σ i.node with
      | none => .error .topology
      | some n => if connected σ iface then .error .topology else .ok (n.label ++ "-" ++ i.label)
  | _, _ => .error .key

/-- a new ServicePort on the service called `svc`, peering with the interface -/
def addP (uid : Nat) (svc label : String) (iface : Nat) (s : HSvc) : HSvc :=
  if s.label == svc then { s with ports := s.ports ++ [{ uid := uid, label := label, peers := [.iface iface] }] } else s

def addPort (σ : Slice) (svc label : String) (iface : Nat) : Slice :=
  { σ with svcs := σ.svcs.map (addP σ.next svc label iface), next := σ.next + 1 }

def connect (c : Cfg) (σ : Slice) (svc : String) (iface : Nat) : Res × Slice :=
  match connectCheck c σ svc iface with
  | .error e => (.error e, σ)
  | .ok label => (.ok (), addPort σ svc label iface)

def disconnect (σ : Slice) (iface : Nat) : Res × Slice :=
  match findIface σ iface with
  | none => (.error .key, σ)
  | some _ => (.ok (), dropPeersOf σ [iface])

def removeNode (σ : Slice) (node : Nat) : Res × Slice :=
  match findNode σ node with
  | none => (.error .topology, σ)
  | some n =>
    -- `remove_node` looks the node up in the `nodes` view
    if Gen.Constraints.nodesViewExcludes.contains n.ty then (.error .topology, σ)
    else
      let mine := (σ.ifaces.filter (·.node == node)).map (·.id)
      let σ' := dropPeersOf σ mine
      (.ok (), { σ' with nodes := σ'.nodes.filter (·.id != node), ifaces := σ'.ifaces.filter (·.node != node),
                          owned := σ'.owned.filter (·.node != node) })

def removeComp (σ : Slice) (node comp : Nat) : Res × Slice :=
  match findNode σ node with
  | none => (.error .key, σ)
  | some n =>
    if !n.comps.contains comp then (.error .key, σ)
    else
      let mine := (σ.ifaces.filter (fun i => i.node == node && i.comp == some comp)).map (·.id)
      let σ' := dropPeersOf σ mine
      let σ'' := updNode σ' node fun m => { m with comps := m.comps.filter (· != comp) }
      (.ok (), { σ'' with ifaces := σ''.ifaces.filter (fun i => !(i.node == node && i.comp == some comp)),
                           owned := σ''.owned.filter (fun o => !(o.node == node && o.comp == some comp)) })

def renameNode (σ : Slice) (node : Nat) (label : String) : Slice := updNode σ node fun n => { n with label := label }

def renameIface (σ : Slice) (iface : Nat) (label : String) : Slice :=
  { σ with ifaces := σ.ifaces.map fun i => if i.id == iface then { i with label := label } else i }

def setSite (σ : Slice) (node : Nat) (site : String) : Slice := updNode σ node fun n => { n with site := site }

def portLabels (σ : Slice) (svc : String) : List String :=
  match σ.svcs.find? (·.label == svc) with
  | some s => s.ports.map (·.label)
  | none => []

def peer (σ : Slice) (a b : String) : Res × Slice :=
  if !(hasSvc σ a && hasSvc σ b) then (.error .key, σ)
  else if (portLabels σ a).contains (a ++ "-" ++ b) || (portLabels σ b).contains (b ++ "-" ++ a) then (.error .topology, σ)
  else
    let pa : HPort := { uid := σ.next, label := a ++ "-" ++ b, peers := [.port (σ.next + 1)] }
    let pb : HPort := { uid := σ.next + 1, label := b ++ "-" ++ a, peers := [.port σ.next] }
    let σ1 := updSvc σ a fun s => { s with ports := s.ports ++ [pa] }
    let σ2 := updSvc σ1 b fun s => { s with ports := s.ports ++ [pb] }
    (.ok (), { σ2 with next := σ.next + 2 })

def portUids (σ : Slice) (svc : String) : List Nat :=
  match σ.svcs.find? (·.label == svc) with
  | some s => s.ports.map (·.uid)
  | none => []

/-- the first port of `a` that faces a port of `b`, with that port -/
def facing (σ : Slice) (a b : String) : Option (Nat × Nat) :=
  match σ.svcs.find? (·.label == a) with
  | none => none
  | some s =>
    let theirs := portUids σ b
    s.ports.findSome? fun p => p.peers.findSome? fun e =>
      match e with
      | .port u => if theirs.contains u then some (p.uid, u) else none
      | .iface _ => none

/-- remove the ports with these ids and every reference to them -/
def dropPorts (σ : Slice) (uids : List Nat) : Slice :=
  { σ with svcs := σ.svcs.map fun s =>
      { s with ports := (s.ports.filter fun p => !uids.contains p.uid).map fun p =>
          { p with peers := p.peers.filter fun e => match e with | .port u => !uids.contains u | .iface _ => true } } }

def unpeer (σ : Slice) (a b : String) : Res × Slice :=
  if !(hasSvc σ a && hasSvc σ b) then (.error .key, σ)
  else
    match facing σ a b with
    | none => (.error .topology, σ)
    | some (u, v) => (.ok (), dropPorts σ [u, v])

def disconnectPort (σ : Slice) (a b : String) : Res × Slice :=
  match facing σ a b with
  | none => (.error .key, σ)
  | some (_, v) => (.ok (), dropPorts σ [v])

/-- write the sites `validate` left on the abstract services back into the slice -/
def writeSites (σ : Slice) (svcs : List Svc) : Slice :=
  { σ with owned := (σ.owned.zip (svcs.take σ.owned.length)).map (fun p => { p.1 with site := p.2.site }),
           svcs := (σ.svcs.zip (svcs.drop σ.owned.length)).map (fun p => { p.1 with site := p.2.site }) }

def validateStep (c : Cfg) (σ : Slice) : Res × Slice :=
  let r := validate c (abs σ)
  (r.1, writeSites σ r.2.svcs)

def step (c : Cfg) (σ : Slice) : Op → Res × Slice
  | .connect s i => connect c σ s i
  | .disconnect i => disconnect σ i
  | .removeNode n => removeNode σ n
  | .removeComp n k => removeComp σ n k
  | .renameNode n l => if (findNode σ n).isSome then (.ok (), renameNode σ n l) else (.error .key, σ)
  | .renameIface i l => if (findIface σ i).isSome then (.ok (), renameIface σ i l) else (.error .key, σ)
  | .setSite n x => if (findNode σ n).isSome then (.ok (), setSite σ n x) else (.error .key, σ)
  | .peer a b => peer σ a b
  | .unpeer a b => unpeer σ a b
  | .disconnectPort a b => disconnectPort σ a b
  | .validate => validateStep c σ

/-- run a history; the results of the individual calls are collected -/
def run (c : Cfg) (σ : Slice) : List Op → List Res × Slice
  | [] => ([], σ)
  | op :: ops =>
    let r := step c σ op
    let rest := run c r.2 ops
    (r.1 :: rest.1, rest.2)

end FimVerif.Validate.Hist
