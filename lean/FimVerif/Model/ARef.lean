import FimVerif.Model.AGraph
/-!
# ARef — the store-level reference model of the documented property-graph interface (C05)

`AGraph.step` (Model/AGraph.lean) describes one graph at a time and therefore cannot say what `merge_nodes`
or a `GraphID` rewrite does: both move nodes and links between graphs, and a merge leaves links that join
nodes of two graphs (they show again when the other graph is re-homed, as `merge_adm` does).  `ARef` is the
reference for the *whole store*: a list of node dictionaries (with `GraphID` inside) and a list of links
between **keys**, a key being the pair (`GraphID` value, `NodeID` value) of a node.  No internal ids, no
allocator, no relabelling, no per-graph containers: exactly what the interface documents (nodes are found
by graph id + node id, links by the unordered pair of their ends).

`Store.absS` reads an `ARef` off the shared store; `Proofs/Lemmas/ARef*.lean` prove that every operation of
`Store.step` — merges, key rewrites, imports, clones, `delete_all_graphs` included — commutes with it.
Core only.
-/
namespace FimVerif.Store
open FimVerif FimVerif.Gen.StoreConsts

/-- (`GraphID` value, `NodeID` value); `none` = the attribute is missing -/
abbrev Key := Option Val × Option Val

structure ARef where
  nodes : List Props
  edges : List (Key × Key × Props)
  deriving DecidableEq, Repr

def keyP (a : Props) : Key := (AMap.get graphId a, AMap.get nodeId a)

/-- the key of node `nid` of graph `g` -/
def K (g nid : String) : Key := (some (.str g), some (.str nid))

/-- key of the stored node with internal id `i` -/
def keyOf (ns : List SNode) (i : Nat) : Key :=
  match ns.find? (fun n => n.iid == i) with
  | some n => keyP n.attrs
  | none => (none, none)

/-- the whole shared store without internal ids -/
def absS (s : Store) : ARef :=
  ⟨s.nodes.map (·.attrs), s.edges.map (fun e => (keyOf s.nodes e.a, keyOf s.nodes e.b, e.attrs))⟩

namespace ARef

abbrev AR := Except Err Out × ARef

def init : ARef := ⟨[], []⟩

def inGP (g : String) (a : Props) : Bool := AMap.get graphId a == some (.str g)
def hasNidP (nid : String) (a : Props) : Bool := AMap.get nodeId a == some (.str nid)
def hasAttrP (k v : String) (a : Props) : Bool := AMap.get k a == some (.str v)
def isK (k : Key) (a : Props) : Bool := keyP a == k
/-- the key belongs to graph `g` -/
def kIn (g : String) (k : Key) : Bool := k.1 == some (.str g)

def nodesOf (R : ARef) (g : String) : List Props := R.nodes.filter (inGP g)

/-- exactly one node of graph `g` carries the id -/
def find (R : ARef) (g nid : String) : Except Err Props :=
  match R.nodes.filter (fun a => hasNidP nid a && inGP g a) with
  | [] => .error .query
  | [a] => .ok a
  | _ => .error .query

def withN (R : ARef) (g nid : String) (k : Props → AR) : AR :=
  match find R g nid with
  | .error e => (.error e, R)
  | .ok a => k a

def edgeIsK (ka kb : Key) (e : Key × Key × Props) : Bool := (e.1 == ka && e.2.1 == kb) || (e.1 == kb && e.2.1 == ka)

def rekey (old new : Key) (k : Key) : Key := if k = old then new else k

/-- the node with key `k` gets `f` applied; the links that ended at `k` now end at `new` (the key of the
    updated dictionary) -/
def updK (k : Key) (f : Props → Props) (new : Key) (R : ARef) : ARef :=
  ⟨R.nodes.map (fun a => if isK k a then f a else a),
   R.edges.map (fun e => (rekey k new e.1, rekey k new e.2.1, e.2.2))⟩

/-- every node of graph `g` gets `f` applied, every link end in `g` gets `fk` applied (`fk` = what `f`
    does to a key) -/
def updGraphK (g : String) (f : Props → Props) (fk : Key → Key) (R : ARef) : ARef :=
  ⟨R.nodes.map (fun a => if inGP g a then f a else a),
   R.edges.map (fun e => (if kIn g e.1 then fk e.1 else e.1, if kIn g e.2.1 then fk e.2.1 else e.2.1, e.2.2))⟩

def updEdgeK (ka kb : Key) (f : Props → Props) (R : ARef) : ARef :=
  { R with edges := R.edges.map (fun e => if edgeIsK ka kb e then (e.1, e.2.1, f e.2.2) else e) }

def removeK (k : Key) (R : ARef) : ARef :=
  ⟨R.nodes.filter (fun a => !isK k a), R.edges.filter (fun e => e.1 != k && e.2.1 != k)⟩

def delGraphK (g : String) (R : ARef) : ARef :=
  ⟨R.nodes.filter (fun a => !inGP g a), R.edges.filter (fun e => !kIn g e.1 && !kIn g e.2.1)⟩

def addEdgeK (ka kb : Key) (attrs : Props) (R : ARef) : ARef :=
  if R.edges.any (edgeIsK ka kb) then updEdgeK ka kb (fun p => AMap.update p attrs) R
  else { R with edges := R.edges ++ [(ka, kb, attrs)] }

/-- what `d[k] = v` does to the key of `d` -/
def setKey (k : String) (v : Val) (key : Key) : Key :=
  (if k = graphId then some v else key.1, if k = nodeId then some v else key.2)

/-- what `d.update(p)` does to the key of `d` -/
def updKey (p : Props) (key : Key) : Key :=
  (if AMap.has graphId p then AMap.get graphId (AMap.update [] p) else key.1,
   if AMap.has nodeId p then AMap.get nodeId (AMap.update [] p) else key.2)

/-! ## node and link operations of graph `g` -/

def addNode (g nid label : String) (props : Option Props) (R : ARef) : AR :=
  if (R.nodes.filter (fun a => inGP g a && hasNidP nid a)).length > 0 then (.error .query, R)
  else (.ok .unit, { R with nodes := R.nodes ++
    [AMap.update [(graphId, .str g), (propClass, .str label), (nodeId, .str nid)] (props.getD [])] })

def deleteNode (g nid : String) (R : ARef) : AR :=
  withN R g nid fun _ => (.ok .unit, removeK (K g nid) R)

def addLink (g a rel b : String) (props : Option Props) (R : ARef) : AR :=
  withN R g a fun _ => withN R g b fun _ =>
    match props with
    | none => (.ok .unit, addEdgeK (K g a) (K g b) [(propClass, .str rel)] R)
    | some p =>
      if AMap.has propClass p then (.error .type_, R)
      else (.ok .unit, addEdgeK (K g a) (K g b) ((propClass, .str rel) :: p) R)

def updateNodeProperty (g nid k : String) (v : Val) (R : ARef) : AR :=
  if k = nxLabel then (.error .query, R)
  else withN R g nid fun _ => (.ok .unit, updK (K g nid) (AMap.set k v) (setKey k v (K g nid)) R)

def unsetNodeProperty (g nid k : String) (R : ARef) : AR :=
  if k = nxLabel then (.error .query, R)
  else if k ∈ noUnset then (.error .query, R)
  else withN R g nid fun a =>
    if AMap.has k a then (.ok .unit, updK (K g nid) (AMap.erase k) (K g nid) R) else (.error .query, R)

def updateNodesProperty (g k : String) (v : Val) (R : ARef) : AR :=
  if (nodesOf R g).length = 0 then (.error .query, R)
  else if k = nxLabel then (.error .query, R)
  else (.ok .unit, updGraphK g (AMap.set k v) (setKey k v) R)

def updateNodeProperties (g nid : String) (props : Props) (R : ARef) : AR :=
  if AMap.has nxLabel props then (.error .query, R)
  else withN R g nid fun _ => (.ok .unit, updK (K g nid) (fun a => AMap.update a props) (updKey props (K g nid)) R)

def withL (R : ARef) (g a b kind : String) (k : AR) : AR :=
  withN R g a fun _ => withN R g b fun _ =>
    match R.edges.find? (edgeIsK (K g a) (K g b)) with
    | none => (.error .query, R)
    | some e => if AMap.get nxLabel e.2.2 != some (.str kind) then (.error .query, R) else k

def updateLinkProperty (g a b kind k : String) (v : Val) (R : ARef) : AR :=
  if k = nxLabel then (.error .query, R)
  else withL R g a b kind (.ok .unit, updEdgeK (K g a) (K g b) (AMap.set k v) R)

def unsetLinkProperty (g a b kind k : String) (R : ARef) : AR :=
  if k = nxLabel then (.error .query, R)
  else withL R g a b kind (.ok .unit, updEdgeK (K g a) (K g b) (AMap.erase k) R)

def updateLinkProperties (g a b kind : String) (props : Props) (R : ARef) : AR :=
  if AMap.has nxLabel props then (.error .query, R)
  else withL R g a b kind (.ok .unit, updEdgeK (K g a) (K g b) (fun p => AMap.update p props) R)

def getNodeProperties (g nid : String) (R : ARef) : AR :=
  withN R g nid fun a =>
    match AMap.get nxLabel a with
    | none => (.error .key, R)
    | some l => (.ok (.nodeProps l (AMap.erase nxLabel a)), R)

def getLinkProperties (g a b : String) (R : ARef) : AR :=
  withN R g a fun _ => withN R g b fun _ =>
    match R.edges.find? (edgeIsK (K g a) (K g b)) with
    | none => (.error .query, R)
    | some e =>
      match AMap.get nxLabel e.2.2 with
      | none => (.error .query, R)
      | some l => (.ok (.linkProps l (AMap.erase nxLabel e.2.2)), R)

def nidList (ns : List Props) (R : ARef) : AR :=
  if ns.any (fun a => !AMap.has nodeId a) then (.error .key, R)
  else (.ok (.vals (ns.map (AMap.get nodeId))), R)

def listAllNodeIds (g : String) (R : ARef) : AR :=
  if (nodesOf R g).length = 0 then (.error .query, R) else nidList (nodesOf R g) R

def nodesByClass (g label : String) (R : ARef) : AR := nidList ((nodesOf R g).filter (hasAttrP propClass label)) R

def nodesByClassAndType (g label ntype : String) (R : ARef) : AR :=
  nidList ((nodesOf R g).filter (fun a => hasAttrP propClass label a && hasAttrP propType ntype a)) R

def nodeExists (g nid label : String) (R : ARef) : AR :=
  match R.nodes.filter (fun a => inGP g a && hasNidP nid a && hasAttrP propClass label a) with
  | [] => (.ok (.bool false), R)
  | [_] => (.ok (.bool true), R)
  | _ => (.error .query, R)

def graphExists (g : String) (R : ARef) : AR := (.ok (.bool ((nodesOf R g).length > 0)), R)

def checkNodeUnique (g label name : String) (R : ARef) : AR :=
  (.ok (.bool (((nodesOf R g).filter (fun a => hasAttrP propName name a && hasAttrP propClass label a)).length = 0)), R)

def findMatchingNodes (g other : String) (R : ARef) : AR :=
  match listAllNodeIds g R with
  | (.error e, _) => (.error e, R)
  | (.ok (.vals mine), _) =>
    let theirs := (nodesOf R other).map (AMap.get nodeId)
    match fmnErr mine theirs with
    | some e => (.error e, R)
    | none => (.ok (.vals ((mine.filter (fun x => theirs.contains x)).eraseDups)), R)
  | (.ok _, _) => (.error .runtime, R)

/-! ## whole graphs -/

def delGraph (g : String) (R : ARef) : AR := (.ok .unit, delGraphK g R)

def delAllGraphs (_ : ARef) : AR := (.ok .unit, init)

/-- nodes appended as they are, links between the keys of the positions they name -/
def appendK (ns : List Props) (es : List (Nat × Nat × Props)) (R : ARef) : ARef :=
  ⟨R.nodes ++ ns,
   R.edges ++ es.map (fun e => (((ns[e.1]?).map keyP).getD (none, none), ((ns[e.2.1]?).map keyP).getD (none, none), e.2.2))⟩

/-- `add_graph`: an existing graph of the id is replaced; every node gets `GraphID = g`; a node without a
    (truthy) `NodeID` fails the import *after* the old graph was dropped -/
def addGraph (g : String) (ig : IGraph) (R : ARef) : AR :=
  let R1 := delGraphK g R
  if ig.nodes.any (fun a => !truthy (AMap.get nodeId a)) then (.error .import_, R1)
  else (.ok .unit, appendK (ig.nodes.map (AMap.set graphId (.str g))) ig.edges R1)

/-- `add_graph_direct`: the nodes keep whatever ids they carry -/
def addGraphDirect (g : String) (ig : IGraph) (R : ARef) : AR :=
  (.ok .unit, appendK ig.nodes ig.edges (delGraphK g R))

/-- `clone_graph`: the nodes of `g` and the links among them, copied under the new id (replacing what was
    there; `g2 = g` re-imports the graph onto itself, dropping its links to other graphs) -/
def cloneGraph (g g2 : String) (R : ARef) : AR :=
  let ns := nodesOf R g
  if ns.length = 0 then (.error .attribute, R)
  else
    let es := R.edges.filter (fun e => kIn g e.1 && kIn g e.2.1)
    let R1 := delGraphK g2 R
    if ns.any (fun a => !truthy (AMap.get nodeId a)) then (.error .import_, R1)
    else (.ok .unit, ⟨R1.nodes ++ ns.map (AMap.set graphId (.str g2)),
                      R1.edges ++ es.map (fun e => ((some (.str g2), e.1.2), (some (.str g2), e.2.1.2), e.2.2))⟩)

/-! ## `merge_nodes` -/

/-- every link of the absorbed node is re-attached to the survivor, unless the survivor already has a
    link to that neighbour, which then stays as it is -/
def remapK (ku kv : Key) : List (Key × Key × Props) → ARef → ARef
  | [], R => R
  | e :: r, R =>
    let w := if e.1 = kv then ku else e.1
    let x := if e.2.1 = kv then ku else e.2.1
    let R' := if R.edges.any (edgeIsK w x) then R else { R with edges := R.edges ++ [(w, x, e.2.2)] }
    remapK ku kv r R'

def contractK (ku kv : Key) (R : ARef) : ARef :=
  let inc := R.edges.filter (fun e => e.1 == kv || e.2.1 == kv)
  remapK ku kv inc (removeK kv R)

def mergeNodes (g nid g2 : String) (pol : Option (List (String × Policy))) (R : ARef) : AR :=
  if (nodesOf R g2).length = 0 then (.error .assertion, R)
  else withN R g nid fun mine =>
    match find R g2 nid with
    | .error e => (.error e, R)
    | .ok theirs =>
      if g = g2 then (.error .query, R)         -- a node is not merged with itself
      else
        match pol with
        | none => (.ok .unit, updK (K g nid) (fun _ => mine) (keyP mine) (contractK (K g nid) (K g2 nid) R))
        | some pol =>
          match mergeProps theirs pol mine with
          | .error e => (.error e, R)
          | .ok np => (.ok .unit, updK (K g nid) (fun _ => np) (keyP np) (contractK (K g nid) (K g2 nid) R))

def assertVal (v : Val) (R : ARef) (k : AR) : AR := if v = .none then (.error .assertion, R) else k

/-- the reference model: one call of the interface on the whole store -/
def step : Op → ARef → AR
  | .addNode g nid label props => addNode g nid label props
  | .deleteNode g nid => deleteNode g nid
  | .addLink g a rel b props => addLink g a rel b props
  | .updateNodeProperty g nid k v => fun R => assertVal v R (updateNodeProperty g nid k v R)
  | .unsetNodeProperty g nid k => unsetNodeProperty g nid k
  | .updateNodesProperty g k v => fun R => assertVal v R (updateNodesProperty g k v R)
  | .updateNodeProperties g nid props => updateNodeProperties g nid props
  | .updateLinkProperty g a b kind k v => fun R => assertVal v R (updateLinkProperty g a b kind k v R)
  | .unsetLinkProperty g a b kind k => unsetLinkProperty g a b kind k
  | .updateLinkProperties g a b kind props => updateLinkProperties g a b kind props
  | .deleteGraph g => delGraph g
  | .addGraph g ig => addGraph g ig.close
  | .addGraphDirect g ig => addGraphDirect g ig.close
  | .clone g g2 => cloneGraph g g2
  | .mergeNodes g nid g2 pol => mergeNodes g nid g2 pol
  | .getNodeProperties g nid => getNodeProperties g nid
  | .getLinkProperties g a b => getLinkProperties g a b
  | .listAllNodeIds g => listAllNodeIds g
  | .nodesByClass g label => nodesByClass g label
  | .nodesByClassAndType g label ntype => nodesByClassAndType g label ntype
  | .nodeExists g nid label => nodeExists g nid label
  | .graphExists g => graphExists g
  | .checkNodeUnique g label name => checkNodeUnique g label name
  | .findMatchingNodes g other => findMatchingNodes g other
  | .delAllGraphs => delAllGraphs

def run (ops : List Op) (R : ARef) : ARef := ops.foldl (fun R o => (step o R).2) R

/-- the content of one graph as the per-graph reference (`AGraph`) sees it: its nodes without `GraphID`,
    the links among them by `NodeID` -/
def view (R : ARef) (g : String) : AGraph :=
  ⟨(nodesOf R g).map (AMap.erase graphId),
   (R.edges.filter (fun e => kIn g e.1 && kIn g e.2.1)).map (fun e => (e.1.2, e.2.1.2, e.2.2))⟩

end ARef

/-- the keys of the stored nodes are pairwise distinct: within every graph a node id names one node
    (what `nid_unique` maintains) and no two nodes lack a graph id in the same way -/
def UniqueKeys (s : Store) : Prop := (s.nodes.map (fun n => keyP n.attrs)).Nodup

end FimVerif.Store
