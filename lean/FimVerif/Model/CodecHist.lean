import FimVerif.Model.Codec
import FimVerif.Model.JsonParse
/-!
# Histories of reads and caller-side mutations against one codec value object (C03: aliasing)

The property says a codec never mutates its input and that a decoded value depends on the stored text only.
In Python that can fail by *aliasing*: the value object keeps (or hands out) the very container the caller
holds, and the caller changes it later.  The model makes the ownership explicit:

* `World σ`: the value object's own state `σ` plus the list `owned` of the objects the *caller* owns - the
  arguments it passed and every result a getter handed out, in the state the caller has brought them to.
  `Step.read` runs a getter (its result joins `owned`), `Step.edit i` is the canonical in-place change
  (`deepEdit`, what `lib_c03alias.deep_edit` does to a real Python container) of `owned[i]`, `Step.show i`
  looks at it.  In a world without aliasing an edit touches `owned` only.  The classes whose state is a text
  or a private copy are such worlds: JSONData (`σ` = the stored text, `data = parse text`), Tags, a finalized
  MaintenanceInfo.
* `RefWorld`: the JSONField family keeps list-valued fields *by reference* (the list the caller passed is the
  field), and `update(x)` either shares or copies them (`copies`, generated from the source of `update`).
  Growing a list in place reaches every instance that holds that very list.

The correspondence runs the same step lists against the real objects, with real in-place mutation.
-/
namespace FimVerif.Hist
open FimVerif JVal Codec

def isContainer : JVal → Bool
  | .arr _ => true
  | .obj _ => true
  | _ => false

def mapFirst {α} (p : α → Bool) (f : α → α) : List α → List α
  | [] => []
  | x :: xs => if p x then f x :: xs else x :: mapFirst p f xs

/-- `lib_c03alias.deep_edit(o)`: a list gets `"__m__"` appended, a dict gets `d["__m__"] = 1`, and (down to three
levels below the top) the first nested container is edited the same way; scalars are immutable. -/
def deepEdit : Nat → JVal → JVal
  | 0, .arr xs => .arr (xs ++ [.str "__m__"])
  | 0, .obj kvs => .obj (JParse.objSet kvs "__m__" (.int 1))
  | f + 1, .arr xs => .arr (mapFirst isContainer (deepEdit f) xs ++ [.str "__m__"])
  | f + 1, .obj kvs =>
    .obj (JParse.objSet (mapFirst (fun p => p.1 != "__m__" && isContainer p.2) (fun p => (p.1, deepEdit f p.2)) kvs) "__m__" (.int 1))
  | _, v => v

inductive Step where
  | read (getter : String) (arg : JVal)
  | edit (i : Nat)
  | show (i : Nat)
  deriving Repr

structure World (σ : Type) where
  obj : σ
  owned : List JVal

variable {σ : Type}

/-- one step in a world without aliasing; the reply is `none` for a step that does not apply -/
def step (get : σ → String → JVal → Option JVal) (w : World σ) : Step → World σ × Option JVal
  | .read g a =>
    match get w.obj g a with
    | some r => ({ w with owned := w.owned ++ [r] }, some r)
    | none => (w, none)
  | .edit i =>
    match w.owned[i]? with
    | some v => ({ w with owned := w.owned.set i (deepEdit 3 v) }, some (.bool (isContainer v)))   -- was there anything to change
    | none => (w, none)
  | .show i => (w, w.owned[i]?)

def run (get : σ → String → JVal → Option JVal) : World σ → List Step → List (Option JVal)
  | _, [] => []
  | w, s :: rest => (step get w s).2 :: run get (step get w s).1 rest

def finalWorld (get : σ → String → JVal → Option JVal) : World σ → List Step → World σ
  | w, [] => w
  | w, s :: rest => finalWorld get (step get w s).1 rest

/-! ## JSONData: the value is the stored text -/

mutual
/-- `json.dumps(..., sort_keys=True)` applied at every level -/
def sortDeep : JVal → JVal
  | .arr xs => .arr (sortDeepL xs)
  | .obj kvs => .obj (sortKvs (sortDeepK kvs))
  | v => v
def sortDeepL : List JVal → List JVal
  | [] => []
  | x :: xs => sortDeep x :: sortDeepL xs
def sortDeepK : List (String × JVal) → List (String × JVal)
  | [] => []
  | (k, v) :: r => (k, sortDeep v) :: sortDeepK r
end

/-- `JSONData._canonical()` -/
def jdCanon (text : String) : Option String := (JParse.parse text).map fun j => (sortDeep j).render

/-- the getters of a JSONData instance, as functions of its text: `.json`, `.data`, `==`/`hash` against an
instance built from the text `a` -/
def jdGet (text : String) (g : String) (a : JVal) : Option JVal :=
  if g = "json" then some (.str text)
  else if g = "data" then JParse.parse text
  else if g = "eq" then
    match a with
    | .str other => some (.bool (jdCanon text == jdCanon other))
    | _ => none
  else none

/-! ## the decoders on *text*: `json.loads` first -/

/-- `JSONField.from_json(text)` -/
def decodeText (c : ClassSpec) (valid : String → JVal → Bool) (none' : String) (s : String) : Except Err (Option Fields) :=
  if s = "" ∨ s = none' then .ok none else
  match JParse.parse s with
  | none => .error "value"                 -- json.JSONDecodeError
  | some j => decode c valid (some j)

/-- `Tags.from_json(text)` -/
def tagsDecodeText (okTag : String → Bool) (s : String) : Except Err (Option (List String)) :=
  if s = "" ∨ s = "None" then .ok none else
  match JParse.parse s with
  | none => .error "value"
  | some j => tagsDecode okTag (some j)

/-- `MaintenanceInfo.from_json(text)` -/
def minfoDecodeText (iso : String → Option String) (s : String) : Except Err (Option MInfo) :=
  if s = "" then .ok none else
  match JParse.parse s with
  | none => .error "value"
  | some j => minfoDecode iso (some j)

/-- `Gateway.from_json(text)`: `Labels.from_json`, then the constructor -/
def gatewayDecodeText (labels : ClassSpec) (valid : String → JVal → Bool) (none' : String) (s : String) : Except Err (Option Fields) :=
  match decodeText labels valid none' s with
  | .error e => .error e
  | .ok l => gatewayNew labels valid l

/-- `PathInfo.from_json(text)` / `ERO.from_json(text)` -/
def pathInfoDecodeText (s : String) : Except Err (Option PathInfo) :=
  if s = "" then .ok none else
  match JParse.parse s with
  | none => .error "value"
  | some j => pathInfoDecode (some j)

def eroDecodeText (s : String) : Except Err (Option PathInfo) :=
  if s = "" then .ok none else
  match JParse.parse s with
  | none => .error "value"
  | some j => eroDecode (some j)

/-! ## Tags: the constructor copies -/

def tagsGet (ts : List String) (g : String) (_ : JVal) : Option JVal :=
  if g = "json" then some (.str (tagsEncode ts).render)
  else if g = "iter" then some (tagsEncode ts)
  else none

/-! ## a finalized MaintenanceInfo: readers hand out copies -/

def entryVal (e : MEntry) : JVal := .arr [optStr e.state, optStr e.deadline, optStr e.expectedEnd]

def miGet (m : MInfo) (g : String) (a : JVal) : Option JVal :=
  if g = "json" then
    match minfoEncode m with
    | .ok j => some (.str j.render)
    | .error _ => none
  else if g = "names" then some (.arr (m.nodes.map fun p => .str p.1))
  else if g = "details" || g = "iter" then some (.arr (m.nodes.map fun p => .arr [.str p.1, entryVal p.2]))
  else if g = "get" then
    match a with
    | .str n => match m.nodes.find? (fun p => p.1 == n) with
      | some p => some (entryVal p.2)
      | none => some .null
    | _ => none
  else none

/-! ## JSONField: list fields by reference, `update` copies (or shares) them -/

/-- `lib_c03alias.grow(lst, item)` -/
def growList (item : JVal) : JVal → JVal
  | .arr xs => let ys := xs ++ [item]; .arr (if ys.length > 2 then ys.reverse else ys)
  | v => v

structure RefWorld where
  x : Fields
  y : Option Fields := none
  /-- fields whose list object the original and the `update` copy share -/
  shared : List String := []

inductive RefStep where
  | growX (k : String) (item : JVal)   -- the caller grows, in place, the list it passed for field k (it *is* x.k)
  | takeUpdate                          -- y = update(x)
  | growY (k : String) (item : JVal)   -- y.k grown in place
  | showX | showY
  deriving Repr

def listFields (c : ClassSpec) (x : Fields) : List String := (names c).filter fun k => isContainer (x k)

def refStep (c : ClassSpec) (copies : Bool) (w : RefWorld) : RefStep → RefWorld
  | .growX k item =>
    let w1 := { w with x := setF w.x k (growList item (w.x k)) }
    if w.shared.contains k then { w1 with y := w.y.map fun y => setF y k (growList item (y k)) } else w1
  | .takeUpdate => { w with y := some w.x, shared := if copies then [] else listFields c w.x }
  | .growY k item =>
    match w.y with
    | none => w
    | some y =>
      let w1 := { w with y := some (setF y k (growList item (y k))) }
      if w.shared.contains k then { w1 with x := setF w.x k (growList item (w.x k)) } else w1
  | .showX => w
  | .showY => w

def refRun (c : ClassSpec) (copies : Bool) : RefWorld → List RefStep → RefWorld
  | w, [] => w
  | w, s :: rest => refRun c copies (refStep c copies w s) rest

end FimVerif.Hist
