/-!
# JSON values as the codecs see them (shared model M-Json)

`JVal` is what `json.loads` hands to a decoder and what an encoder hands to
`json.dumps`: `None`, `bool`, `int` (unbounded), `float` (carried as the text Python's
`repr` prints, which is also what `json.dumps` writes), `str`, `list`, and `dict`
(as the list of its items in insertion order).  JSON *parsing* is not modelled.
`render` mimics `json.dumps(x)` with the default separators and `ensure_ascii=True`;
it is part of the trusted base and is checked differentially only.
-/
namespace FimVerif

inductive JVal where
  | null
  | bool (b : Bool)
  | int (i : Int)
  | float (repr : String)
  | str (s : String)
  | arr (xs : List JVal)
  | obj (kvs : List (String × JVal))
  deriving Repr, Inhabited

namespace JVal

mutual
def decEq : (a b : JVal) → Decidable (a = b)
  | null, null => isTrue rfl
  | bool a, bool b => if h : a = b then isTrue (by rw [h]) else isFalse (by intro h'; cases h'; exact h rfl)
  | int a, int b => if h : a = b then isTrue (by rw [h]) else isFalse (by intro h'; cases h'; exact h rfl)
  | float a, float b => if h : a = b then isTrue (by rw [h]) else isFalse (by intro h'; cases h'; exact h rfl)
  | str a, str b => if h : a = b then isTrue (by rw [h]) else isFalse (by intro h'; cases h'; exact h rfl)
  | arr a, arr b => match decEqList a b with
    | isTrue h => isTrue (by rw [h])
    | isFalse h => isFalse (by intro h'; cases h'; exact h rfl)
  | obj a, obj b => match decEqKvs a b with
    | isTrue h => isTrue (by rw [h])
    | isFalse h => isFalse (by intro h'; cases h'; exact h rfl)
  | null, bool _ | null, int _ | null, float _ | null, str _ | null, arr _ | null, obj _ => isFalse (by intro h; cases h)
  | bool _, null | bool _, int _ | bool _, float _ | bool _, str _ | bool _, arr _ | bool _, obj _ => isFalse (by intro h; cases h)
  | int _, null | int _, bool _ | int _, float _ | int _, str _ | int _, arr _ | int _, obj _ => isFalse (by intro h; cases h)
  | float _, null | float _, bool _ | float _, int _ | float _, str _ | float _, arr _ | float _, obj _ => isFalse (by intro h; cases h)
  | str _, null | str _, bool _ | str _, int _ | str _, float _ | str _, arr _ | str _, obj _ => isFalse (by intro h; cases h)
  | arr _, null | arr _, bool _ | arr _, int _ | arr _, float _ | arr _, str _ | arr _, obj _ => isFalse (by intro h; cases h)
  | obj _, null | obj _, bool _ | obj _, int _ | obj _, float _ | obj _, str _ | obj _, arr _ => isFalse (by intro h; cases h)
def decEqList : (a b : List JVal) → Decidable (a = b)
  | [], [] => isTrue rfl
  | [], _ :: _ => isFalse (by intro h; cases h)
  | _ :: _, [] => isFalse (by intro h; cases h)
  | x :: xs, y :: ys => match decEq x y, decEqList xs ys with
    | isTrue h1, isTrue h2 => isTrue (by rw [h1, h2])
    | isFalse h, _ => isFalse (by intro h'; cases h'; exact h rfl)
    | _, isFalse h => isFalse (by intro h'; cases h'; exact h rfl)
def decEqKvs : (a b : List (String × JVal)) → Decidable (a = b)
  | [], [] => isTrue rfl
  | [], _ :: _ => isFalse (by intro h; cases h)
  | _ :: _, [] => isFalse (by intro h; cases h)
  | (k, x) :: xs, (k', y) :: ys =>
    if hk : k = k' then
      match decEq x y, decEqKvs xs ys with
      | isTrue h1, isTrue h2 => isTrue (by rw [hk, h1, h2])
      | isFalse h, _ => isFalse (by intro h'; cases h'; exact h rfl)
      | _, isFalse h => isFalse (by intro h'; cases h'; exact h rfl)
    else isFalse (by intro h'; cases h'; exact hk rfl)
end

instance : DecidableEq JVal := decEq

/-- Python `v is None` -/
def isNull : JVal → Bool
  | null => true
  | _ => false

/-- Python `v == 0` for a JSON-shaped value: `0`, `0.0`, `-0.0`, `False`; never a `str`/`list`/`dict`/`None`. -/
def pyEqZero : JVal → Bool
  | int i => i == 0
  | bool b => !b
  | float r => r == "0.0" || r == "-0.0"
  | _ => false

def isStr : JVal → Bool
  | str _ => true
  | _ => false

/-! ### `json.dumps` -/

def hexDigit (n : Nat) : Char := "0123456789abcdef".toList.getD n '0'

def hex4 (n : Nat) : String :=
  String.ofList [hexDigit (n / 4096 % 16), hexDigit (n / 256 % 16), hexDigit (n / 16 % 16), hexDigit (n % 16)]

/-- one character of a JSON string literal under `ensure_ascii=True` -/
def escChar (c : Char) : String :=
  if c == '"' then "\\\""
  else if c == '\\' then "\\\\"
  else if c == '\n' then "\\n"
  else if c == '\r' then "\\r"
  else if c == '\t' then "\\t"
  else if c.toNat == 8 then "\\b"
  else if c.toNat == 12 then "\\f"
  else if c.toNat < 32 || (c.toNat > 126 && c.toNat < 65536) then
    "\\u" ++ hex4 c.toNat
  else if c.toNat ≥ 65536 then
    let v := c.toNat - 65536
    "\\u" ++ hex4 (0xd800 + v / 1024) ++ "\\u" ++ hex4 (0xdc00 + v % 1024)
  else String.singleton c

def renderStr (s : String) : String :=
  "\"" ++ String.join (s.toList.map escChar) ++ "\""

def joinWith (sep : String) : List String → String
  | [] => ""
  | [x] => x
  | x :: xs => x ++ sep ++ joinWith sep xs

mutual
def render : JVal → String
  | null => "null"
  | bool true => "true"
  | bool false => "false"
  | int i => toString i
  | float r => r
  | str s => renderStr s
  | arr xs => "[" ++ joinWith ", " (renderList xs) ++ "]"
  | obj kvs => "{" ++ joinWith ", " (renderKvs kvs) ++ "}"
def renderList : List JVal → List String
  | [] => []
  | x :: xs => render x :: renderList xs
def renderKvs : List (String × JVal) → List String
  | [] => []
  | (k, v) :: r => (renderStr k ++ ": " ++ render v) :: renderKvs r
end

/-- Python `str(v)` for the scalar shapes the codecs apply it to -/
def pyStr : JVal → String
  | null => "None"
  | bool true => "True"
  | bool false => "False"
  | int i => toString i
  | float r => r
  | str s => s
  | v => render v

end JVal
end FimVerif
