import FimVerif.Model.Store
import FimVerif.Model.DStore
/-!
# AGraph — the observable content of one graph (C04) and the reference model of the documented
property-graph interface (C05)

`AGraph` has no internal ids and no graph id: nodes are their property dictionaries (with `NodeID`,
`Class`, … inside, `GraphID` erased), links are pairs of `NodeID` values with their properties.
`Store.abs s g` / `DStore.abs d g` read that content off a store.
-/
namespace FimVerif.Store
open FimVerif FimVerif.Gen.StoreConsts

structure AGraph where
  nodes : List Props
  edges : List (Option Val × Option Val × Props)
  deriving DecidableEq, Repr

/-- the `NodeID` of the node with internal id `i` among `ns` -/
def nidOf (ns : List SNode) (i : Nat) : Option Val :=
  (ns.find? (fun n => n.iid == i)).bind (fun n => AMap.get nodeId n.attrs)

def absView (ns : List SNode) (es : List SEdge) : AGraph :=
  ⟨ns.map (fun n => AMap.erase graphId n.attrs), es.map (fun e => (nidOf ns e.a, nidOf ns e.b, e.attrs))⟩

/-- observable content of graph `g` in the shared store -/
def abs (s : Store) (g : String) : AGraph := absView (nodesOf s g) (edgesOf s g)

end FimVerif.Store

namespace FimVerif.DStore
open FimVerif FimVerif.Store

/-- observable content of graph `g` in the one-graph-per-id store -/
def abs (d : DStore) (g : String) : AGraph := Store.abs (sub d g) g

end FimVerif.DStore
