import FimVerif.Model.Store
import FimVerif.Model.DStore
/-!
# AGraph — the observable content of one graph (C04) and the reference model of the documented
property-graph interface (C05)

`AGraph` has no internal ids and no graph id: nodes are their property dictionaries (with `NodeID`,
`Class`, … inside, `GraphID` erased), links are pairs of `NodeID` values with their properties.
`Store.abs s g` / `DStore.abs d g` read that content off a store.
-/
namespace FimVerif.Store
open FimVerif FimVerif.Gen.StoreConsts

structure AGraph where
  nodes : List Props
  edges : List (Option Val × Option Val × Props)
  deriving DecidableEq, Repr

/-- the `NodeID` of the node with internal id `i` among `ns` -/
def nidOf (ns : List SNode) (i : Nat) : Option Val :=
  (ns.find? (fun n => n.iid == i)).bind (fun n => AMap.get nodeId n.attrs)

def absView (ns : List SNode) (es : List SEdge) : AGraph :=
  ⟨ns.map (fun n => AMap.erase graphId n.attrs), es.map (fun e => (nidOf ns e.a, nidOf ns e.b, e.attrs))⟩

/-- observable content of graph `g` in the shared store -/
def abs (s : Store) (g : String) : AGraph := absView (nodesOf s g) (edgesOf s g)


/-! ## the reference model: the documented interface on one `AGraph`

`AGraph.step op A` is what the interface documents for an operation addressed to a graph whose
content is `A`: nodes are found by `NodeID` alone, links by the unordered pair of `NodeID`s.  It has
no internal ids, no `GraphID`, no second graph: imports, clones and `merge_nodes` are not part of it
(C04 and the merge theorems cover those), `find_matching_nodes` takes the other graph's content. -/
namespace AGraph

abbrev AR := Except Err Out × AGraph

def empty : AGraph := ⟨[], []⟩

def nidIs (nid : String) (a : Props) : Bool := AMap.get nodeId a == some (.str nid)
def attrIs (k v : String) (a : Props) : Bool := AMap.get k a == some (.str v)
def endIs (nid : String) (x : Option Val) : Bool := x == some (.str nid)
def edgeIs (a b : String) (e : Option Val × Option Val × Props) : Bool :=
  (endIs a e.1 && endIs b e.2.1) || (endIs b e.1 && endIs a e.2.1)

/-- exactly one node carries the id -/
def find (A : AGraph) (nid : String) : Except Err Unit :=
  match A.nodes.filter (nidIs nid) with
  | [] => .error .query
  | [_] => .ok ()
  | _ => .error .query

def withN (A : AGraph) (nid : String) (k : AR) : AR :=
  match find A nid with
  | .error e => (.error e, A)
  | .ok _ => k

def updNode (nid : String) (f : Props → Props) (A : AGraph) : AGraph :=
  { A with nodes := A.nodes.map (fun x => if nidIs nid x then f x else x) }

def updEdge (a b : String) (f : Props → Props) (A : AGraph) : AGraph :=
  { A with edges := A.edges.map (fun e => if edgeIs a b e then (e.1, e.2.1, f e.2.2) else e) }

def addEdge (a b : String) (attrs : Props) (A : AGraph) : AGraph :=
  if A.edges.any (edgeIs a b) then updEdge a b (fun p => AMap.update p attrs) A
  else { A with edges := A.edges ++ [(some (.str a), some (.str b), attrs)] }

def addNode (nid label : String) (props : Option Props) (A : AGraph) : AR :=
  if A.nodes.any (nidIs nid) then (.error .query, A)
  else (.ok .unit, { A with nodes := A.nodes ++ [AMap.update [(propClass, .str label), (nodeId, .str nid)] (props.getD [])] })

def deleteNode (nid : String) (A : AGraph) : AR :=
  withN A nid (.ok .unit, ⟨A.nodes.filter (fun x => !nidIs nid x), A.edges.filter (fun e => !endIs nid e.1 && !endIs nid e.2.1)⟩)

def addLink (a rel b : String) (props : Option Props) (A : AGraph) : AR :=
  withN A a (withN A b (
    match props with
    | none => (.ok .unit, addEdge a b [(propClass, .str rel)] A)
    | some p => if AMap.has propClass p then (.error .type_, A) else (.ok .unit, addEdge a b ((propClass, .str rel) :: p) A)))

/-- a single-value update is never handed `None` (the bulk updates store it) -/
def assertVal (v : Val) (A : AGraph) (k : AR) : AR := if v = .none then (.error .assertion, A) else k

def updateNodeProperty (nid k : String) (v : Val) (A : AGraph) : AR :=
  if k = nxLabel then (.error .query, A) else withN A nid (.ok .unit, updNode nid (AMap.set k v) A)

def unsetNodeProperty (nid k : String) (A : AGraph) : AR :=
  if k = nxLabel then (.error .query, A)
  else if k ∈ noUnset then (.error .query, A)
  else withN A nid (
    match A.nodes.find? (nidIs nid) with
    | none => (.error .key, A)
    | some a => if AMap.has k a then (.ok .unit, updNode nid (AMap.erase k) A) else (.error .query, A))

def updateNodesProperty (k : String) (v : Val) (A : AGraph) : AR :=
  if A.nodes.length = 0 then (.error .query, A)
  else if k = nxLabel then (.error .query, A)
  else (.ok .unit, { A with nodes := A.nodes.map (AMap.set k v) })

def updateNodeProperties (nid : String) (props : Props) (A : AGraph) : AR :=
  if AMap.has nxLabel props then (.error .query, A)
  else withN A nid (.ok .unit, updNode nid (fun a => AMap.update a props) A)

def withL (A : AGraph) (a b kind : String) (k : AR) : AR :=
  withN A a (withN A b (
    match A.edges.find? (edgeIs a b) with
    | none => (.error .query, A)
    | some e => if AMap.get nxLabel e.2.2 != some (.str kind) then (.error .query, A) else k))

def updateLinkProperty (a b kind k : String) (v : Val) (A : AGraph) : AR :=
  if k = nxLabel then (.error .query, A) else withL A a b kind (.ok .unit, updEdge a b (AMap.set k v) A)

def unsetLinkProperty (a b kind k : String) (A : AGraph) : AR :=
  if k = nxLabel then (.error .query, A) else withL A a b kind (.ok .unit, updEdge a b (AMap.erase k) A)

def updateLinkProperties (a b kind : String) (props : Props) (A : AGraph) : AR :=
  if AMap.has nxLabel props then (.error .query, A)
  else withL A a b kind (.ok .unit, updEdge a b (fun p => AMap.update p props) A)

def getNodeProperties (nid : String) (A : AGraph) : AR :=
  withN A nid (
    match A.nodes.find? (nidIs nid) with
    | none => (.error .query, A)
    | some a =>
      match AMap.get nxLabel a with
      | none => (.error .key, A)
      | some l => (.ok (.nodeProps l (AMap.erase nxLabel a)), A))

def getLinkProperties (a b : String) (A : AGraph) : AR :=
  withN A a (withN A b (
    match A.edges.find? (edgeIs a b) with
    | none => (.error .query, A)
    | some e =>
      match AMap.get nxLabel e.2.2 with
      | none => (.error .query, A)
      | some l => (.ok (.linkProps l (AMap.erase nxLabel e.2.2)), A)))

def nidList (ns : List Props) (A : AGraph) : AR :=
  if ns.any (fun a => !AMap.has nodeId a) then (.error .key, A)
  else (.ok (.vals (ns.map (AMap.get nodeId))), A)

def listAllNodeIds (A : AGraph) : AR :=
  if A.nodes.length = 0 then (.error .query, A) else nidList A.nodes A

def nodesByClass (label : String) (A : AGraph) : AR := nidList (A.nodes.filter (attrIs propClass label)) A

def nodesByClassAndType (label ntype : String) (A : AGraph) : AR :=
  nidList (A.nodes.filter (fun a => attrIs propClass label a && attrIs propType ntype a)) A

def nodeExists (nid label : String) (A : AGraph) : AR :=
  match A.nodes.filter (fun a => nidIs nid a && attrIs propClass label a) with
  | [] => (.ok (.bool false), A)
  | [_] => (.ok (.bool true), A)
  | _ => (.error .query, A)

def graphExists (A : AGraph) : AR := (.ok (.bool (A.nodes.length > 0)), A)

def checkNodeUnique (label name : String) (A : AGraph) : AR :=
  (.ok (.bool ((A.nodes.filter (fun a => attrIs propName name a && attrIs propClass label a)).length = 0)), A)

def findMatchingNodes (O : AGraph) (A : AGraph) : AR :=
  match listAllNodeIds A with
  | (.error e, _) => (.error e, A)
  | (.ok (.vals mine), _) =>
    let theirs := O.nodes.map (AMap.get nodeId)
    match fmnErr mine theirs with
    | some e => (.error e, A)
    | none => (.ok (.vals ((mine.filter (fun x => theirs.contains x)).eraseDups)), A)
  | (.ok _, _) => (.error .runtime, A)

/-- is the operation part of the reference interface (single graph, plus `find_matching_nodes`) -/
def covers : Op → Bool
  | .addGraph .. | .addGraphDirect .. | .clone .. | .mergeNodes .. | .delAllGraphs => false
  | _ => true

/-- `other` = content of the second graph of `find_matching_nodes` (ignored by every other operation) -/
def step (op : Op) (other : AGraph) (A : AGraph) : AR :=
  match op with
  | .addNode _ nid label props => addNode nid label props A
  | .deleteNode _ nid => deleteNode nid A
  | .addLink _ a rel b props => addLink a rel b props A
  | .updateNodeProperty _ nid k v => assertVal v A (updateNodeProperty nid k v A)
  | .unsetNodeProperty _ nid k => unsetNodeProperty nid k A
  | .updateNodesProperty _ k v => assertVal v A (updateNodesProperty k v A)
  | .updateNodeProperties _ nid props => updateNodeProperties nid props A
  | .updateLinkProperty _ a b kind k v => assertVal v A (updateLinkProperty a b kind k v A)
  | .unsetLinkProperty _ a b kind k => unsetLinkProperty a b kind k A
  | .updateLinkProperties _ a b kind props => updateLinkProperties a b kind props A
  | .deleteGraph _ => (.ok .unit, empty)
  | .getNodeProperties _ nid => getNodeProperties nid A
  | .getLinkProperties _ a b => getLinkProperties a b A
  | .listAllNodeIds _ => listAllNodeIds A
  | .nodesByClass _ label => nodesByClass label A
  | .nodesByClassAndType _ label ntype => nodesByClassAndType label ntype A
  | .nodeExists _ nid label => nodeExists nid label A
  | .graphExists _ => graphExists A
  | .checkNodeUnique _ label name => checkNodeUnique label name A
  | .findMatchingNodes _ _ => findMatchingNodes other A
  | _ => (.error .runtime, A)

end AGraph

/-- the second graph an operation reads (`find_matching_nodes`); irrelevant for every other operation -/
def Op.other : Op → String
  | .findMatchingNodes _ o => o
  | _ => ""

/-- the reference model over all graph ids: the addressed graph steps, every other graph stays -/
def AGraph.stepAll (op : Op) (σ : String → AGraph) : String → AGraph :=
  fun g => if g = op.target then (AGraph.step op (σ op.other) (σ op.target)).2 else σ g

def AGraph.runAll (ops : List Op) (σ : String → AGraph) : String → AGraph := ops.foldl (fun σ o => AGraph.stepAll o σ) σ

/-- outputs with the `GraphID` entry removed from returned node dictionaries (the reference model has no
    graph id inside a graph) -/
def outAbs : Except Err Out → Except Err Out
  | .ok (.nodeProps l p) => .ok (.nodeProps l (AMap.erase graphId p))
  | r => r

end FimVerif.Store

namespace FimVerif.DStore
open FimVerif FimVerif.Store

/-- observable content of graph `g` in the one-graph-per-id store -/
def abs (d : DStore) (g : String) : AGraph := Store.abs (sub d g) g

end FimVerif.DStore
