/-!
# `datetime.isoformat()` and reading it back (C03: MaintenanceEntry deadline / expected_end)

A `DT` is the content of a Python `datetime` (date, time, microsecond, optional fixed UTC offset).
`DT.iso` is `datetime.isoformat()`: `YYYY-MM-DDTHH:MM:SS[.ffffff][±HH:MM[:SS[.ffffff]]]`.
`parseIso` reads exactly that shape back (what `datetime.fromisoformat` does with the texts the library itself
writes; `fromisoformat` accepts further spellings, which the library never produces - the harness supplies their
canonical text by table).  `isoCanon s` is the text of `datetime.fromisoformat(s).isoformat()` on that shape.
-/
namespace FimVerif.Iso

/-- a fixed UTC offset, as `utcoffset()` decomposes: sign, hours, minutes, seconds, microseconds -/
structure TZ where
  neg : Bool
  hh : Nat
  mm : Nat
  ss : Nat
  us : Nat
  deriving DecidableEq, Repr

structure DT where
  year : Nat
  month : Nat
  day : Nat
  hour : Nat
  minute : Nat
  second : Nat
  micro : Nat
  tz : Option TZ
  deriving DecidableEq, Repr

def d (n : Nat) : Char := (n % 10).digitChar

def pad2 (n : Nat) : List Char := [d (n / 10), d n]
def pad4 (n : Nat) : List Char := [d (n / 1000), d (n / 100), d (n / 10), d n]
def pad6 (n : Nat) : List Char := [d (n / 100000), d (n / 10000), d (n / 1000), d (n / 100), d (n / 10), d n]

/-- `_format_offset` -/
def TZ.iso (z : TZ) : List Char :=
  (if z.neg then '-' else '+') :: pad2 z.hh ++ ':' :: pad2 z.mm ++
    (if z.ss ≠ 0 ∨ z.us ≠ 0 then ':' :: pad2 z.ss ++ (if z.us ≠ 0 then '.' :: pad6 z.us else []) else [])

def tzIso : Option TZ → List Char
  | none => []
  | some z => z.iso

/-- `datetime.isoformat()` -/
def DT.iso (t : DT) : List Char :=
  pad4 t.year ++ '-' :: pad2 t.month ++ '-' :: pad2 t.day ++ 'T' :: pad2 t.hour ++ ':' :: pad2 t.minute ++ ':' :: pad2 t.second ++
    (if t.micro ≠ 0 then '.' :: pad6 t.micro else []) ++ tzIso t.tz

def DT.isoStr (t : DT) : String := String.ofList t.iso

/-- exactly `k` decimal digits -/
def num : Nat → List Char → Option (Nat × List Char)
  | 0, s => some (0, s)
  | k + 1, c :: s =>
    if c.isDigit then
      match num k s with
      | some (n, r) => some ((c.toNat - 48) * 10 ^ k + n, r)
      | none => none
    else none
  | _ + 1, [] => none

def lit (c : Char) : List Char → Option (List Char)
  | x :: s => if x = c then some s else none
  | [] => none

/-- optional `.ffffff` -/
def frac : List Char → Option (Nat × List Char)
  | '.' :: s => num 6 s
  | s => some (0, s)

/-- `timezone(timedelta(hours, minutes, seconds, microseconds))` as `fromisoformat` builds it: strictly inside (-24h, 24h) -/
def mkTZ (neg : Bool) (hh mm ss us : Nat) : Option (Option TZ) :=
  let secs := (hh * 60 + mm) * 60 + ss          -- the fields are summed, not range-checked (`+05:60` is `+06:00`)
  if secs = 0 then some (some ⟨false, 0, 0, 0, 0⟩)   -- CPython returns `timezone.utc` here and drops a sub-second offset
  else if secs < 86400 then some (some ⟨neg, secs / 3600, secs / 60 % 60, secs % 60, us⟩)
  else none

def isLeap (y : Nat) : Bool := y % 4 = 0 ∧ (y % 100 ≠ 0 ∨ y % 400 = 0)

def daysIn (y m : Nat) : Nat :=
  if m = 2 then (if isLeap y then 29 else 28)
  else if m = 4 ∨ m = 6 ∨ m = 9 ∨ m = 11 then 30 else 31

/-- the offset after the time, or nothing -/
def offset : List Char → Option (Option TZ)
  | [] => some none
  | sg :: s =>
    if sg = '+' ∨ sg = '-' then
      match num 2 s with
      | none => none
      | some (hh, s1) =>
        match lit ':' s1 with
        | none => none
        | some s2 =>
          match num 2 s2 with
          | none => none
          | some (mm, s3) =>
            match s3 with
            | [] => mkTZ (sg = '-') hh mm 0 0
            | ':' :: s4 =>
              match num 2 s4 with
              | none => none
              | some (ss, s5) =>
                match frac s5 with
                | some (us, []) => mkTZ (sg = '-') hh mm ss us
                | _ => none
            | _ => none
    else none

/-- `datetime.fromisoformat` on the shape `isoformat()` writes -/
def parseIso (s : List Char) : Option DT := do
  let (year, s) ← num 4 s
  let s ← lit '-' s
  let (month, s) ← num 2 s
  let s ← lit '-' s
  let (day, s) ← num 2 s
  let s ← lit 'T' s
  let (hour, s) ← num 2 s
  let s ← lit ':' s
  let (minute, s) ← num 2 s
  let s ← lit ':' s
  let (second, s) ← num 2 s
  let (micro, s) ← frac s
  let tz ← offset s
  if 1 ≤ year ∧ 1 ≤ month ∧ month ≤ 12 ∧ 1 ≤ day ∧ day ≤ daysIn year month ∧ hour < 24 ∧ minute < 60 ∧ second < 60 then
    some ⟨year, month, day, hour, minute, second, micro, tz⟩
  else none

/-- the ranges `datetime` / `timezone` guarantee; a zero offset has the sign `+` -/
def TZ.Valid (z : TZ) : Prop :=
  z.hh < 24 ∧ z.mm < 60 ∧ z.ss < 60 ∧ z.us < 1000000 ∧
  ((z.hh = 0 ∧ z.mm = 0 ∧ z.ss = 0) → z.us = 0 ∧ z.neg = false)     -- an offset below one second is outside (see `iso_subsecond_offset_counterexample`)
def DT.Valid (t : DT) : Prop :=
  1 ≤ t.year ∧ t.year < 10000 ∧ 1 ≤ t.month ∧ t.month ≤ 12 ∧ 1 ≤ t.day ∧ t.day ≤ daysIn t.year t.month ∧
  t.hour < 24 ∧ t.minute < 60 ∧ t.second < 60 ∧ t.micro < 1000000 ∧ ∀ z, t.tz = some z → z.Valid

/-- text of `datetime.fromisoformat(s).isoformat()` (`none`: not of the shape `isoformat()` writes) -/
def isoCanon (s : String) : Option String := (parseIso s.toList).map DT.isoStr

end FimVerif.Iso
