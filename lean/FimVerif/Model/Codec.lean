import FimVerif.Model.Json
/-!
# Attribute value codecs (C03)

Executable models of the text codecs of `fim/slivers/capacities_labels.py` (`JSONField` and its
subclasses), `tags.py`, `json_data.py`, `gateway.py`, `path_info.py`, `maintenance_mode.py` and
`fim/graph/typed_tuples.py`.  They mirror the control flow of the code as it is.

A `JSONField` instance is its `__dict__`: here a total function from attribute name to `JVal`
(`Fields`), of which the names in the class's generated `ClassSpec` are the instance attributes.
The per-class data (`fields`, defaults, type guard of `_set_fields`, drop rule of `to_json`,
non-field attribute names) is *generated* (`Generated/Fields.lean`).

Errors are the wire names of `harness/core.err_kind`.
-/
namespace FimVerif.Codec
open FimVerif JVal

abbrev Err := String
abbrev Fields := String → JVal

/-- the `assert`s at the top of the loop body of `_set_fields` -/
inductive Guard where
  | natOrNone   -- if v is not None: assert v >= 0; assert isinstance(v, int)
  | str         -- assert v is not None; assert isinstance(v, str)
  | strOrList   -- ... isinstance(v, str) or isinstance(v, list)
  | strOrStrList -- ... isinstance(v, str) or (isinstance(v, list) and all(isinstance(i, str) for i in v))
  | strOrFloat  -- ... isinstance(v, str) or isinstance(v, float)
  | bool        -- ... isinstance(v, bool)
  deriving DecidableEq, Repr

/-- which `__dict__` entries `to_json`/`to_dict` pop before dumping -/
inductive DropRule where
  | noneOrZero     -- d[k] is None or d[k] == 0
  | noneOnly       -- d[k] is None
  | noneOrDefault  -- d[k] is None or d[k] == <value of k in a fresh instance>
  | keepAll        -- no filtering and no empty-text case (Flags.to_json)
  deriving DecidableEq, Repr

structure FieldSpec where
  name : String
  dflt : JVal
  deriving Repr

structure ClassSpec where
  name : String
  fields : List FieldSpec
  guard : Guard
  drop : DropRule       -- to_json
  dictDrop : DropRule   -- to_dict
  /-- attribute names other than fields for which `self.__getattribute__(k)` succeeds (methods, class attributes) -/
  attrs : List String
  /-- error raised for an unknown key when not forgiving -/
  unknownErr : String
  /-- `_set_fields` tests `k in self.__dict__` (only fields pass) rather than `self.__getattribute__(k)` (methods and class
  attributes pass too) -/
  strictFields : Bool := false
  deriving Repr

def names (c : ClassSpec) : List String := c.fields.map (·.name)

def dfltOf (c : ClassSpec) (k : String) : JVal :=
  match c.fields.find? (fun f => f.name == k) with
  | some f => f.dflt
  | none => .null

/-- `cls()` -/
def defaults (c : ClassSpec) : Fields := dfltOf c

def setF (x : Fields) (k : String) (v : JVal) : Fields := fun k' => if k' = k then v else x k'

/-- Python `v == d` for the defaults that occur (`None`, `0`, `False`); structural otherwise -/
def pyEqDflt (d v : JVal) : Bool :=
  match d with
  | .null => v.isNull
  | .int 0 => v.pyEqZero
  | .bool false => v.pyEqZero
  | _ => decide (v = d)

def dropped (r : DropRule) (d v : JVal) : Bool :=
  match r with
  | .noneOrZero => v.isNull || v.pyEqZero
  | .noneOnly => v.isNull
  | .noneOrDefault => v.isNull || pyEqDflt d v
  | .keepAll => false

def guardCheck (g : Guard) (v : JVal) : Except Err Unit :=
  match g, v with
  | .natOrNone, .null => .ok ()
  | .natOrNone, .int i => if i ≥ 0 then .ok () else .error "assertion"
  | .natOrNone, .bool _ => .ok ()                 -- True >= 0 and isinstance(True, int)
  | .natOrNone, .float _ => .error "assertion"    -- fails v >= 0 or isinstance(v, int)
  | .natOrNone, _ => .error "type"                -- '>=' not supported between str/list/dict and int
  | .str, .str _ => .ok ()
  | .str, _ => .error "assertion"
  | .strOrList, .str _ => .ok ()
  | .strOrList, .arr _ => .ok ()
  | .strOrList, _ => .error "assertion"
  | .strOrStrList, .str _ => .ok ()
  | .strOrStrList, .arr xs => if xs.all isStr then .ok () else .error "assertion"
  | .strOrStrList, _ => .error "assertion"
  | .strOrFloat, .str _ => .ok ()
  | .strOrFloat, .float _ => .ok ()
  | .strOrFloat, _ => .error "assertion"
  | .bool, .bool _ => .ok ()
  | .bool, _ => .error "assertion"

/-- `_set_fields(forgiving, **kvs)` on instance `x`.  `valid k v` stands for the `VALIDATORS` /
`LAMBDA_VALIDATORS` of `Labels` (owned by C16; `fun _ _ => true` for the other classes).
A key naming a method or class attribute passes `__getattribute__` and is then *set as an instance
attribute*; that state is outside this model (`"unmodelled"`).  Since /repo f7874ac `from_json` filters
unknown keys before calling the setter, so only the constructor and `update` (validation, C16) can reach
that branch; the harness never sends such keys to the model. -/
def setFields (c : ClassSpec) (valid : String → JVal → Bool) (forgiving : Bool) :
    List (String × JVal) → Fields → Except Err Fields
  | [], x => .ok x
  | (k, v) :: rest, x =>
    match guardCheck c.guard v with
    | .error e => .error e
    | .ok () =>
      if (names c).contains k then
        if valid k v then setFields c valid forgiving rest (setF x k v) else .error "label"
      else if !c.strictFields && c.attrs.contains k then .error "unmodelled"
      else if forgiving then setFields c valid forgiving rest x
      else .error c.unknownErr

/-- `cls(**kw)` -/
def construct (c : ClassSpec) (valid : String → JVal → Bool) (kw : List (String × JVal)) : Except Err Fields :=
  setFields c valid false kw (defaults c)

/-- `JSONField.update(x, **kw)`: fresh instance, every attribute copied, then `_set_fields(**kw)`. -/
def update (c : ClassSpec) (valid : String → JVal → Bool) (x : Fields) (kw : List (String × JVal)) : Except Err Fields :=
  setFields c valid false kw x

def keptBy (r : DropRule) (c : ClassSpec) (x : Fields) : List (String × JVal) :=
  (c.fields.filter fun f => !dropped r f.dflt (x f.name)).map fun f => (f.name, x f.name)

def keyLe (a b : String × JVal) : Bool := decide (a.1 ≤ b.1)

/-- `sort_keys=True` -/
def sortKvs (l : List (String × JVal)) : List (String × JVal) := l.mergeSort keyLe

/-- `to_json` as a value: `none` is the empty text `''` -/
def encode (c : ClassSpec) (x : Fields) : Option JVal :=
  let kept := keptBy c.drop c x
  if kept.isEmpty && c.drop != .keepAll then none else some (.obj (sortKvs kept))

def toJson (c : ClassSpec) (x : Fields) : String :=
  match encode c x with
  | none => ""
  | some j => j.render

/-- `to_dict`: `None` when nothing is kept, else the kept items in `__dict__` order -/
def toDict (c : ClassSpec) (x : Fields) : Option (List (String × JVal)) :=
  let kept := keptBy c.dictDrop c x
  if kept.isEmpty then none else some kept

/-- Python `hash(v)` raises (list / dict) -/
def unhashable : JVal → Bool
  | .arr _ => true
  | .obj _ => true
  | _ => false

/-- `{k: v for k, v in d.items() if k in ret.__dict__}`: the keys this version knows -/
def knownOnly (c : ClassSpec) (kvs : List (String × JVal)) : List (String × JVal) :=
  kvs.filter fun p => (names c).contains p.1

/-- `from_json`; the argument is `none` for `None`, `''` and `'None'`, else the parsed text.
Unknown keys are filtered out *before* `_set_fields(forgiving=True, ...)` runs. -/
def decode (c : ClassSpec) (valid : String → JVal → Bool) : Option JVal → Except Err (Option Fields)
  | none => .ok none
  | some (.obj kvs) =>
    match setFields c valid true (knownOnly c kvs) (defaults c) with
    | .ok x => .ok (some x)
    | .error e => .error e
  | some (.arr xs) => if xs.any unhashable then .error "type" else .error "attribute"   -- `k not in ret.__dict__` / `d.items()`
  | some (.str _) => .error "attribute"                                                  -- `d.items()`
  | some _ => .error "type"                                                              -- `for k in d`

/-- observable content of an instance: its attribute values in field order -/
def toList (c : ClassSpec) (x : Fields) : List JVal := (names c).map x

def ofList (c : ClassSpec) (vs : List JVal) : Fields := fun k =>
  match ((names c).zip vs).find? (fun p => p.1 == k) with
  | some p => p.2
  | none => .null

/-! ## Tags -/

/-- `Tags._check` then append, for one constructor argument -/
def tagsArg (okTag : String → Bool) : JVal → Except Err (List String)
  | .arr xs => xs.mapM fun t =>
      match t with
      | .str s => if okTag s then .ok s else .error "tag"
      | _ => .error "tag"
  | .str s => if okTag s then .ok [s] else .error "tag"
  | _ => .error "tag"

/-- `Tags(*args)` -/
def tagsNew (okTag : String → Bool) : List JVal → Except Err (List String)
  | [] => .ok []
  | a :: rest =>
    match tagsArg okTag a with
    | .error e => .error e
    | .ok ts => match tagsNew okTag rest with
      | .error e => .error e
      | .ok us => .ok (ts ++ us)

def tagsEncode (ts : List String) : JVal := .arr (ts.map .str)

def tagsDecode (okTag : String → Bool) : Option JVal → Except Err (Option (List String))
  | none => .ok none
  | some d => match tagsNew okTag [d] with
    | .ok ts => .ok (some ts)
    | .error e => .error e

/-! ## JSONData (MeasurementData / UserData / LayoutData) -/

/-- constructor from text: size check, validity check (`json.loads` succeeds: `validJson`), stored verbatim -/
def jdFromText (validJson : String → Bool) (max : Nat) (s : String) : Except Err String :=
  if s.length > max then .error "jsondata"
  else if !validJson s then .error "jsondata"
  else .ok s

/-- constructor from an object: `json.dumps`, then the size check -/
def jdFromObj (max : Nat) (j : JVal) : Except Err String :=
  let s := j.render
  if s.length > max then .error "jsondata" else .ok s

/-- constructor from `None` -/
def jdEmpty : String := "{}"

/-- the constructor's dispatch on a non-text argument -/
def jdNew (max : Nat) : JVal → Except Err String
  | .null => .ok jdEmpty
  | j => jdFromObj max j

/-! ## Gateway (a filtered `Labels`) -/

def isSet (v : JVal) : Bool := !v.isNull

/-- the tail of `Gateway.__init__`: `if lab.mac is not None: self.lab.mac = lab.mac` -/
def gwFinish (l : Fields) : Except Err Fields → Except Err (Option Fields)
  | .error e => .error e
  | .ok g => if isSet (l "mac") then .ok (some (setF g "mac" (l "mac"))) else .ok (some g)

/-- `Gateway(lab)`: `.lab` of the result -/
def gatewayNew (labels : ClassSpec) (valid : String → JVal → Bool) : Option Fields → Except Err (Option Fields)
  | none => .ok none
  | some l =>
    gwFinish l
      (if isSet (l "ipv4_subnet") && isSet (l "ipv4") then
        construct labels valid [("ipv4_subnet", l "ipv4_subnet"), ("ipv4", l "ipv4")]
      else if isSet (l "ipv6_subnet") && isSet (l "ipv6") then
        construct labels valid [("ipv6_subnet", l "ipv6_subnet"), ("ipv6", l "ipv6")]
      else .error "gateway")

/-- `Gateway.to_json` (`none`: returns `None`/`''`) -/
def gatewayEncode (labels : ClassSpec) : Option Fields → Option JVal
  | none => none
  | some g => encode labels g

/-- `Gateway.from_json` -/
def gatewayDecode (labels : ClassSpec) (valid : String → JVal → Bool) (j : Option JVal) : Except Err (Option Fields) :=
  match decode labels valid j with
  | .error e => .error e
  | .ok l => gatewayNew labels valid l

/-! ## PathInfo / ERO -/

inductive PType where
  | path | graph
  deriving DecidableEq, Repr

def PType.str : PType → String
  | .path => "Path"
  | .graph => "Graph"

/-- `PathInfo.type_from_str` for a non-None argument (falls off the loop ⇒ `None`) -/
def ptypeOfStr (s : JVal) : Option PType :=
  match s with
  | .str "Path" => some .path
  | .str "Graph" => some .graph
  | _ => none

inductive Payload where
  | unset                       -- None
  | path (a2z z2a : JVal)       -- a Path object
  | raw (j : JVal)              -- anything else (a graph id string in the documented domain)
  deriving DecidableEq, Repr

structure PathInfo where
  type : Option PType
  payload : Payload
  strict : JVal := .bool false  -- ERO only
  deriving DecidableEq, Repr

def pathDict (a2z z2a : JVal) : JVal := .obj [("a2z", a2z), ("z2a", z2a)]

/-- the expression `self.payload if self.type == Graph or self.payload is None else self.payload.to_dict()` -/
def payloadJson (p : PathInfo) : Except Err JVal :=
  if p.type = some .graph || p.payload = .unset then
    match p.payload with
    | .unset => .ok .null
    | .raw j => .ok j
    | .path _ _ => .error "type"        -- json.dumps of a Path object
  else
    match p.payload with
    | .path a z => .ok (pathDict a z)
    | _ => .error "attribute"           -- str has no to_dict

def typeStr (t : Option PType) : String :=
  match t with
  | some t => t.str
  | none => "None"

/-- `PathInfo.to_json` -/
def pathInfoEncode (p : PathInfo) : Except Err JVal :=
  match payloadJson p with
  | .error e => .error e
  | .ok pl => .ok (.obj [("type", .str (typeStr p.type)), ("payload", pl)])

/-- `ERO.to_json` -/
def eroEncode (p : PathInfo) : Except Err JVal :=
  match payloadJson p with
  | .error e => .error e
  | .ok pl => .ok (.obj [("type", .str (typeStr p.type)), ("strict", .str p.strict.pyStr), ("payload", pl)])

def lookup (kvs : List (String × JVal)) (k : String) : Option JVal :=
  match kvs.find? (fun p => p.1 == k) with
  | some p => some p.2
  | none => none

/-- `Path.from_dict` -/
def pathFromDict : JVal → Except Err Payload
  | .obj kvs =>
    match lookup kvs "a2z", lookup kvs "z2a" with
    | some a, some z => .ok (.path a z)
    | _, _ => .error "assertion"
  | _ => .error "assertion"

/-- the common part of `PathInfo.from_json` / `ERO.from_json`, as a function of `d.get('type')` and `d['payload']`:
`d['payload'] if ptype == Graph or d['payload'] is None else Path.from_dict(d['payload'])` -/
def piCoreOf (ty pl : Option JVal) : Except Err (Option PathInfo) :=
  match ty with
  | none => .ok none
  | some .null => .ok none
  | some ts =>
    let pt := ptypeOfStr ts
    match pl with
    | none => .error "key"
    | some .null => .ok (some { type := pt, payload := .unset })
    | some j =>
      if pt = some .graph then .ok (some { type := pt, payload := .raw j })
      else match pathFromDict j with
        | .error e => .error e
        | .ok p => .ok (some { type := pt, payload := p })

def pathInfoDecodeCore : JVal → Except Err (Option PathInfo)
  | .obj kvs => piCoreOf (lookup kvs "type") (lookup kvs "payload")
  | _ => .error "attribute"        -- d.get on a non-dict

def pathInfoDecode : Option JVal → Except Err (Option PathInfo)
  | none => .ok none
  | some j => pathInfoDecodeCore j

/-- `ret.strict = True if d.get('strict', None) in {'True', 'true'} else False` -/
def eroStrict (st : Option JVal) (p : PathInfo) : Except Err (Option PathInfo) :=
  match st with
  | some (.arr _) => .error "type"      -- unhashable in `in {'True', 'true'}`
  | some (.obj _) => .error "type"
  | some (.str "True") => .ok (some { p with strict := .bool true })
  | some (.str "true") => .ok (some { p with strict := .bool true })
  | _ => .ok (some { p with strict := .bool false })

def eroDecode : Option JVal → Except Err (Option PathInfo)
  | none => .ok none
  | some (.obj kvs) =>
    match piCoreOf (lookup kvs "type") (lookup kvs "payload") with
    | .error e => .error e
    | .ok none => .ok none
    | .ok (some p) => eroStrict (lookup kvs "strict") p
  | some _ => .error "attribute"

/-! ## MaintenanceInfo -/

/-- an entry: state name (`none` = Python `None`), the two datetimes as their ISO text -/
structure MEntry where
  state : Option String
  deadline : Option String
  expectedEnd : Option String
  deriving DecidableEq, Repr

structure MInfo where
  nodes : List (String × MEntry)
  lock : Bool
  deriving DecidableEq, Repr

def MInfo.empty : MInfo := ⟨[], false⟩
def MInfo.finalize (m : MInfo) : MInfo := { m with lock := true }

def dictSet {α} (d : List (String × α)) (k : String) (v : α) : List (String × α) :=
  if d.any (fun p => p.1 == k) then d.map (fun p => if p.1 == k then (k, v) else p) else d ++ [(k, v)]

def MInfo.add (m : MInfo) (name : String) (e : MEntry) : Except Err MInfo :=
  if m.lock then .error "maintenance" else .ok { m with nodes := dictSet m.nodes name e }

def MInfo.pop (m : MInfo) (name : String) : Except Err (MEntry × MInfo) :=
  if m.lock then .error "maintenance" else
  match m.nodes.find? (fun p => p.1 == name) with
  | none => .error "key"
  | some p => .ok (p.2, { m with nodes := m.nodes.filter (fun q => !(q.1 == name)) })

def MInfo.rem (m : MInfo) (name : String) : Except Err MInfo :=
  match m.pop name with
  | .error e => .error e
  | .ok (_, m') => .ok m'

def MInfo.copy (m : MInfo) : MInfo := ⟨m.nodes, false⟩

def optStr : Option String → JVal
  | none => .null
  | some s => .str s

def entryJson (e : MEntry) : JVal :=
  .obj [("state", optStr e.state), ("deadline", optStr e.deadline), ("expected_end", optStr e.expectedEnd)]

/-- `to_json` -/
def minfoEncode (m : MInfo) : Except Err JVal :=
  if !m.lock then .error "maintenance" else .ok (.obj (m.nodes.map fun p => (p.1, entryJson p.2)))

def stateNames : List String := ["Active", "PreMaint", "Maint", "Unknown"]

/-- `MaintenanceState.from_string` applied to whatever the JSON holds -/
def stateOf : JVal → Option String
  | .str s => if stateNames.contains s then some s else none
  | _ => none

/-- Python truthiness of a JSON value -/
def truthy : JVal → Bool
  | .null => false
  | .bool b => b
  | .int i => i != 0
  | .float r => !(r == "0.0" || r == "-0.0")
  | .str s => s != ""
  | .arr xs => !xs.isEmpty
  | .obj kvs => !kvs.isEmpty

/-- the `deadline` / `expected_end` branch of `MaintenanceEntry.__init__`; `iso s` is the ISO text of
`datetime.fromisoformat(s)` (`none`: ValueError) -/
def dateOf (iso : String → Option String) (v : Option JVal) : Except Err (Option String) :=
  match v with
  | none => .ok none
  | some j =>
    if !truthy j then .ok none else
    match j with
    | .str s => match iso s with
      | some t => .ok (some t)
      | none => .error "value"
    | _ => .error "type"

def entryFields : List String := ["state", "deadline", "expected_end"]

/-- `MaintenanceEntry(**{f: x for (f, x) in v.items() if f in known})` -/
def entryOf (iso : String → Option String) : JVal → Except Err MEntry
  | .obj kvs0 =>
    let kvs := kvs0.filter fun p => entryFields.contains p.1
    match lookup kvs "state" with
      | none => .error "type"                                                    -- missing positional argument
      | some st =>
        match dateOf iso (lookup kvs "deadline") with
        | .error e => .error e
        | .ok d => match dateOf iso (lookup kvs "expected_end") with
          | .error e => .error e
          | .ok x => .ok ⟨stateOf st, d, x⟩
  | _ => .error "attribute"                                                      -- `v.items()` of a non-mapping

def entriesOf (iso : String → Option String) : List (String × JVal) → Except Err (List (String × MEntry))
  | [] => .ok []
  | (k, v) :: rest =>
    match entryOf iso v with
    | .error e => .error e
    | .ok e => match entriesOf iso rest with
      | .error e => .error e
      | .ok es => .ok ((k, e) :: es)

/-- `from_json` -/
def minfoDecode (iso : String → Option String) : Option JVal → Except Err (Option MInfo)
  | none => .ok none
  | some (.obj kvs) => match entriesOf iso kvs with
    | .error e => .error e
    | .ok es => .ok (some ⟨es, true⟩)
  | some _ => .error "attribute"    -- o.items() on a non-dict

/-! ## TypedTuple (`"type:value"`), strings as character lists -/

structure TTuple where
  type : List Char
  val : JVal          -- a `str` (labels) or an `int` (capacities)
  deriving DecidableEq, Repr

/-- `get_as_string` -/
def ttEncode (t : TTuple) : List Char := t.type ++ ':' :: t.val.pyStr.toList

/-- `s.split(':', 1)` unpacked into two names (`none`: ValueError) -/
def splitFirst : List Char → Option (List Char × List Char)
  | [] => none
  | c :: cs => if c = ':' then some ([], cs) else
    match splitFirst cs with
    | none => none
    | some (a, b) => some (c :: a, b)

/-- `str.strip()` with the whitespace predicate `ws` (generated from `str.isspace`) -/
def strip (ws : Char → Bool) (l : List Char) : List Char :=
  ((l.dropWhile ws).reverse.dropWhile ws).reverse

/-- `badType` is what an unknown type raises: the constructor's own error message calls
`self.lv.get_types()` without its argument (TypeError, `"type"`); `parse_from_string` raises
TypedTupleException (`"tuple"`). -/
def ttOf (badType : Err) (types : List (List Char)) (s : List Char) : Except Err TTuple :=
  match splitFirst s with
  | none => .error "value"
  | some (t, v) => if types.contains t then .ok ⟨t, .str (String.ofList v)⟩ else .error badType

/-- `Cls(fromstring=s)` -/
def ttFromString (types : List (List Char)) (ws : Char → Bool) (s : List Char) : Except Err TTuple :=
  ttOf "type" types (strip ws s)

/-- `parse_from_string(s)` on an existing tuple -/
def ttParse (types : List (List Char)) (s : List Char) : Except Err TTuple := ttOf "tuple" types s

/-- `Cls(atype=, aval=)` -/
def ttNew (types : List (List Char)) (t : List Char) (v : JVal) : Except Err TTuple :=
  if types.contains t then .ok ⟨t, v⟩ else .error "type"

end FimVerif.Codec
