import FimVerif.Model.Store
/-!
# DStore — the one-graph-per-id store (`NetworkXGraphStorageDisjoint` + `NetworkXPropertyGraphDisjoint`)  (C04/C05)

`graphs` mirrors `self.graphs` (a `defaultdict(nx.Graph)`), `ids` mirrors `graph_node_ids`
(`defaultdict(lambda: 1)`).  A missing entry and an empty graph are the same thing for every method
(since /repo 7bd45c1 `add_graph` no longer looks at the bare key), so reads do not need to create entries.

`NetworkXPropertyGraphDisjoint` inherits every property-graph method from `NetworkXPropertyGraph`; the
only difference is that `storage.get_graph(g)` hands out the graph stored under `g`.  The model says the
same thing: a property-graph operation on graph `g` is the *shared-store* operation run on the sub-store
`sub d g` (that graph's nodes and edges, its id counter), written back under `g`.  Only the storage
methods (`add_graph`, `add_graph_direct`, `del_graph`, `extract_graph`) and the methods that look at a
second graph (`clone_graph`, `find_matching_nodes`, `merge_nodes`) are written out here.
-/
namespace FimVerif.DStore
open FimVerif FimVerif.Store FimVerif.Gen.StoreConsts

structure DStore where
  graphs : List (String × (List SNode × List SEdge))
  ids : List (String × Nat)
  deriving Repr

def init : DStore := ⟨[], []⟩

abbrev DR := Except Err Out × DStore

/-- making an importer on the one-graph-per-container backend (`NetworkXGraphImporterDisjoint(logger=…)` → the singleton shell
    `NetworkXGraphStorageDisjoint.__init__`): as `Store.enter` - the existing store object is left alone whatever arguments
    the importer is given; read from the generated flag -/
def enter (cur : Option DStore) : DStore :=
  match cur with
  | none => (⟨[], []⟩ : DStore)
  | some d => if Gen.StoreFlow.flow.disjointStoreSurvivesNewImporter then d else (⟨[], []⟩ : DStore)

/-- the graph stored under `g` and its id counter, as a shared-store value -/
def sub (d : DStore) (g : String) : Store :=
  match AMap.get g d.graphs with
  | some (ns, es) => ⟨ns, es, (AMap.get g d.ids).getD 1⟩
  | none => ⟨[], [], (AMap.get g d.ids).getD 1⟩

def put (d : DStore) (g : String) (st : Store) : DStore :=
  ⟨AMap.set g (st.nodes, st.edges) d.graphs, AMap.set g st.nextId d.ids⟩

/-- run an inherited `NetworkXPropertyGraph` method on the graph stored under `g` -/
def lift (g : String) (f : Store → R) (d : DStore) : DR :=
  let r := f (sub d g)
  (r.1, put d g r.2)

/-- `storage.add_graph`: a non-empty graph of that id is kept ("warn and skip"); nothing is deleted
    before the NodeID check; ids restart from 1 -/
def addGraph (g : String) (ig : IGraph) (d : DStore) : DR :=
  if (sub d g).nodes.length > 0 then (.ok .unit, d)
  else if ig.nodes.any (fun a => !truthy (AMap.get nodeId a)) then (.error .import_, d)
  else (.ok .unit, put d g (appendGraph (ig.nodes.map (AMap.set graphId (.str g))) ig.edges ⟨[], [], 1⟩))

/-- `storage.add_graph_direct`: always replaces -/
def addGraphDirect (g : String) (ig : IGraph) (d : DStore) : DR :=
  (.ok .unit, put d g (appendGraph ig.nodes ig.edges ⟨[], [], 1⟩))

/-- `storage.del_graph`: `clear()`; the id counter stays -/
def delGraph (g : String) (d : DStore) : DR :=
  (.ok .unit, put d g ⟨[], [], if Gen.StoreFlow.flow.disjointDelGraphKeepsCounter then (sub d g).nextId else 1⟩)

/-- `storage.extract_graph`: a copy of whatever is stored under `g` (never `None`) -/
def extractGraph (d : DStore) (g : String) : IGraph :=
  let st := sub d g
  ⟨st.nodes.map (·.attrs), st.edges.map (fun e => (posOf st.nodes e.a, posOf st.nodes e.b, e.attrs))⟩

/-- inherited `clone_graph` -/
def cloneGraph (g g2 : String) (d : DStore) : DR := addGraph g2 (extractGraph d g) d

/-- inherited `find_matching_nodes`: `_collect_nodeids` walks every node stored under `other` -/
def findMatchingNodes (g other : String) (d : DStore) : DR :=
  match listAllNodeIds g (sub d g) with
  | (.error e, _) => (.error e, d)
  | (.ok (.vals mine), _) =>
    let theirs := (sub d other).nodes.map (fun n => AMap.get nodeId n.attrs)
    match fmnErr mine theirs with
    | some e => (.error e, d)
    | none => (.ok (.vals ((mine.filter (fun x => theirs.contains x)).eraseDups)), d)
  | (.ok _, _) => (.error .runtime, d)

/-- `storage.del_all_graphs`: `self.graphs.clear()`; the per-graph id counters (`graph_node_ids`) stay -/
def delAllGraphs (d : DStore) : DR :=
  (.ok .unit, ⟨[], if Gen.StoreFlow.flow.disjointDelAllKeepsCounters then d.ids else []⟩)

def step (op : Op) (d : DStore) : DR :=
  match op with
  | .addGraph g ig => addGraph g ig.close d
  | .addGraphDirect g ig => addGraphDirect g ig.close d
  | .delAllGraphs => delAllGraphs d
  | .deleteGraph g => delGraph g d
  | .clone g g2 => cloneGraph g g2 d
  | .mergeNodes .. => (.error .runtime, d)          -- "Not implementable with this backend."
  | .findMatchingNodes g other => findMatchingNodes g other d
  | op => lift op.target (Store.step op) d

def run (ops : List Op) (d : DStore) : DStore := ops.foldl (fun d o => (step o d).2) d

/-- which lookups restrict themselves to the nodes carrying the caller's `GraphID` when the container stored under that id
    also holds nodes of another graph (after a `GraphID` rewrite or a direct import; observed on the code by
    `gen/storeflow.py`, `Gen.StoreFlow.dgidFiltered`): every inherited property-graph lookup does - `lift` runs the
    shared-store method, which filters with `inG g`, on `sub d g`; `graph_exists`, the one query the backend overrides, too -
    while the storage methods `extract_graph` (`extractGraph`) and `del_graph` (`delGraph`) take the whole container -/
def modelFiltered : List (String × Bool) :=
  [("_find_node", true), ("_find_all_nodes", true), ("node_exists", true), ("add_node", true),
   ("get_all_nodes_by_class", true), ("get_all_nodes_by_class_and_type", true), ("check_node_unique", true),
   ("graph_exists", true), ("extract_graph", false), ("del_graph", false)]

end FimVerif.DStore
