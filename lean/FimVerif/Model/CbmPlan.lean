import FimVerif.Model.Cbm
/-!
# C14: the vocabulary of the *plans* of `merge_adm` / `unmerge_adm` / `snapshot` / `rollback`

`gen/cbmcfg.py` observes which calls of the abstract graph interface each method makes, on which graph object and in
which order, and writes them as values of these types into `Generated/CbmCfg.lean`; `Model/CbmStore.lean` interprets
them on a model of the shared store.
-/
namespace FimVerif.Cbm

/-- the graph objects a broker call deals with: the combined model (`self`), the temporary clone / the snapshot, the
delegation model passed in -/
inductive G where
  | cbm | tmp | adm
deriving DecidableEq, Repr, Inhabited

/-- one call inside the common-node loop of `merge_adm` -/
inductive LStep where
  | updateDelegations (on frm : G)      -- on._update_node_delegations(node_id, adm=frm)
  | mergeNodes (on other : G)           -- on.merge_nodes(node_id, other_graph=other)
  | appendProvenance (on : G) (by_ : G) -- on.update_node_property(node_id, StructuralInfo, ids + [by_.graph_id])
deriving DecidableEq, Repr, Inhabited

/-- one (mutating) call of `merge_adm` / `snapshot` -/
inductive MStep where
  | clone (src dst : G)                 -- src.clone_graph(new_graph_id=<fresh id of dst>)
  | rewriteDelegations (g real : G)     -- g.rewrite_delegations(real_adm_id=real.graph_id)
  | setProvenance (g : G) (by_ : G)     -- g.update_nodes_property(StructuralInfo, [by_.graph_id])
  | rehome (g to : G)                   -- g.update_nodes_property(GraphID, to.graph_id)
  | forCommon (a b : G) (body : List LStep)   -- for node_id in a.find_matching_nodes(other_graph=b): body
deriving DecidableEq, Repr, Inhabited

/-- what `unmerge_adm` does for one element, in order -/
inductive UStep where
  | provenance                          -- remove the id from adm_graph_ids: delete (later) or write back
  | deleg (cap : Bool)                  -- erase the id's entry from CapacityDelegations (true) / LabelDelegations (false)
deriving DecidableEq, Repr, Inhabited

/-- one call of `rollback` -/
inductive RStep where
  | deleteGraph (g : G)
  | assertExists (g : G)                -- importer.cast_graph(graph_id)
  | rehome (g to : G)
deriving DecidableEq, Repr, Inhabited

structure Plans where
  /-- `merge_adm` refuses (AssertionError) a delegation model without elements before doing anything -/
  requireAdm : Bool
  mergeEmpty : List MStep               -- the combined model has no elements
  mergeNonEmpty : List MStep
  unmergeNode : List UStep
  /-- elements whose provenance became empty are deleted after all elements have been looked at -/
  unmergeDeleteAfter : Bool
  snapshot : List MStep
  rollback : List RStep
deriving DecidableEq, Repr, Inhabited

/-- row of a behavioural table: what the code makes of a delegation property -/
structure RekeyRow where
  input : Deleg
  out : Option Deleg                    -- `none` = raises `err`
  err : Option Err
deriving Repr

structure TakeRow where
  cbm : Deleg
  adm : Deleg
  out : Option Deleg                    -- `none` = raises
deriving Repr

structure UnmergeDelegRow where
  input : Deleg
  out : Option Deleg                    -- `none` = raises
deriving Repr

structure ProvRow where
  input : List String
  out : List String × Bool              -- list as left on the element, element deleted
deriving Repr

end FimVerif.Cbm
