import FimVerif.Model.AMap
import FimVerif.Generated.StoreConsts
import FimVerif.Generated.StoreFlow
/-!
# Store — the shared in-memory store (`NetworkXGraphStorage` + `NetworkXPropertyGraph`)  (C04/C05)

One `nx.Graph` holds every graph; a node belongs to graph `g` iff its `GraphID` attribute equals `g`.
`nodes` / `edges` mirror `self.graphs` (insertion order; `nx.Graph` is undirected and has at most one
edge per unordered pair), `nextId` mirrors `start_id`.

Every public operation is `Store → Except Err Out × Store`: the state is returned on failure too,
because `add_graph` deletes the old graph of the same id *before* it may raise on a missing `NodeID`.
The control flow follows the Python methods statement by statement (order of checks included).
Property names come from `Generated/StoreConsts.lean` (regenerated from the source on every run).
Core only (no Mathlib).
-/
namespace FimVerif.Store
open FimVerif FimVerif.Gen.StoreConsts

/-- property values.  The API stores whatever Python object it is handed: strings (the normal case),
    `None` (only through the bulk updates / initial properties — the single-value updates assert against
    it — and through `merge_nodes` for an unknown policy word), ints, bools, 2-element lists (`merge_nodes`
    writes `[mine, theirs]` for `combine`), and any other list / dict, which the stores never look into and
    which is carried here as its canonical JSON text. -/
inductive Val where
  | str (s : String)
  | none
  | pair (a b : Val)
  | int (n : Int)
  | bool (b : Bool)
  | json (text : String)
  deriving DecidableEq, Repr, Inhabited

abbrev Props := List (String × Val)

structure SNode where
  iid : Nat
  attrs : Props
  deriving DecidableEq, Repr

structure SEdge where
  a : Nat
  b : Nat
  attrs : Props
  deriving DecidableEq, Repr

structure Store where
  nodes : List SNode
  edges : List SEdge
  nextId : Nat
  deriving DecidableEq, Repr

/-- error kinds (python exception classes, `core.err_kind`) -/
inductive Err where
  | query | import_ | key | type_ | attribute | assertion | runtime
  deriving DecidableEq, Repr

inductive Out where
  | unit
  | bool (b : Bool)
  | vals (l : List (Option Val))         -- listings of NodeID values
  | nodeProps (label : Val) (p : Props)  -- ([label], props)
  | linkProps (kind : Val) (p : Props)   -- (kind, props)
  | int (n : Nat)
  deriving DecidableEq, Repr

abbrev R := Except Err Out × Store

/-- a graph handed to `add_graph`: nodes in iteration order (their own keys are irrelevant, since
    `convert_node_labels_to_integers` renumbers by position), edges between positions -/
structure IGraph where
  nodes : List Props
  edges : List (Nat × Nat × Props)
  deriving DecidableEq, Repr

def init : Store := ⟨[], [], 1⟩

/-! ## queries on the raw store -/

def inG (g : String) (n : SNode) : Bool := AMap.get graphId n.attrs == some (.str g)
def hasNid (nid : String) (n : SNode) : Bool := AMap.get nodeId n.attrs == some (.str nid)
def hasAttr (k : String) (v : String) (n : SNode) : Bool := AMap.get k n.attrs == some (.str v)

/-- nodes of graph `g` (`nxq.search_nodes(… {'eq': [GRAPH_ID, g]})`) -/
def nodesOf (s : Store) (g : String) : List SNode := s.nodes.filter (inG g)

def idIn (ns : List SNode) (i : Nat) : Bool := ns.any (fun n => n.iid == i)

/-- edges with both endpoints in graph `g` (what `extract_graph` copies) -/
def edgesOf (s : Store) (g : String) : List SEdge :=
  s.edges.filter (fun e => idIn (nodesOf s g) e.a && idIn (nodesOf s g) e.b)

/-- `_find_node`: not found / multiple matches raise a query exception -/
def findNode (s : Store) (g nid : String) : Except Err Nat :=
  match s.nodes.filter (fun n => hasNid nid n && inG g n) with
  | [] => .error .query
  | [n] => .ok n.iid
  | _ => .error .query

def nodeAttrs (s : Store) (i : Nat) : Option Props := (s.nodes.find? (fun n => n.iid == i)).map (·.attrs)

def edgeMatch (a b : Nat) (e : SEdge) : Bool := (e.a == a && e.b == b) || (e.a == b && e.b == a)

def findEdge (s : Store) (a b : Nat) : Option SEdge := s.edges.find? (edgeMatch a b)

/-! ## primitive state transformers -/

def updNode (i : Nat) (f : Props → Props) (s : Store) : Store :=
  { s with nodes := s.nodes.map (fun n => if n.iid = i then { n with attrs := f n.attrs } else n) }

def updGraphNodes (g : String) (f : Props → Props) (s : Store) : Store :=
  { s with nodes := s.nodes.map (fun n => if inG g n then { n with attrs := f n.attrs } else n) }

def updEdge (a b : Nat) (f : Props → Props) (s : Store) : Store :=
  { s with edges := s.edges.map (fun e => if edgeMatch a b e then { e with attrs := f e.attrs } else e) }

/-- `G.remove_node(i)` -/
def removeNode (i : Nat) (s : Store) : Store :=
  { s with nodes := s.nodes.filter (fun n => n.iid != i),
           edges := s.edges.filter (fun e => e.a != i && e.b != i) }

/-- `__del_graph_nl` : `remove_nodes_from(nodes of g)` -/
def delGraphNl (g : String) (s : Store) : Store :=
  { s with nodes := s.nodes.filter (fun n => !inG g n),
           edges := s.edges.filter (fun e => !idIn (nodesOf s g) e.a && !idIn (nodesOf s g) e.b) }

/-- `G.add_edge(a, b, **attrs)` : update the existing edge's dict or create one -/
def addEdge (a b : Nat) (attrs : Props) (s : Store) : Store :=
  if s.edges.any (edgeMatch a b) then updEdge a b (fun p => AMap.update p attrs) s
  else { s with edges := s.edges ++ [⟨a, b, attrs⟩] }

/-- positions → fresh internal ids -/
def relabel (base : Nat) : List Props → List SNode
  | [] => []
  | a :: r => ⟨base, a⟩ :: relabel (base + 1) r

/-- python truthiness (`if not attrs.get(NODE_ID, None)`) -/
def truthy : Option Val → Bool
  | some (.str s) => s != ""
  | some (.pair _ _) => true
  | some (.int n) => n != 0
  | some (.bool b) => b
  | some (.json t) => t != "[]" && t != "{}"
  | _ => false

/-! ## storage operations -/

/-- the tail of `add_graph` / `add_graph_direct`: relabel from `start_id`, add nodes and edges -/
def appendGraph (ns : List Props) (es : List (Nat × Nat × Props)) (s : Store) : Store :=
  { nodes := s.nodes ++ relabel s.nextId ns,
    edges := s.edges ++ es.map (fun e => ⟨s.nextId + e.1, s.nextId + e.2.1, e.2.2⟩),
    nextId := s.nextId + ns.length }

def delIfPresent (g : String) (s : Store) : Store :=
  if (nodesOf s g).length > 0 then delGraphNl g s else s

/-- `storage.add_graph(graph_id, graph)` -/
def addGraph (g : String) (ig : IGraph) (s : Store) : R :=
  let s1 := delIfPresent g s
  if ig.nodes.any (fun a => !truthy (AMap.get nodeId a)) then (.error .import_, s1)
  else (.ok .unit, appendGraph (ig.nodes.map (AMap.set graphId (.str g))) ig.edges s1)

/-- `storage.add_graph_direct(graph_id, graph)` -/
def addGraphDirect (g : String) (ig : IGraph) (s : Store) : R :=
  (.ok .unit, appendGraph ig.nodes ig.edges (delIfPresent g s))

/-- `storage.del_graph` / `delete_graph()` -/
def delGraph (g : String) (s : Store) : R := (.ok .unit, delGraphNl g s)

def posOf (ns : List SNode) (i : Nat) : Nat := ns.findIdx (fun n => n.iid == i)

/-- `storage.extract_graph`: `None` when the graph has no nodes -/
def extractGraph (s : Store) (g : String) : Option IGraph :=
  let ns := nodesOf s g
  if ns.length = 0 then none
  else some ⟨ns.map (·.attrs), (edgesOf s g).map (fun e => (posOf ns e.a, posOf ns e.b, e.attrs))⟩

/-- `clone_graph(new_graph_id)`: `extract_graph(g).copy()` then `add_graph` -/
def cloneGraph (g g2 : String) (s : Store) : R :=
  match extractGraph s g with
  | none => (.error .attribute, s)       -- None.copy()
  | some ig => addGraph g2 ig s

/-- `add_blank_node_to_graph(graph_id, Class=label, NodeID=node_id)` -/
def addBlankNode (g label nid : String) (s : Store) : Store :=
  { s with nodes := s.nodes ++ [⟨s.nextId, [(graphId, .str g), (propClass, .str label), (nodeId, .str nid)]⟩],
           nextId := s.nextId + 1 }

/-! ## property-graph operations (`NetworkXPropertyGraph`, graph id `g`) -/

def withNode (s : Store) (g nid : String) (k : Nat → R) : R :=
  match findNode s g nid with
  | .error e => (.error e, s)
  | .ok i => k i

/-- `node_exists(node_id, label)` -/
def nodeExists (g nid label : String) (s : Store) : R :=
  match s.nodes.filter (fun n => inG g n && hasNid nid n && hasAttr propClass label n) with
  | [] => (.ok (.bool false), s)
  | [_] => (.ok (.bool true), s)
  | _ => (.error .query, s)

/-- the guard at the head of `add_node`: any node of the graph with this `NodeID`, whatever its class
    (/repo be46229; before, the check went through `node_exists`, which filters on the class too) -/
def addNodeGuard (g nid : String) (s : Store) : Bool :=
  (s.nodes.filter (fun n => inG g n && hasNid nid n)).length > 0

/-- `add_node(node_id, label, props)` -/
def addNode (g nid label : String) (props : Option Props) (s : Store) : R :=
  if addNodeGuard g nid s then (.error .query, s)
  else
    let s1 := addBlankNode g label nid s
    match props with
    | none => (.ok .unit, s1)
    | some p => (.ok .unit, updNode s.nextId (fun a => AMap.update a p) s1)

/-- `delete_node(node_id)` -/
def deleteNode (g nid : String) (s : Store) : R :=
  withNode s g nid fun i => (.ok .unit, removeNode i s)

/-- `add_link(node_a, rel, node_b, props)`; `Class` among the props is a duplicate keyword argument -/
def addLink (g a rel b : String) (props : Option Props) (s : Store) : R :=
  withNode s g a fun ia => withNode s g b fun ib =>
    match props with
    | none => (.ok .unit, addEdge ia ib [(propClass, .str rel)] s)
    | some p =>
      if AMap.has propClass p then (.error .type_, s)
      else (.ok .unit, addEdge ia ib ((propClass, .str rel) :: p) s)

/-- `update_node_property` (after its `assert prop_val is not None`, see `assertVal`) -/
def updateNodeProperty (g nid k : String) (v : Val) (s : Store) : R :=
  if k = nxLabel then (.error .query, s)
  else withNode s g nid fun i => (.ok .unit, updNode i (AMap.set k v) s)

/-- `unset_node_property` -/
def unsetNodeProperty (g nid k : String) (s : Store) : R :=
  if k = nxLabel then (.error .query, s)
  else if k ∈ noUnset then (.error .query, s)
  else withNode s g nid fun i =>
    match nodeAttrs s i with
    | none => (.error .key, s)
    | some a => if AMap.has k a then (.ok .unit, updNode i (AMap.erase k) s) else (.error .query, s)

/-- `update_nodes_property` (the class check comes after `_find_all_nodes`) -/
def updateNodesProperty (g k : String) (v : Val) (s : Store) : R :=
  if (nodesOf s g).length = 0 then (.error .query, s)
  else if k = nxLabel then (.error .query, s)
  else (.ok .unit, updGraphNodes g (AMap.set k v) s)

/-- `update_node_properties` -/
def updateNodeProperties (g nid : String) (props : Props) (s : Store) : R :=
  if AMap.has nxLabel props then (.error .query, s)
  else withNode s g nid fun i => (.ok .unit, updNode i (fun a => AMap.update a props) s)

/-- common head of the three link-property methods: both nodes, the edge, its kind -/
def withLink (s : Store) (g a b kind : String) (k : Nat → Nat → SEdge → R) : R :=
  withNode s g a fun ia => withNode s g b fun ib =>
    match findEdge s ia ib with
    | none => (.error .query, s)
    | some e => if AMap.get nxLabel e.attrs != some (.str kind) then (.error .query, s) else k ia ib e

/-- `update_link_property` -/
def updateLinkProperty (g a b kind k : String) (v : Val) (s : Store) : R :=
  if k = nxLabel then (.error .query, s)
  else withLink s g a b kind fun ia ib _ => (.ok .unit, updEdge ia ib (AMap.set k v) s)

/-- `unset_link_property` (only the class is protected; an absent property is not an error) -/
def unsetLinkProperty (g a b kind k : String) (s : Store) : R :=
  if k = nxLabel then (.error .query, s)
  else withLink s g a b kind fun ia ib _ => (.ok .unit, updEdge ia ib (AMap.erase k) s)

/-- `update_link_properties` -/
def updateLinkProperties (g a b kind : String) (props : Props) (s : Store) : R :=
  if AMap.has nxLabel props then (.error .query, s)
  else withLink s g a b kind fun ia ib _ => (.ok .unit, updEdge ia ib (fun p => AMap.update p props) s)

/-- `get_node_properties` -/
def getNodeProperties (g nid : String) (s : Store) : R :=
  withNode s g nid fun i =>
    match nodeAttrs s i with
    | none => (.error .query, s)
    | some a =>
      match AMap.get nxLabel a with
      | none => (.error .key, s)
      | some l => (.ok (.nodeProps l (AMap.erase nxLabel a)), s)

/-- `get_link_properties` -/
def getLinkProperties (g a b : String) (s : Store) : R :=
  withNode s g a fun ia => withNode s g b fun ib =>
    match findEdge s ia ib with
    | none => (.error .query, s)
    | some e =>
      match AMap.get nxLabel e.attrs with
      | none => (.error .query, s)
      | some l => (.ok (.linkProps l (AMap.erase nxLabel e.attrs)), s)

/-- `[nodes[n][NODE_ID] for n in …]` : KeyError on a node without `NodeID` -/
def nidList (ns : List SNode) (s : Store) : R :=
  if ns.any (fun n => !AMap.has nodeId n.attrs) then (.error .key, s)
  else (.ok (.vals (ns.map (fun n => AMap.get nodeId n.attrs))), s)

/-- `list_all_node_ids` -/
def listAllNodeIds (g : String) (s : Store) : R :=
  if (nodesOf s g).length = 0 then (.error .query, s) else nidList (nodesOf s g) s

/-- `get_all_nodes_by_class` -/
def nodesByClass (g label : String) (s : Store) : R :=
  nidList ((nodesOf s g).filter (hasAttr propClass label)) s

/-- `get_all_nodes_by_class_and_type` -/
def nodesByClassAndType (g label ntype : String) (s : Store) : R :=
  nidList ((nodesOf s g).filter (fun n => hasAttr propClass label n && hasAttr propType ntype n)) s

/-- `graph_exists` -/
def graphExists (g : String) (s : Store) : R := (.ok (.bool ((nodesOf s g).length > 0)), s)

/-- `check_node_unique(label, name)` -/
def checkNodeUnique (g label name : String) (s : Store) : R :=
  (.ok (.bool (((nodesOf s g).filter (fun n => hasAttr propName name n && hasAttr propClass label n)).length = 0)), s)

/-- can the value be a member of a python `set` (lists and dicts cannot) -/
def hashable : Val → Bool
  | .pair .. | .json _ => false
  | _ => true

/-- `_collect_nodeids`: the nodes are walked in order; `KeyError` at a node without `NodeID`, `TypeError`
    at an unhashable one (a list written by a `combine` policy or by a `NodeID` rewrite) -/
def collectErr : List (Option Val) → Option Err
  | [] => none
  | none :: _ => some .key
  | some v :: r => if hashable v then collectErr r else some .type_

/-- `set(self.list_all_node_ids())` first, then `_collect_nodeids(other)` -/
def fmnErr (mine theirs : List (Option Val)) : Option Err :=
  if mine.any (fun x => match x with | some v => !hashable v | none => false) then some .type_ else collectErr theirs

/-- `find_matching_nodes(other_graph)`: `extract_graph(other)` is `None` for an empty graph, and then
    nothing matches (/repo 0a151d9) -/
def findMatchingNodes (g other : String) (s : Store) : R :=
  match listAllNodeIds g s with
  | (.error e, _) => (.error e, s)
  | (.ok (.vals mine), _) =>
    let theirs := (nodesOf s other).map (fun n => AMap.get nodeId n.attrs)
    match fmnErr mine theirs with
    | some e => (.error e, s)
    | none => (.ok (.vals ((mine.filter (fun x => theirs.contains x)).eraseDups)), s)
  | (.ok _, _) => (.error .runtime, s)

/-! ## `merge_nodes` (`nx.contracted_nodes(G, u, v, copy=False)` + the property policy) -/

/-- the remapping loop of `contracted_nodes` over the edges that were incident to `v`: an edge whose
    image does not exist yet is added with its attributes; an edge whose image already exists keeps
    the existing attributes (networkx records the dropped dictionary under `contraction`, which
    `merge_nodes` removes again — see `mergeNodes`) -/
def remapEdges (u v : Nat) : List SEdge → Store → Store
  | [], s => s
  | e :: r, s =>
    let w := if e.a = v then u else e.a
    let x := if e.b = v then u else e.b
    let s' := if s.edges.any (edgeMatch w x) then s else { s with edges := s.edges ++ [⟨w, x, e.attrs⟩] }
    remapEdges u v r s'

def contract (u v : Nat) (s : Store) : Store :=
  let inc := s.edges.filter (fun e => e.a == v || e.b == v)
  remapEdges u v inc (removeNode v s)

inductive Policy where | discard | overwrite | combine | other
  deriving DecidableEq, Repr

/-- the dict comprehension over `node_props.items()`; `other_props[k]` raises KeyError -/
def mergeProps (theirs : Props) (pol : List (String × Policy)) : Props → Except Err Props
  | [] => .ok []
  | (k, v) :: r =>
    match mergeProps theirs pol r with
    | .error e => .error e
    | .ok rest =>
      match AMap.get k pol with
      | none => .ok ((k, v) :: rest)
      | some .discard => .ok ((k, v) :: rest)
      | some .overwrite =>
        match AMap.get k theirs with
        | none => .error .key
        | some w => .ok ((k, w) :: rest)
      | some .combine =>
        match AMap.get k theirs with
        | none => .error .key
        | some w => .ok ((k, .pair v w) :: rest)
      | some .other => .ok ((k, .none) :: rest)

/-- `merge_nodes(node_id, other_graph, merge_properties)`.  The merged dictionary is computed first
    (/repo 1165ef5), so a `KeyError` from `other_props[k]` leaves the store untouched. -/
def mergeNodes (g nid g2 : String) (pol : Option (List (String × Policy))) (s : Store) : R :=
  if (nodesOf s g2).length = 0 then (.error .assertion, s)
  else withNode s g nid fun u =>
    match findNode s g2 nid with
    | .error e => (.error e, s)
    | .ok v =>
      if u = v then (.error .query, s)        -- other_graph is the caller's own graph (/repo 119fa6d)
      else
      match nodeAttrs s u, nodeAttrs s v with
      | some mine, some theirs =>
        match pol with
        | none => (.ok .unit, updNode u (fun _ => mine) (contract u v s))
        | some pol =>
          match mergeProps theirs pol mine with
          | .error e => (.error e, s)
          | .ok np => (.ok .unit, updNode u (fun _ => np) (contract u v s))
      | _, _ => (.error .key, s)

/-- `assert prop_val is not None` at the head of `update_node_property`, `update_nodes_property` and
    `update_link_property` (the bulk updates have no such assertion: a `None` inside the dictionary is
    stored as a value) -/
def assertVal (v : Val) (s : Store) (k : R) : R := if v = .none then (.error .assertion, s) else k

/-- `importer.delete_all_graphs()` → `storage.del_all_graphs()`: `self.graphs.clear()`; `start_id` is *not*
    reset, so internal ids are never handed out twice -/
def delAllGraphs (s : Store) : R :=
  (.ok .unit, { s with nodes := [], edges := [],
                       nextId := if Gen.StoreFlow.flow.sharedDelAllKeepsCounter then s.nextId else 1 })

/-- the control flow this model mirrors, as the facts `gen/storeflow.py` observes on the code (regenerated on every
    run into `Generated/StoreFlow.lean`): imports relabel from the counter `start_id`, which advances by the number of
    imported nodes and is never reset; the disjoint store relabels from 1, keeps one counter per graph id which
    `del_graph` / `del_all_graphs` leave alone, and regards a graph id as present iff it holds nodes.  The allocator
    bookkeeping of `del_graph` / `del_all_graphs` is *read* from the generated flags (here and in `Model/DStore.lean`);
    for the rest `C04.flow_is_modelled` states that the generated facts are the modelled ones. -/
def modelFlow : Gen.StoreFlow.Flow :=
  { sharedImportFromCounter := true, sharedCounterAdvancesByLen := true, sharedBlankFromCounter := true,
    sharedDelGraphKeepsCounter := true, sharedDelAllKeepsCounter := true, disjointImportFromOne := true,
    disjointCounterAfterImportLenPlusOne := true, disjointBlankFromCounter := true, disjointDelGraphKeepsCounter := true,
    disjointDelAllKeepsCounters := true, disjointPresentMeansHasNodes := true, disjointDirectImportReplaces := true,
    sharedStoreSurvivesNewImporter := true, disjointStoreSurvivesNewImporter := true }

/-- making an importer (`NetworkXGraphImporter(logger=…)` → the singleton shell `NetworkXGraphStorage.__init__`): the process
    has at most ONE store object; the shell creates it when there is none and otherwise leaves the existing one alone, whatever
    arguments the importer is given (with / without a logger, after a first importer with / without one).  `cur` = the store
    of the process so far.  What the code does is *read* from the generated flag (`gen/storeflow.py` `probe_importers`). -/
def enter (cur : Option Store) : Store :=
  match cur with
  | none => init
  | some s => if Gen.StoreFlow.flow.sharedStoreSurvivesNewImporter then s else init

/-- every lookup of the model filters on `GraphID` (`inG g`): `_find_node` (`findNode`), `_find_all_nodes` (`nodesOf`),
    `node_exists`, the `add_node` guard, the class / type listings, `check_node_unique`, `graph_exists`,
    `extract_graph`, `del_graph` -/
def modelFiltered : List (String × Bool) :=
  [("_find_node", true), ("_find_all_nodes", true), ("node_exists", true), ("add_node", true),
   ("get_all_nodes_by_class", true), ("get_all_nodes_by_class_and_type", true), ("check_node_unique", true),
   ("graph_exists", true), ("extract_graph", true), ("del_graph", true)]

/-- edges of an imported graph refer to positions of its node list (an `nx.Graph` always does) -/
def IGraph.WF (ig : IGraph) : Bool := ig.edges.all (fun e => e.1 < ig.nodes.length && e.2.1 < ig.nodes.length)

/-- the wire form `IGraph` can name positions that do not exist; an `nx.Graph` cannot have such an edge.
    `close` is the decoding: dangling edges are dropped (the identity on every well-formed graph,
    `IGraph.close_of_WF`), so that `step` is total and needs no side condition on imports. -/
def IGraph.close (ig : IGraph) : IGraph :=
  { ig with edges := ig.edges.filter (fun e => e.1 < ig.nodes.length && e.2.1 < ig.nodes.length) }

theorem IGraph.close_WF (ig : IGraph) : ig.close.WF = true := by
  simp only [IGraph.WF, IGraph.close, List.all_eq_true, List.mem_filter]
  intro e he; exact he.2

theorem IGraph.close_of_WF (ig : IGraph) (h : ig.WF = true) : ig.close = ig := by
  unfold IGraph.close
  have : ig.edges.filter (fun e => e.1 < ig.nodes.length && e.2.1 < ig.nodes.length) = ig.edges := by
    rw [List.filter_eq_self]
    simpa [IGraph.WF, List.all_eq_true] using h
  rw [this]

/-! ## operations as data, histories -/

inductive Op where
  | addNode (g nid label : String) (props : Option Props)
  | deleteNode (g nid : String)
  | addLink (g a rel b : String) (props : Option Props)
  | updateNodeProperty (g nid k : String) (v : Val)
  | unsetNodeProperty (g nid k : String)
  | updateNodesProperty (g k : String) (v : Val)
  | updateNodeProperties (g nid : String) (props : Props)
  | updateLinkProperty (g a b kind k : String) (v : Val)
  | unsetLinkProperty (g a b kind k : String)
  | updateLinkProperties (g a b kind : String) (props : Props)
  | deleteGraph (g : String)
  | addGraph (g : String) (ig : IGraph)
  | addGraphDirect (g : String) (ig : IGraph)
  | clone (g g2 : String)
  | mergeNodes (g nid g2 : String) (pol : Option (List (String × Policy)))
  | getNodeProperties (g nid : String)
  | getLinkProperties (g a b : String)
  | listAllNodeIds (g : String)
  | nodesByClass (g label : String)
  | nodesByClassAndType (g label ntype : String)
  | nodeExists (g nid label : String)
  | graphExists (g : String)
  | checkNodeUnique (g label name : String)
  | findMatchingNodes (g other : String)
  | delAllGraphs
  deriving Repr

def step : Op → Store → R
  | .addNode g nid label props => addNode g nid label props
  | .deleteNode g nid => deleteNode g nid
  | .addLink g a rel b props => addLink g a rel b props
  | .updateNodeProperty g nid k v => fun s => assertVal v s (updateNodeProperty g nid k v s)
  | .unsetNodeProperty g nid k => unsetNodeProperty g nid k
  | .updateNodesProperty g k v => fun s => assertVal v s (updateNodesProperty g k v s)
  | .updateNodeProperties g nid props => updateNodeProperties g nid props
  | .updateLinkProperty g a b kind k v => fun s => assertVal v s (updateLinkProperty g a b kind k v s)
  | .unsetLinkProperty g a b kind k => unsetLinkProperty g a b kind k
  | .updateLinkProperties g a b kind props => updateLinkProperties g a b kind props
  | .deleteGraph g => delGraph g
  | .addGraph g ig => addGraph g ig.close
  | .addGraphDirect g ig => addGraphDirect g ig.close
  | .clone g g2 => cloneGraph g g2
  | .mergeNodes g nid g2 pol => mergeNodes g nid g2 pol
  | .getNodeProperties g nid => getNodeProperties g nid
  | .getLinkProperties g a b => getLinkProperties g a b
  | .listAllNodeIds g => listAllNodeIds g
  | .nodesByClass g label => nodesByClass g label
  | .nodesByClassAndType g label ntype => nodesByClassAndType g label ntype
  | .nodeExists g nid label => nodeExists g nid label
  | .graphExists g => graphExists g
  | .checkNodeUnique g label name => checkNodeUnique g label name
  | .findMatchingNodes g other => findMatchingNodes g other
  | .delAllGraphs => delAllGraphs

def run (ops : List Op) (s : Store) : Store := ops.foldl (fun s o => (step o s).2) s

/-- every import hands over a well-formed graph (the drivers refuse anything else as `bad-args`; the
    theorems do not need it: `step` closes the graph first) -/
def Op.WF : Op → Bool
  | .addGraph _ ig => ig.WF
  | .addGraphDirect _ ig => ig.WF
  | _ => true

/-- the graph an operation is addressed to (for `clone`: the new id) -/
def Op.target : Op → String
  | .addNode g .. | .deleteNode g .. | .addLink g .. | .updateNodeProperty g .. | .unsetNodeProperty g ..
  | .updateNodesProperty g .. | .updateNodeProperties g .. | .updateLinkProperty g .. | .unsetLinkProperty g ..
  | .updateLinkProperties g .. | .deleteGraph g | .addGraph g _ | .addGraphDirect g _ | .mergeNodes g ..
  | .getNodeProperties g .. | .getLinkProperties g .. | .listAllNodeIds g | .nodesByClass g ..
  | .nodesByClassAndType g .. | .nodeExists g .. | .graphExists g | .checkNodeUnique g .. | .findMatchingNodes g .. => g
  | .clone _ g2 => g2
  | .delAllGraphs => ""          -- addressed to the store, not to a graph (`Op.affects` is true of every id)

/-- the operation does not re-home nodes by writing the `GraphID` property (C04's quantifier excludes
    that; C14 covers it), a direct import carries its own id on every node, and it is not a merge
    (which deliberately pulls a node and its edges out of the other graph) -/
def Op.keepsGraphId : Op → Bool
  | .addNode _ _ _ (some p) => !AMap.has graphId p
  | .updateNodeProperty _ _ k _ => k != graphId
  | .updateNodesProperty _ k _ => k != graphId
  | .updateNodeProperties _ _ p => !AMap.has graphId p
  | .addGraphDirect g ig => ig.nodes.all (fun a => AMap.get graphId a == some (.str g))
  | .mergeNodes .. => false
  | .delAllGraphs => false
  | _ => true

def Op.isDelAll : Op → Bool
  | .delAllGraphs => true
  | _ => false

/-- the last value `d.update(p)` leaves under `GraphID`, if `p` names it -/
def gidOf (p : Props) : Option Val := AMap.get graphId (AMap.update [] p)

/-- the `GraphID` values an operation may write onto stored nodes (besides its own target's id) -/
def Op.gidWrites : Op → List Val
  | .addNode _ _ _ (some p) => (gidOf p).toList
  | .updateNodeProperty _ _ k v => if k = graphId then [v] else []
  | .updateNodesProperty _ k v => if k = graphId then [v] else []
  | .updateNodeProperties _ _ p => (gidOf p).toList
  | .addGraphDirect _ ig => ig.nodes.filterMap (AMap.get graphId)
  | _ => []

/-- the graph ids whose content an operation may change: its target, the ids it re-homes nodes to by
    writing `GraphID`, the second graph of a merge, every id for `delete_all_graphs`.  (A merge policy that
    names `GraphID` with `overwrite` moves the surviving node to the *second* graph, already listed.) -/
def Op.affects (op : Op) (g' : String) : Bool :=
  g' == op.target || op.gidWrites.contains (.str g') ||
  (match op with | .mergeNodes _ _ g2 _ => g' == g2 | .delAllGraphs => true | _ => false)

end FimVerif.Store
