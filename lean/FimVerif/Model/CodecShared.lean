/-
The validator helper the typed-tuple classes share (one object per process, one type table per category).
`Codec.ttNew / ttOf` take the verdict on a type name as membership in the table of the tuple's OWN category; this file
models a validator that additionally remembers earlier verdicts, under a key computed from (category, name), and the
histories of lookups - in any categories, in any order - that one process makes.
-/
namespace FimVerif.CodecShared

variable {γ ν κ : Type} [DecidableEq ν] [DecidableEq κ]

/-- the pure verdict: membership in the category's own table (what `ttNew` / `ttOf` test) -/
def verdict (tbl : γ → List ν) (cat : γ) (t : ν) : Bool := decide (t ∈ tbl cat)

/-- one lookup of a validator that remembers verdicts under `key cat t`: the verdict and the memo afterwards -/
def lookup (key : γ → ν → κ) (tbl : γ → List ν) (memo : List (κ × Bool)) (cat : γ) (t : ν) : Bool × List (κ × Bool) :=
  match memo.find? (fun p => decide (p.1 = key cat t)) with
  | some p => (p.2, memo)
  | none => (verdict tbl cat t, (key cat t, verdict tbl cat t) :: memo)

/-- the verdicts of a whole history of lookups, starting from the memo `m` -/
def runLookups (key : γ → ν → κ) (tbl : γ → List ν) : List (κ × Bool) → List (γ × ν) → List Bool
  | _, [] => []
  | m, (c, t) :: qs => (lookup key tbl m c t).1 :: runLookups key tbl (lookup key tbl m c t).2 qs

/-- every remembered verdict is the pure verdict of every (category, name) filed under its key -/
def MemoOK (key : γ → ν → κ) (tbl : γ → List ν) (m : List (κ × Bool)) : Prop :=
  ∀ p ∈ m, ∀ c t, p.1 = key c t → p.2 = verdict tbl c t

theorem lookup_ok (key : γ → ν → κ) (tbl : γ → List ν)
    (hinj : ∀ c t c' t', key c t = key c' t' → c = c' ∧ t = t')
    (m : List (κ × Bool)) (hm : MemoOK key tbl m) (c : γ) (t : ν) :
    (lookup key tbl m c t).1 = verdict tbl c t ∧ MemoOK key tbl (lookup key tbl m c t).2 := by
  unfold lookup
  cases hf : m.find? (fun p => decide (p.1 = key c t)) with
  | some p =>
    have hp : p ∈ m := List.mem_of_find?_eq_some hf
    have hk : p.1 = key c t := by simpa using List.find?_some hf
    exact ⟨hm p hp c t hk, hm⟩
  | none =>
    refine ⟨rfl, ?_⟩
    intro p hp c' t' hk
    rcases List.mem_cons.mp hp with h | h
    · subst h
      obtain ⟨h1, h2⟩ := hinj c t c' t' hk
      subst h1; subst h2; rfl
    · exact hm p h c' t' hk

theorem runLookups_ok (key : γ → ν → κ) (tbl : γ → List ν)
    (hinj : ∀ c t c' t', key c t = key c' t' → c = c' ∧ t = t')
    (qs : List (γ × ν)) (m : List (κ × Bool)) (hm : MemoOK key tbl m) :
    runLookups key tbl m qs = qs.map (fun q => verdict tbl q.1 q.2) := by
  induction qs generalizing m with
  | nil => rfl
  | cons q qs ih =>
    obtain ⟨c, t⟩ := q
    have h := lookup_ok key tbl hinj m hm c t
    simp only [runLookups, List.map_cons, h.1, ih _ h.2]

end FimVerif.CodecShared
