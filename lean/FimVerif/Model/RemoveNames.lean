import FimVerif.Model.Remove
/-!
# Name lookups and the collection phase of `prune` (C08)

The user-level removal calls take *names*; `ExperimentTopology.prune` first collects the marked elements by walking
`nodes → components → their services → interfaces`, then the remaining services, and prunes nodes and components *by name*.
This file mirrors that part: the `Name` property and the reservation mark of every element are given by a `Dir`
(names are codes: equal codes = equal strings), the lookups are the ones of `fim/graph/slices/abc_asm.py`,
`networkx_asm.py` and the name-keyed dictionaries of `fim/user/topology.py` / `node.py`.  No Mathlib.

* `NetworkxASM.find_node_by_name(name, label)`                          → `findByName` (none or several matches raise)
* `find_component_by_name / find_ns_by_name / find_child_connection_point_by_name` → `findChild` (first neighbour with the name)
* `ret = dict(); for x in ids: ret[x.name] = x` … `.values()` / `[name]`  → `dictVals` / `dictGet` (first position, last value)
* `Topology.nodes` (facilities excluded) / `Topology.facilities`        → `topoNodes` / `topoFacilities`
* `Node.interface_list` (components by id since /repo 4a83e34; through the name-keyed dictionary before) → `ifaceListNodeD`
* `Topology.remove_node/remove_facility/remove_switch/remove_link/remove_network_service(name)`,
  `Node.remove_component/remove_network_service(name)`, `Interface.remove_child_interface(name=)`,
  `NetworkService.remove_interface(name=)` → `…ByName`
* `ExperimentTopology.prune(state)` → `pruneCollect`, `pruneApi`
-/
namespace FimVerif.Remove

structure Dir where
  names : List (Nat × Nat)
  marked : List Nat
  deriving Repr

def Dir.nameOf (d : Dir) (x : Nat) : Option Nat := (d.names.find? (fun p => p.1 == x)).map (·.2)
def Dir.isMarked (d : Dir) (x : Nat) : Bool := d.marked.contains x

/-- `find_node_by_name(node_name, label)` -/
def findByName (g : G) (d : Dir) (c : Cls) (name : Nat) : Except Err Nat :=
  match g.nodes.filter (fun e => e.cls == c && d.nameOf e.id == some name) with
  | [e] => .ok e.id
  | _ => .error .query

/-- `find_component_by_name` etc.: the first neighbour of the class that carries the name -/
def findChild (g : G) (d : Dir) (parent : Nat) (r : Rel) (c : Cls) (name : Nat) : Except Err Nat :=
  match (g.nbrs parent r c).find? (fun y => d.nameOf y == some name) with
  | some y => .ok y
  | none => .error .query

/-- `dict[name]` of a dictionary filled by `for x in xs: ret[x.name] = x`: the last element with the name -/
def dictGet (d : Dir) (xs : List Nat) (name : Option Nat) : Option Nat := xs.reverse.find? (fun y => d.nameOf y == name)

/-- the elements that introduce a new key -/
def firstsBy (d : Dir) : List Nat → List (Option Nat) → List Nat
  | [], _ => []
  | x :: rest, seen =>
    if seen.contains (d.nameOf x) then firstsBy d rest seen else x :: firstsBy d rest (d.nameOf x :: seen)

/-- `.values()` of that dictionary: one entry per name, at the position of its first element, holding its last element -/
def dictVals (d : Dir) (xs : List Nat) : List Nat := (firstsBy d xs []).filterMap (fun x => dictGet d xs (d.nameOf x))

/-- the NetworkNode elements in graph order, facilities excluded / facilities only -/
def nonFacNodes (g : G) : List Nat := (g.nodes.filter (fun e => e.cls == .node && e.kind != kFacility)).map (·.id)
def facNodes (g : G) : List Nat := (g.nodes.filter (fun e => e.cls == .node && e.kind == kFacility)).map (·.id)
def allNss (g : G) : List Nat := (g.nodes.filter (fun e => e.cls == .ns)).map (·.id)

/-- `Topology.nodes.values()` / `Topology.network_services.values()` -/
def topoNodes (g : G) (d : Dir) : List Nat := dictVals d (nonFacNodes g)
def topoNss (g : G) (d : Dir) : List Nat := dictVals d (allNss g)

/-- `Node.components.values()`, `Component.network_services.values()` -/
def compsOf (g : G) (d : Dir) (n : Nat) : List Nat := dictVals d (g.nbrs n .has .comp)
def nssOf (g : G) (d : Dir) (p : Nat) : List Nat := dictVals d (g.nbrs p .has .ns)

/-- `Node.interface_list`: the direct interfaces, then those of every component of the node, reached by id
(`get_all_network_node_components`; before /repo fix 4a83e34 through `self.components.values()`, which holds one of two
components of the same name: `(compsOf g d n).flatMap …`).  `d` is kept for the callers. -/
def ifaceListNodeD (g : G) (_d : Dir) (n : Nat) : List Nat :=
  directIfs g n ++ (g.nbrs n .has .comp).flatMap (fun c => directIfs g c)

/-- `Topology.remove_node(name)` -/
def removeNodeByName (g : G) (d : Dir) (name : Nat) : Except Err G :=
  match dictGet d (nonFacNodes g) (some name) with
  | none => .error .topology
  | some n => do
    let g1 ← disconnectDeep g (ifaceListNodeD g d n)
    let x ← findByName g1 d .node name
    removeNodeG g1 x

/-- `Topology.remove_facility(name=)` (`self.facilities[name]` cannot miss once the type test has passed) -/
def removeFacilityByName (g : G) (d : Dir) (name : Nat) : Except Err G := do
  let fac ← findByName g d .node name
  if g.kind? fac != some kFacility then .error .topology else
    match dictGet d (facNodes g) (some name) with
    | none => .error .query
    | some n => do
      let g1 ← disconnectDeep g (ifaceListNodeD g d n)
      let x ← findByName g1 d .node name
      removeNodeG g1 x

/-- `Topology.remove_switch(name=)` -/
def removeSwitchByName (g : G) (d : Dir) (name : Nat) : Except Err G := do
  let sw ← findByName g d .node name
  if g.kind? sw != some kSwitch then .error .topology else removeNodeByName g d name

/-- `Topology.remove_link(name)` -/
def removeLinkByName (g : G) (d : Dir) (name : Nat) : Except Err G := do
  let l ← findByName g d .link name
  removeLinkApi g l

/-- `Topology.remove_network_service(name)` -/
def removeNsByName (g : G) (d : Dir) (name : Nat) : Except Err G := do
  let s ← findByName g d .ns name
  removeNsApi g s

/-- `Node.remove_component(name)` through the node handle `n`: the id comes from `find_component_by_name` (first match),
and the interfaces to disconnect are those of a handle made for that id (since /repo fix 4a83e34; before, those of
`self.components[name]` - dictionary: last match - so that with two components of one name one was disconnected and the
other removed) -/
def nodeRemoveComponent (g : G) (d : Dir) (n : Nat) (name : Nat) : Except Err G := do
  if g.cls? n != some .node then .error .query else
  let c ← findChild g d n .has .comp name
  let g1 ← disconnectDeep g (ifaceListComp g c)
  removeComp g1 c

/-- `Node.remove_network_service(name)` through the node handle `n` -/
def nodeRemoveNs (g : G) (d : Dir) (n : Nat) (name : Nat) : Except Err G := do
  if g.cls? n != some .node && g.cls? n != some .comp then .error .query else
  let s ← findChild g d n .has .ns name
  let g1 ← disconnectDeep g (g.nbrs s .connects .cp)
  removeNs g1 s

/-- `Interface.remove_child_interface(name=)` through the parent handle -/
def removeChildByName (g : G) (d : Dir) (h : List IfH) (p : Nat) (name : Nat) : Except Err (G × List IfH) :=
  if g.kind? p == some kDedicatedPort then do
    let c ← findChild g d p .connects .cp name
    let g1 ← disconnectDeep g [c]
    (removeCp g1 c false).map (fun g' => (g', hDrop h c))
  else .error .assertion

/-- `NetworkService.remove_interface(name=)` (substrate topologies; after the repair 200038a the handle is pruned) -/
def removeInterface (g : G) (h : List IfH) (i : Nat) : Except Err (G × List IfH) :=
  (removeCp g i true).map (fun g' => (g', hDrop h i))

/-- by name through the service handle `s`: `find_connection_point_by_name(parent_node_id=self.node_id, iname=name)` -/
def removeInterfaceByName (g : G) (d : Dir) (h : List IfH) (s : Nat) (name : Nat) : Except Err (G × List IfH) :=
  if g.cls? s != some .ns && g.cls? s != some .link then .error .query else do
    let i ← findChild g d s .connects .cp name
    removeInterface g h i

/-- a Python `set.add`: keep the first occurrence -/
def addSet (s : List Nat) (x : Nat) : List Nat := if s.contains x then s else s ++ [x]

/-- what the collection phase of `prune` gathers -/
structure Marked where
  nodes : List Nat := []
  comps : List (Nat × Nat) := []      -- (component, parent node)
  nss : List Nat := []
  seen : List Nat := []
  ifs : List Nat := []
  deriving Repr

/-- `for i in ns.interface_list: if marked(i): interfaces.add(i)` -/
def collectIfs (g : G) (d : Dir) (m : Marked) (s : Nat) : Marked :=
  (g.nbrs s .connects .cp).foldl (fun m i => if d.isMarked i then { m with ifs := addSet m.ifs i } else m) m

/-- the services of one component -/
def collectComp (g : G) (d : Dir) (m : Marked) (c : Nat) : Marked :=
  (nssOf g d c).foldl (fun m s =>
    let m := { m with seen := addSet m.seen s }
    let m := if d.isMarked s then { m with nss := addSet m.nss s } else m
    collectIfs g d m s) m

/-- one node of `self.nodes.values()` -/
def collectNode (g : G) (d : Dir) (m : Marked) (n : Nat) : Marked :=
  let m := if d.isMarked n then { m with nodes := addSet m.nodes n } else m
  (compsOf g d n).foldl (fun m c =>
    let m := if d.isMarked c then { m with comps := if m.comps.contains (c, n) then m.comps else m.comps ++ [(c, n)] } else m
    collectComp g d m c) m

/-- **collection phase of `ExperimentTopology.prune`** -/
def pruneCollect (g : G) (d : Dir) : Marked :=
  let m := (topoNodes g d).foldl (collectNode g d) {}
  (topoNss g d).foldl (fun m s =>
    if m.seen.contains s then m else
      let m := if d.isMarked s then { m with nss := addSet m.nss s } else m
      collectIfs g d m s) m

/-- **`ExperimentTopology.prune(state)`**: collection, then `_prune_node` (by name), `_prune_components` (by name through the
parent), `_prune_ns`, `_prune_interface` (by id), the last three guarded by `still_present` -/
def pruneApi (g : G) (d : Dir) : Except Err G := do
  let m := pruneCollect g d
  let g1 ← m.nodes.foldlM (fun g n => removeNodeByName g d ((d.nameOf n).getD 0)) g
  let g2 ← m.comps.foldlM (fun g cn => if g.has cn.1 then nodeRemoveComponent g d cn.2 ((d.nameOf cn.1).getD 0) else .ok g) g1
  let g3 ← m.nss.foldlM (fun g s => if g.has s then removeNsApi g s else .ok g) g2
  m.ifs.foldlM (fun g i => if g.has i then (disconnectDeep g [i]).bind (fun g1 => removeCp g1 i true) else .ok g) g3

end FimVerif.Remove
