import FimVerif.Model.Codec
/-! In-place operations of the C03 value objects and what they leave behind when they RAISE.

`Model/Codec.lean` gives every operation as a function `state → Except Err state`.  A Python method called on an
existing object either returns (new state) or raises, and then the object is in *some* state: the one the method
had reached when it raised.  This file models that state for the operations that work on an existing object:

* `TypedTuple.parse_from_string` validates the type BEFORE it assigns `self.type, self.val`: a rejected call leaves
  the tuple as it was (`ttStep`; the order of validation and assignment is what seeded C03-r4-3 swapped);
* `PathInfo.set` / `ERO.set` assert the payload's kind before assigning it (`piSet`);
* `MaintenanceInfo.add / rem / pop` check the lock / the key before touching `_nodes` (`miStep`);
* `JSONField._set_fields(**kw)` checks and assigns keyword by keyword: a rejected call keeps the keywords BEFORE the
  rejected one (`setFieldsIP`, the code as it is: known finding `C03:JSONField:failed-call:_set_fields:earlier-keywords-kept`).
  The public paths (`Cls(**kw)`, `update`, `from_json`) run it on a fresh instance, so no existing value is affected.

The correspondence drives these through `tt.seq` / `jf.seq` / `pi.seq` / `mi.run` lines: every reply carries the state
after the step, for rejected steps too.  No Mathlib. -/
namespace FimVerif.Codec

/-- a method that validates first and assigns last: raises ⇒ the object is as it was -/
def inPlace {σ : Type} (f : σ → Except Err σ) (x : σ) : σ × Option Err :=
  match f x with
  | .ok y => (y, none)
  | .error e => (x, some e)

/-! ## TypedTuple -/

/-- one `parse_from_string(s)` call on the tuple `t`: the tuple afterwards and the exception, if any -/
def ttStep (types : List (List Char)) (t : TTuple) (s : List Char) : TTuple × Option Err :=
  inPlace (fun _ => ttParse types s) t

/-- any history of `parse_from_string` calls (accepted or rejected) on one tuple -/
def ttRun (types : List (List Char)) (t : TTuple) (ss : List (List Char)) : TTuple :=
  ss.foldl (fun t s => (ttStep types t s).1) t

/-! ## PathInfo / ERO -/

/-- `PathInfo.set(payload)`: `assert isinstance(payload, Path)` resp. `str` by the representation type, then assign.
(`type None` - only reachable through `from_json` of an unknown type name - compares unequal to `Path`: the `str` branch) -/
def piSet (p : PathInfo) (pl : Payload) : Except Err PathInfo :=
  if p.type = some .path then
    match pl with
    | .path _ _ => .ok { p with payload := pl }
    | _ => .error "assertion"
  else
    match pl with
    | .raw (.str _) => .ok { p with payload := pl }
    | _ => .error "assertion"

def piStep (p : PathInfo) (pl : Payload) : PathInfo × Option Err := inPlace (fun p => piSet p pl) p

def piRun (p : PathInfo) (pls : List Payload) : PathInfo := pls.foldl (fun p pl => (piStep p pl).1) p

/-! ## MaintenanceInfo -/

inductive MOp where
  | add (name : String) (e : MEntry)
  | rem (name : String)
  | pop (name : String)
  | finalize
  deriving Repr

def miApply (m : MInfo) : MOp → Except Err MInfo
  | .add n e => m.add n e
  | .rem n => m.rem n
  | .pop n => (m.pop n).map (·.2)
  | .finalize => .ok m.finalize

def miStep (m : MInfo) (op : MOp) : MInfo × Option Err := inPlace (fun m => miApply m op) m

def miRunOps (m : MInfo) (ops : List MOp) : MInfo := ops.foldl (fun m op => (miStep m op).1) m

/-! ## JSONField._set_fields on an existing instance -/

/-- `x._set_fields(forgiving, **kvs)` as a call on the existing instance `x`: the instance afterwards and the exception.
The loop checks a keyword and assigns it before it looks at the next one, so the keywords before a rejected one stay. -/
def setFieldsIP (c : ClassSpec) (valid : String → JVal → Bool) (forgiving : Bool) :
    List (String × JVal) → Fields → Fields × Option Err
  | [], x => (x, none)
  | (k, v) :: rest, x =>
    match guardCheck c.guard v with
    | .error e => (x, some e)
    | .ok () =>
      if (names c).contains k then
        if valid k v then setFieldsIP c valid forgiving rest (setF x k v) else (x, some "label")
      else if !c.strictFields && c.attrs.contains k then (x, some "unmodelled")
      else if forgiving then setFieldsIP c valid forgiving rest x
      else (x, some c.unknownErr)

/-- any history of `_set_fields` calls (accepted or rejected) on one instance -/
def setFieldsRun (c : ClassSpec) (valid : String → JVal → Bool) (x : Fields) (calls : List (List (String × JVal))) : Fields :=
  calls.foldl (fun x kvs => (setFieldsIP c valid false kvs x).1) x

end FimVerif.Codec
