import FimVerif.Model.Topo
/-!
# `set_property` / `set_properties` with the keywords `name` and `type` (C07)

`ModelElement.set_property` hands every keyword to the sliver and writes the sliver's graph properties back with
`update_node_properties` - `Name` and `Type` included.  `Topo.setProps` (shared with C09) models the keywords that become ordinary
properties; a request whose validated keywords contain `Name` or `Type` goes through `setPropsNT`, which also rewrites the
`name` / `typ` fields of the element, as the code does: no uniqueness guard, no look at what the element is connected to.
No Mathlib.
-/
namespace FimVerif.Topo
open FimVerif
open FimVerif.M (modify ofExcept)

def applyKw (m : GNode) (kw : Props) : GNode :=
  kw.foldl (fun m p => if p.1 == "Name" then { m with name := p.2 } else if p.1 == "Type" then { m with typ := p.2 }
    else { m with props := dictSet m.props p.1 p.2 }) m

def writesNameOrType (props : List PropArg) : Bool :=
  props.any (fun p => match p with | .ok k _ => k == "Name" || k == "Type" | .bad _ => false)

/-- `set_property` / `set_properties` whose keywords include `name` / `type` -/
def setPropsNT (nid : Nid) (props : List PropArg) : M Topo Unit := do
  let kw ← ofExcept (validateProps props)
  let n ← findNode nid
  modify (fun s => { s with nodes := s.nodes.map (fun m => if m.ref == n.ref then applyKw m (kw ++ [("StitchNode", "false")]) else m) })

end FimVerif.Topo
