/-!
M-Regex: the regular-expression subset used by fim's validators.

`Re` is an inductive over *character predicates* (`Char → Bool`, so that `\d`, `\w`, classes and `.`
are all just predicates and every proof is generic in them), `Re.L` is the denotational language,
`Re.matches` a Brzozowski-derivative matcher with simplifying constructors.  The correctness theorem
`matches_iff` lives in `Proofs/C16.lean` (lemmas in `Proofs/Lemmas/C16Regex.lean`).

Python's anchoring idioms (`Anchor`):
* `re.fullmatch(R, s)`                           accepts exactly `L(R)`
* `re.match('^'+R+'$', s)`, `compiled.match(s)`  with a trailing `$` accept `L(R) ∪ {w ++ "\n" | w ∈ L(R)}`
-/
namespace FimVerif.Regex

inductive Re where
  | empty : Re
  | eps : Re
  | chr (p : Char → Bool) : Re
  | cat (a b : Re) : Re
  | alt (a b : Re) : Re
  | star (a : Re) : Re
  | rep (a : Re) (lo hi : Nat) : Re

/-- `Pow P k` : concatenations of exactly `k` words of `P`. -/
def Pow (P : List Char → Prop) : Nat → List Char → Prop
  | 0, w => w = []
  | k + 1, w => ∃ u v, w = u ++ v ∧ P u ∧ Pow P k v

/-- Denotation. `star` is "some power", `rep a lo hi` is "a power between lo and hi". -/
def Re.L : Re → List Char → Prop
  | .empty, _ => False
  | .eps, w => w = []
  | .chr p, w => ∃ c, w = [c] ∧ p c = true
  | .cat a b, w => ∃ u v, w = u ++ v ∧ a.L u ∧ b.L v
  | .alt a b, w => a.L w ∨ b.L w
  | .star a, w => ∃ k, Pow a.L k w
  | .rep a lo hi, w => ∃ k, lo ≤ k ∧ k ≤ hi ∧ Pow a.L k w

def Re.nullable : Re → Bool
  | .empty => false
  | .eps => true
  | .chr _ => false
  | .cat a b => a.nullable && b.nullable
  | .alt a b => a.nullable || b.nullable
  | .star _ => true
  | .rep a lo hi => decide (lo ≤ hi) && (lo == 0 || a.nullable)

/-- Simplifying concatenation: dead and trivial left factors disappear (keeps derivatives small). -/
def mkCat : Re → Re → Re
  | .empty, _ => .empty
  | .eps, b => b
  | a, b => .cat a b

def mkAlt : Re → Re → Re
  | .empty, b => b
  | a, .empty => a
  | a, b => .alt a b

/-- Brzozowski derivative with respect to one character. -/
def Re.der (c : Char) : Re → Re
  | .empty => .empty
  | .eps => .empty
  | .chr p => if p c then .eps else .empty
  | .cat a b => if a.nullable then mkAlt (mkCat (a.der c) b) (b.der c) else mkCat (a.der c) b
  | .alt a b => mkAlt (a.der c) (b.der c)
  | .star a => mkCat (a.der c) (.star a)
  | .rep a lo hi => if hi = 0 then .empty else mkCat (a.der c) (.rep a (lo - 1) (hi - 1))

def Re.matches : Re → List Char → Bool
  | r, [] => r.nullable
  | r, c :: s => Re.matches (r.der c) s

/-- How the call site anchors the pattern. -/
inductive Anchor where
  | full       -- re.fullmatch(R, s) (with or without ^ / $ inside R's ends)
  | pyDollar   -- re.match('^'+R+'$', s) / compiled('^R$').match(s): `$` also matches before a final "\n"
  deriving DecidableEq, Repr

def endsNl (s : List Char) : Bool := s.getLast? == some '\n'

def accepts (a : Anchor) (r : Re) (s : List Char) : Bool :=
  match a with
  | .full => r.matches s
  | .pyDollar => r.matches s || (endsNl s && r.matches s.dropLast)

/-- membership in a sorted table of inclusive code-point ranges (early exit) -/
def inRanges : List (Nat × Nat) → Nat → Bool
  | [], _ => false
  | (lo, hi) :: t, c => if c < lo then false else if c ≤ hi then true else inRanges t c

/-! Range predicates (the `LAMBDA_VALIDATORS`) as data: a conjunction of comparisons, evaluated left to right. -/
inductive IntE where
  | lit (n : Int)                    -- integer constant
  | ofStr                            -- int(v)
  | ofPart (sep : Char) (i : Nat)    -- int(v.split(sep)[i])

inductive CmpOp where
  | le | lt

structure Cmp where
  l : IntE
  op : CmpOp
  r : IntE

end FimVerif.Regex
