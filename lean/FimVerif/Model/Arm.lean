import FimVerif.Generated.ArmCfg
/-!
# ARM → ADM partition (C13)

Executable model of `ABCARMPropertyGraph.generate_adms` (fim/graph/resources/abc_arm.py) and of
`ABCADMPropertyGraph.rewrite_delegations` (abc_adm.py) over a small abstract property graph.

* `G` — one graph: nodes keyed by `NodeID` with class, the two delegation properties decoded
  (`DelProp`) and all other properties as an association list; undirected edges with relation and
  properties. This is the documented content of one graph id (what `snapshot` in
  harness/lib_substrate.py reads back from the store).
* `firstSecond` — `NetworkXPropertyGraph.get_first_and_second_neighbor`, including the inert
  second-hop relation filter of the code as it is (`Cfg.dropsK = false`; the flag is extracted from
  the source on every run, so a repair of that filter switches the model with it).
* `linkClose` — the `while len(trace_cps) > 0` loop that follows links from connection point to connection point
  until nothing new turns up (`Cfg.linkRounds = none`; `some 1` is the single pass of the code before the repair).
* `keepSet`, `genAdm`, `generateAdms` — the partition for one delegation id / for all ids.
* `Store`, `generateAdmsS` — the same run written as the sequence of store operations the code
  performs (clone under the new graph id, rewrite, queries on `self`, deletes), so that
  "the ARM is untouched" and "the result is `genAdm`" are theorems rather than the shape of the model.
* `rekey` — `rewrite_delegations`; `rekeyS` — the same on one graph of the store.

No Mathlib. The trace tables and the number of passes (`Cfg.linkTraces`, `Cfg.linkRounds`, `Cfg.ownerTraces`) come from
`Generated/ArmCfg.lean` (gen/armcfg.py: behavioural probing of the code).
-/
namespace FimVerif.Arm

abbrev Props := List (String × String)

/-- A `LabelDelegations` / `CapacityDelegations` property of a node. -/
inductive DelProp where
  /-- the property is not present -/
  | absent
  /-- present with the value `'None'` (`NEO4j_NONE`): `get_delegations` returns `None` -/
  | blank
  /-- a JSON object: delegation id ↦ entry (the entry is opaque text) -/
  | dels (es : List (String × String))
  deriving DecidableEq, Repr, Inhabited

namespace DelProp

def entries : DelProp → List (String × String)
  | dels es => es
  | _ => []

def isDels : DelProp → Bool
  | dels _ => true
  | _ => false

def keys (p : DelProp) : List String := p.entries.map (·.1)

/-- the entry for delegation id `d` -/
def get (p : DelProp) (d : String) : Option String :=
  (p.entries.find? (fun e => e.1 == d)).map (·.2)

/-- `Delegations.return_delegations_for_id(d)` written back by `_update_delegations_on_node`:
one entry, or the property unset (only when present — the guard of the repaired code; unsetting an
absent property leaves it absent either way). -/
def restrict (p : DelProp) (d : String) : DelProp :=
  match p.entries.find? (fun e => e.1 == d) with
  | some e => dels [e]
  | none => absent

end DelProp

structure Node where
  id : String
  cls : String
  /-- every property except Class, NodeID, GraphID and the two delegation properties -/
  props : Props
  ldel : DelProp
  cdel : DelProp
  deriving DecidableEq, Repr, Inhabited

structure Edge where
  a : String
  b : String
  rel : String
  props : Props
  deriving DecidableEq, Repr, Inhabited

structure G where
  nodes : List Node
  edges : List Edge
  deriving DecidableEq, Repr, Inhabited

structure Trace where
  rel1 : String
  l1 : String
  rel2 : String
  l2 : String
  deriving DecidableEq, Repr

structure Cfg where
  /-- the second-hop relation filter appends `k` (true: it filters) or `n` (false: inert) -/
  dropsK : Bool
  cpClass : String
  linkTraces : List Trace
  /-- how often the link traces are repeated from the connection points they find: `none` = until no new connection
  point turns up (the `while len(trace_cps) > 0` loop of the repaired code), `some k` = exactly `k` rounds (the code
  before the repair: one round) -/
  linkRounds : Option Nat
  ownerTraces : List Trace
  stitchProp : String
  stitchTrue : String
  deriving Repr

namespace G

def ids (g : G) : List String := g.nodes.map (·.id)

/-- class of the node with this id (`_find_node` + `Class`) -/
def clsOf (g : G) (x : String) : Option String :=
  (g.nodes.find? (fun n => n.id == x)).map (·.cls)

def hasCls (g : G) (x c : String) : Bool := g.clsOf x == some c

/-- `(neighbour id, relation of the edge)` for every edge at `x` -/
def nbrs (g : G) (x : String) : List (String × String) :=
  g.edges.filterMap fun e =>
    if e.a = x then some (e.b, e.rel) else if e.b = x then some (e.a, e.rel) else none

end G

/-- first neighbours of `x` over `rel1` with label `l1` -/
def firstHop (g : G) (x : String) (t : Trace) : List String :=
  (((g.nbrs x).filter (fun p => p.2 == t.rel1)).map (·.1)).filter (fun n => g.hasCls n t.l1)

/-- the second-hop drop list for first neighbour `n`: with `append(k)` the neighbours over another relation,
with `append(n)` (the code as it is) `n` itself, which is never its own neighbour in a loop-free graph -/
def dropList (dropsK : Bool) (g : G) (n : String) (t : Trace) : List String :=
  if dropsK then ((g.nbrs n).filter (fun p => p.2 != t.rel2)).map (·.1)
  else if (g.nbrs n).any (fun p => p.2 != t.rel2) then [n] else []

/-- second neighbours through first neighbour `n`: not dropped, label `l2`, not `x` itself -/
def secondHop (dropsK : Bool) (g : G) (x n : String) (t : Trace) : List String :=
  ((((g.nbrs n).map (·.1)).filter (fun k => !(dropList dropsK g n t).contains k)).filter
    (fun k => g.hasCls k t.l2)).filter (fun k => k != x)

/-- `get_first_and_second_neighbor(node_id=x, rel1, node1_label, rel2, node2_label)`:
list of `[first, second]`. -/
def firstSecond (dropsK : Bool) (g : G) (x : String) (t : Trace) : List (String × String) :=
  (firstHop g x t).flatMap fun n => (secondHop dropsK g x n t).map fun k => (n, k)

def Node.holds (n : Node) (d : String) : Bool :=
  n.ldel.keys.contains d || n.cdel.keys.contains d

def Node.isStitch (cfg : Cfg) (n : Node) : Bool :=
  n.props.lookup cfg.stitchProp == some cfg.stitchTrue

/-- `keep_node_sets[d]` of `catalog_delegations` -/
def holders (g : G) (d : String) : List String := (g.nodes.filter (·.holds d)).map (·.id)

/-- `get_stitch_nodes()` -/
def stitchNodes (cfg : Cfg) (g : G) : List String := (g.nodes.filter (·.isStitch cfg)).map (·.id)

/-- `unique_delegation_ids` (first-occurrence order; the code holds a set) -/
def delIds (g : G) : List String :=
  (g.nodes.flatMap fun n => n.ldel.keys ++ n.cdel.keys).eraseDups

def pairIds (ps : List (String × String)) : List String := ps.flatMap fun p => [p.1, p.2]

/-- the definite keep nodes: holders of `d` and all stitch nodes -/
def keep0 (cfg : Cfg) (g : G) (d : String) : List String := holders g d ++ stitchNodes cfg g

/-- connection points among the definite keep nodes -/
def keepCps (cfg : Cfg) (g : G) (d : String) : List String :=
  (keep0 cfg g d).filter (fun x => g.hasCls x cfg.cpClass)

/-- the pairs the link traces find from the connection points `front` (one pass of `for cp in trace_cps`) -/
def linkStep (cfg : Cfg) (g : G) (front : List String) : List (String × String) :=
  front.flatMap fun c => cfg.linkTraces.flatMap fun t => firstSecond cfg.dropsK g c t

/-- the pairs the owner traces find from the connection points `cps` (the second `for cp in keep_cps` loop) -/
def ownerStep (cfg : Cfg) (g : G) (cps : List String) : List (String × String) :=
  cps.flatMap fun c => cfg.ownerTraces.flatMap fun t => firstSecond cfg.dropsK g c t

/-- `found_cps.difference(keep_cps, new_cps)`: the second elements of the pairs found from `front` that are not in `seen` -/
def newCps (cfg : Cfg) (g : G) (seen front : List String) : List String :=
  (((linkStep cfg g front).map (·.2)).eraseDups).filter (fun c => !seen.contains c)

/-- the loop `while len(trace_cps) > 0`: `seen` = `keep_cps ∪ new_cps`, `front` = `trace_cps` (the connection points
whose links have not been traced yet), `acc` = the pairs found so far. One unit of fuel per pass. Returns
(all pairs, `keep_cps` after `keep_cps.update(new_cps)`). Running out of fuel with an empty `front` gives the same
result as the regular exit; `linkClose_closed` (Proofs/Lemmas/C13Closure.lean) shows that `number of nodes + 1`
passes always reach the regular exit. -/
def linkClose (cfg : Cfg) (g : G) :
    Nat → List String → List String → List (String × String) → List (String × String) × List String
  | 0, seen, _, acc => (acc, seen)
  | fuel + 1, seen, front, acc =>
    if front.isEmpty then (acc, seen)
    else linkClose cfg g fuel (seen ++ newCps cfg g seen front) (newCps cfg g seen front) (acc ++ linkStep cfg g front)

/-- passes allowed: as configured, or (until a fixed point) one more than there are nodes -/
def linkFuel (cfg : Cfg) (g : G) : Nat :=
  match cfg.linkRounds with
  | some k => k
  | none => g.nodes.length + 1

/-- the keep-set computation of one iteration as a function of the graph the queries run on (`self`)
and the definite keep nodes -/
def keepOn (cfg : Cfg) (self : G) (k0 : List String) : List String :=
  let cps := k0.filter (fun x => self.hasCls x cfg.cpClass)
  let lc := linkClose cfg self (linkFuel cfg self) cps cps []
  k0 ++ pairIds lc.1 ++ pairIds (ownerStep cfg self lc.2)

/-- the link loop started from the connection points among the definite keep nodes -/
def linkRun (cfg : Cfg) (g : G) (d : String) : List (String × String) × List String :=
  linkClose cfg g (linkFuel cfg g) (keepCps cfg g d) (keepCps cfg g d) []

/-- pairs found by the link traces (cp —rel1→ l1 —rel2→ l2) -/
def linkPairs (cfg : Cfg) (g : G) (d : String) : List (String × String) := (linkRun cfg g d).1

/-- `keep_cps` after `keep_cps.update(new_cps)` -/
def keepCps2 (cfg : Cfg) (g : G) (d : String) : List String := (linkRun cfg g d).2

def ownerPairs (cfg : Cfg) (g : G) (d : String) : List (String × String) :=
  ownerStep cfg g (keepCps2 cfg g d)

/-- `delegations_info[d].keep_nodes` at the end of the iteration -/
def keepSet (cfg : Cfg) (g : G) (d : String) : List String :=
  keep0 cfg g d ++ pairIds (linkPairs cfg g d) ++ pairIds (ownerPairs cfg g d)

/-- a node is in `delegations_by_node` iff one of its delegation properties decodes to an object -/
def Node.catalogued (n : Node) : Bool := n.ldel.isDels || n.cdel.isDels

/-- the per-id rewrite of both delegation properties (only on catalogued nodes) -/
def Node.rewrite (n : Node) (d : String) : Node :=
  if n.catalogued then { n with ldel := n.ldel.restrict d, cdel := n.cdel.restrict d } else n

/-- the ADM for delegation id `d`: clone, rewrite, delete everything outside the keep set -/
def genAdm (cfg : Cfg) (g : G) (d : String) : G :=
  let keep := keepSet cfg g d
  { nodes := (g.nodes.filter (fun n => decide (n.id ∈ keep))).map (·.rewrite d)
    edges := g.edges.filter (fun e => decide (e.a ∈ keep) && decide (e.b ∈ keep)) }

/-- `generate_adms()`; `none` = the query exception for a graph without nodes -/
def generateAdms (cfg : Cfg) (g : G) : Option (List (String × G)) :=
  if g.nodes.isEmpty then none else some ((delIds g).map fun d => (d, genAdm cfg g d))

/-! ## The same run as store operations -/

/-- graph id ↦ graph (the abstract content of the store) -/
abbrev Store := List (String × G)

namespace Store

def get (s : Store) (x : String) : Option G := List.lookup x s

/-- `add_graph(x, g)`: replaces an existing graph of that id -/
def set (s : Store) (x : String) (g : G) : Store := (x, g) :: s.filter (fun p => p.1 != x)

def modify (s : Store) (x : String) (f : G → G) : Store :=
  match s.get x with
  | some g => s.set x (f g)
  | none => s

end Store

/-- `delete_node`: the node and its incident edges -/
def G.deleteNode (g : G) (x : String) : G :=
  { nodes := g.nodes.filter (fun n => n.id != x), edges := g.edges.filter (fun e => e.a != x && e.b != x) }

/-- write the catalogued (original) delegations of node `n0`, restricted to `d`, onto the node of the same id -/
def G.rewriteNode (g : G) (n0 : Node) (d : String) : G :=
  { g with nodes := g.nodes.map fun n =>
      if n.id = n0.id then { n with ldel := n0.ldel.restrict d, cdel := n0.cdel.restrict d } else n }

/-- rewrite the delegations of every catalogued node (of the ARM as read at the start) on graph `x` -/
def rewriteAll (g0 : G) (d x : String) (s : Store) : Store :=
  (g0.nodes.filter (·.catalogued)).foldl (fun s n0 => s.modify x (fun h => h.rewriteNode n0 d)) s

/-- delete from graph `x` every node id of the ARM that is not in `keep` -/
def deleteAll (g0 : G) (keep : List String) (x : String) (s : Store) : Store :=
  (g0.ids.filter (fun y => !decide (y ∈ keep))).foldl (fun s y => s.modify x (fun h => h.deleteNode y)) s

/-- one iteration of the `for del_id in unique_delegation_ids` loop. `g0` is the ARM as read before the loop
(`node_ids`, stitch nodes, catalogue); `self` is re-read from the store for the clone and the neighbour queries. -/
def stepS (cfg : Cfg) (arm : String) (g0 : G) (gid : String → String) (s : Store) (d : String) : Store :=
  match s.get arm with
  | none => s
  | some self0 =>
    -- clone_graph(new_graph_id), then the per-node rewrite on the clone
    let s2 := rewriteAll g0 d (gid d) (s.set (gid d) self0)
    -- queries on self (as it is now)
    let self1 := (s2.get arm).getD self0
    let keep := keepOn cfg self1 (holders g0 d ++ stitchNodes cfg g0)
    deleteAll g0 keep (gid d) s2

/-- `generate_adms(delegation_guids)` on the store: the final store and the `(delegation id, graph id)` list.
`none` when the ARM has no nodes. -/
def generateAdmsS (cfg : Cfg) (s : Store) (arm : String) (gid : String → String) :
    Option (List (String × String) × Store) :=
  match s.get arm with
  | none => none
  | some g0 =>
    if g0.nodes.isEmpty then none
    else
      let ids := delIds g0
      some (ids.map (fun d => (d, gid d)), ids.foldl (stepS cfg arm g0 gid) s)

/-! ## `rewrite_delegations` -/

/-- one delegation property: exactly one entry ⇒ its key becomes `x`; not an object ⇒ untouched;
otherwise the query exception -/
def rekeyProp (p : DelProp) (x : String) : Option DelProp :=
  match p with
  | .dels [e] => some (.dels [(x, e.2)])
  | .dels _ => none
  | q => some q

def Node.rekey (n : Node) (x : String) : Option Node :=
  match rekeyProp n.ldel x, rekeyProp n.cdel x with
  | some l, some c => some { n with ldel := l, cdel := c }
  | _, _ => none

/-- nodes are rewritten in order; the first failing node raises and leaves the earlier ones rewritten.
Returns (raised?, graph). -/
def rekeyNodes (x : String) : List Node → Bool × List Node
  | [] => (false, [])
  | n :: rest =>
    match n.rekey x with
    | none => (true, n :: rest)
    | some n' => let r := rekeyNodes x rest; (r.1, n' :: r.2)

def rekey (g : G) (x : String) : Bool × G :=
  let r := rekeyNodes x g.nodes
  (r.1, { g with nodes := r.2 })

/-- `rewrite_delegations(real_adm_id=new)` on the graph stored under `x` (`none`: no such graph - the node listing raises) -/
def rekeyS (s : Store) (x new : String) : Option (Bool × Store) :=
  match s.get x with
  | none => none
  | some g => let r := rekey g new; some (r.1, s.set x r.2)

/-! ## The configuration extracted from the source -/

def mkTrace (t : String × String × String × String) : Trace := ⟨t.1, t.2.1, t.2.2.1, t.2.2.2⟩

def genCfg : Cfg :=
  { dropsK := Gen.ArmCfg.secondHopDropsK
    cpClass := Gen.ArmCfg.cpClass
    linkTraces := Gen.ArmCfg.linkTraces.map mkTrace
    linkRounds := Gen.ArmCfg.linkRounds
    ownerTraces := Gen.ArmCfg.ownerTraces.map mkTrace
    stitchProp := Gen.ArmCfg.stitchProp
    stitchTrue := Gen.ArmCfg.stitchTrue }

end FimVerif.Arm
