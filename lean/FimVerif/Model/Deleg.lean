import FimVerif.Generated.DelegConsts
/-!
# Delegations and pools (C12) — model of `fim/slivers/delegations.py`

* `JVal` is what `json.loads` hands to the decoder and what `json.dumps` receives from the encoder
  (objects are insertion-ordered association lists, like Python dicts; JSON *text* is not modelled).
* Details (`Labels` / `Capacities`) are abstract: a type `D` with `DetailOps D` (`kindOf` = which of
  the two classes, `toDict` = `JSONField.to_dict`, `fromDict ty j` = `Capacities(**j)` / `Labels(**j)`).
  A concrete executable instance `Det` (used by the driver and by the non-vacuity examples) is at the end.
* `Delegation`, `Delegations`, `Pool`, `Pools` mirror the classes; every method that can raise returns
  `Except Err _` with the exception class as `Err`.  Python dicts are lists in insertion order, Python
  sets (`Pool.for_`) are duplicate-free lists (`addSet`), so any iteration order of a set is some list.

Key and sentinel strings come from `Generated/DelegConsts.lean` (regenerated every run).
Core only (no Mathlib).
-/
namespace FimVerif.Deleg
open FimVerif.Gen.DelegConsts

inductive JVal where
  | null
  | bool (b : Bool)
  | int (i : Int)
  | flt
  | str (s : String)
  | arr (l : List JVal)
  | obj (kv : List (String × JVal))

/-- exception classes -/
inductive Err where
  | assertion | delegation | pool | key | type | attribute | capacity | label | query | unmodelled
  deriving DecidableEq, Repr

inductive DType where
  | cap | lab
  deriving DecidableEq, Repr

inductive Fmt where
  | definition | reference | single
  deriving DecidableEq, Repr

/-- `dict.get(k)` / `k in d.keys()` / `d[k]` on an insertion-ordered dict -/
def lookup {α : Type} (k : String) : List (String × α) → Option α
  | [] => none
  | p :: m => if p.1 = k then some p.2 else lookup k m

structure DetailOps (D : Type) where
  kindOf : D → DType
  toDict : D → Option JVal
  fromDict : DType → JVal → Except Err D

/-- JSON key under which details of a delegations object of type `ty` are stored -/
def detailsKey : DType → String
  | .cap => fieldCapacities
  | .lab => fieldLabels

/-! ## Delegation / Delegations -/

structure Delegation (D : Type) where
  ty : DType
  id : String
  fmt : Fmt
  pool : Option String
  details : Option D
  deriving DecidableEq

structure Delegations (D : Type) where
  ty : DType
  /-- `self.delegations`: dict keyed by `delegation_id`, in insertion order -/
  items : List (Delegation D)
  deriving DecidableEq

variable {D : Type}

/-- `Delegation.__init__`: a pool definition / reference needs a pool name, and (repaired, /repo ac819ce) not the
name reserved for single-element delegations -/
def mkDelegation (ty : DType) (id : String) (fmt : Fmt) (pool : Option String) :
    Except Err (Delegation D) :=
  if fmt ≠ .single ∧ pool = none then .error .assertion
  else if fmt ≠ .single ∧ pool = some singlePoolName then .error .delegation
  else .ok { ty := ty, id := id, fmt := fmt, pool := pool, details := none }

/-- `Delegation.set_details` -/
def setDetails (ops : DetailOps D) (d : Delegation D) (x : D) : Except Err (Delegation D) :=
  if d.fmt = .reference then .error .delegation
  else if ops.kindOf x ≠ d.ty then .error .delegation
  else .ok { d with details := some x }

def hasId (items : List (Delegation D)) (id : String) : Bool := items.any (fun e => e.id = id)

/-- `Delegations.add_delegations(d)` for one argument -/
def addDelegation (ds : Delegations D) (d : Delegation D) : Except Err (Delegations D) :=
  if d.ty ≠ ds.ty then .error .assertion
  else if hasId ds.items d.id then .error .delegation
  else .ok { ds with items := ds.items ++ [d] }

/-- `Delegations.add_delegations(*args)`: ONE call with its whole argument list.  The loop checks and stores
argument by argument, so an argument is checked against the container *and* the earlier arguments of the
same call; when it raises, the earlier arguments of the rejected call stay in the container.  Returns the
container afterwards and the exception, if any. -/
def addDelegations (ds : Delegations D) : List (Delegation D) → Delegations D × Option Err
  | [] => (ds, none)
  | d :: rest =>
    match addDelegation ds d with
    | .error e => (ds, some e)
    | .ok ds' => addDelegations ds' rest

def detailsDict (ops : DetailOps D) (d : Delegation D) : Option JVal :=
  match d.details with
  | none => none
  | some x => ops.toDict x

/-- body of the loop of `Delegations.to_json`: the inner dictionary of one delegation -/
def encodeOne (ops : DetailOps D) (cty : DType) (d : Delegation D) : Except Err (String × JVal) :=
  match d.fmt with
  | .single =>
    match detailsDict ops d with
    | none => .error .assertion
    | some j => .ok (d.id, .obj [(fieldPoolId, .str singlePoolName), (detailsKey cty, j)])
  | .definition =>
    match d.pool with
    | none => .error .assertion
    | some p =>
      match detailsDict ops d with
      | none => .error .assertion
      | some j => .ok (d.id, .obj [(fieldPoolId, .str p), (detailsKey cty, j)])
  | .reference =>
    match d.pool with
    | none => .error .assertion
    | some p => .ok (d.id, .obj [(fieldPool, .str p)])

/-- `Delegations.to_json` up to `json.dumps` -/
def encode (ops : DetailOps D) (ds : Delegations D) : Except Err JVal :=
  (ds.items.mapM (encodeOne ops ds.ty)).map JVal.obj

/-- value of a `pool_id` / `pool` key as the decoder uses it (`none` = JSON null);
non-string, non-null pool names are outside the model -/
def poolOf : JVal → Except Err (Option String)
  | .str s => .ok (some s)
  | .null => .ok none
  | _ => .error .unmodelled

/-- body of the loop of `Delegations.from_json` -/
def decodeEntry (ops : DetailOps D) (ty : DType) (ds : Delegations D) (k : String) (v : JVal) :
    Except Err (Delegations D) :=
  match v with
  | .obj e =>
    match lookup fieldPoolId e with
    | some pv =>
      -- an entry mixing capacities and labels is rejected (repaired: the other type's content used to be dropped)
      if (lookup fieldCapacities e).isSome && (lookup fieldLabels e).isSome then .error .delegation
      else do
      let pool ← poolOf pv
      let (fmt, pool) := if pool = some singlePoolName then (Fmt.single, none) else (Fmt.definition, pool)
      match lookup (detailsKey ty) e with
      | none => .error .key
      | some dj => do
        let x ← ops.fromDict ty dj
        let d ← mkDelegation ty k fmt pool
        let d ← setDetails ops d x
        addDelegation ds d
    | none =>
      match lookup fieldPool e with
      | some pv =>
        -- a reference carrying details is rejected (repaired: they used to be dropped silently)
        if (lookup fieldCapacities e).isSome || (lookup fieldLabels e).isSome then .error .delegation
        else do
        let pool ← poolOf pv
        let d ← mkDelegation ty k .reference pool
        addDelegation ds d
      | none => .error .delegation
  | _ => .error .attribute

/-- `Delegations.from_json` after `json.loads` (the `None` / empty / `"None"` short cut returns `None`
before parsing and is not part of the model) -/
def decode (ops : DetailOps D) (ty : DType) (j : JVal) : Except Err (Delegations D) :=
  match j with
  | .obj kvs => kvs.foldlM (fun ds kv => decodeEntry ops ty ds kv.1 kv.2) { ty := ty, items := [] }
  | _ => .error .attribute

/-! ## Pool / Pools -/

/-- `set.add` on a duplicate-free list -/
def addSet (l : List String) (x : String) : List String := if x ∈ l then l else l ++ [x]

structure Pool (D : Type) where
  ty : DType
  pid : String
  deleg : Option String
  on_ : Option String
  for_ : List String
  details : Option D
  deriving DecidableEq

/-- `Pool.__init__(atype, pool_id, delegation_id, defined_on, defined_for)`:
`for_ = set(defined_for)` minus `defined_on` -/
def mkPool (ty : DType) (pid : String) (deleg on_ : Option String) (for_ : List String) : Pool D :=
  { ty := ty, pid := pid, deleg := deleg, on_ := on_,
    for_ := (for_.foldl addSet []).filter (fun n => some n ≠ on_), details := none }

/-- `Pool(...)` as a call: the reserved name is rejected (repaired, /repo ac819ce) -/
def newPool (ty : DType) (pid : String) (deleg on_ : Option String) (for_ : List String) : Except Err (Pool D) :=
  if pid = singlePoolName then .error .pool else .ok (mkPool ty pid deleg on_ for_)

/-- `Pool.set_defined_for(list)`: replaces the set (asserts a non-empty list; does not remove the defining node) -/
def setDefinedFor (p : Pool D) (l : List String) : Except Err (Pool D) :=
  if l = [] then .error .assertion else .ok { p with for_ := l.foldl addSet [] }

/-- `Pool.add_defined_for(str)` / `add_defined_for(list)` -/
def addDefinedFor (p : Pool D) (l : List String) : Pool D := { p with for_ := l.foldl addSet p.for_ }

structure Pools (D : Type) where
  ty : DType
  /-- `pool_by_id` in insertion order (key = `pid`) -/
  byId : List (Pool D)
  /-- `pools_by_delegation` (`None` until `build_index_by_delegation_id`); the pools are recorded by
  value: mutation of a pool after indexing is outside the model -/
  index : Option (List (String × List (Pool D)))

def emptyPools (ty : DType) : Pools D := { ty := ty, byId := [], index := none }

def getPool (l : List (Pool D)) (pid : String) : Option (Pool D) := l.find? (fun p => p.pid = pid)

/-- `pool_by_id[pid] = p` -/
def putPool (p : Pool D) : List (Pool D) → List (Pool D)
  | [] => [p]
  | q :: l => if q.pid = p.pid then p :: l else q :: putPool p l

/-- `Pools.add_pool` -/
def addPool (ps : Pools D) (p : Pool D) : Except Err (Pools D) :=
  if p.ty ≠ ps.ty then .error .pool
  else if p.pid = singlePoolName then .error .pool
  else .ok { ps with byId := putPool p ps.byId }

/-- `Pool.validate_pool` -/
def validatePool (p : Pool D) : Except Err Unit :=
  if p.deleg = none then .error .pool
  else if p.on_ = none then .error .pool
  else if p.for_ = [] then .error .pool
  else if p.details.isNone then .error .pool
  else .ok ()

/-- `el = idx.get(k, []); el.append(p); idx[k] = el` -/
def indexAdd (k : String) (p : Pool D) : List (String × List (Pool D)) → List (String × List (Pool D))
  | [] => [(k, [p])]
  | e :: l => if e.1 = k then (e.1, e.2 ++ [p]) :: l else e :: indexAdd k p l

/-- one iteration of `build_index_by_delegation_id`: validate, then file the pool under its delegation id -/
def indexStep (idx : List (String × List (Pool D))) (p : Pool D) : Except Err (List (String × List (Pool D))) := do
  validatePool p
  match p.deleg with
  | none => .error .pool
  | some k => pure (indexAdd k p idx)

/-- the loop of `build_index_by_delegation_id` with what it leaves behind when `validate_pool` raises -/
def indexGo (idx : List (String × List (Pool D))) : List (Pool D) → List (String × List (Pool D)) × Option Err
  | [] => (idx, none)
  | p :: l =>
    match indexStep idx p with
    | .error e => (idx, some e)
    | .ok idx' => indexGo idx' l

/-- `build_index_by_delegation_id` with the state it leaves behind: `pools_by_delegation` is reset to `{}` first
and filled pool by pool, so a failing `validate_pool` leaves the index built for the pools before it -/
def buildIndexS (ps : Pools D) : Pools D × Option Err :=
  let r := indexGo [] ps.byId
  ({ ps with index := some r.1 }, r.2)

/-- `Pools.build_index_by_delegation_id` -/
def buildIndex (ps : Pools D) : Except Err (Pools D) := do
  let idx ← ps.byId.foldlM indexStep []
  pure { ps with index := some idx }

abbrev NodeDelegs (D : Type) := List (String × Delegations D)

/-- `ds = ret.get(node); if ds is None: ret[node] = Delegations(...); ds.add_delegations(d)` -/
def addAt (ty : DType) (node : String) (d : Delegation D) : NodeDelegs D → Except Err (NodeDelegs D)
  | [] => do
    let ds ← addDelegation { ty := ty, items := [] } d
    pure [(node, ds)]
  | e :: l =>
    if e.1 = node then do
      let ds ← addDelegation e.2 d
      pure ((e.1, ds) :: l)
    else do
      let l' ← addAt ty node d l
      pure (e :: l')

/-- the body of the inner loop of `generate_delegations_by_node_id` for one pool -/
def genPool (ops : DetailOps D) (ty : DType) (did : String) (p : Pool D) (ret : NodeDelegs D) :
    Except Err (NodeDelegs D) := do
  let pd ← mkDelegation ty did .definition (some p.pid)
  let pd ← match p.details with
    | none => .error .assertion
    | some x => setDetails ops pd x
  match p.on_ with
  | none => .error .unmodelled
  | some node =>
    let ret ← addAt ty node pd ret
    p.for_.foldlM (fun ret n => do
      let pr ← mkDelegation ty did .reference (some p.pid)
      addAt ty n pr ret) ret

/-- `Pools.generate_delegations_by_node_id` -/
def generate (ops : DetailOps D) (ps : Pools D) : Except Err (NodeDelegs D) :=
  match ps.index with
  | none => .ok []
  | some idx =>
    idx.foldlM (fun ret e => e.2.foldlM (fun ret p => genPool ops ps.ty e.1 p ret) ret) []

/-- `get_pool_by_id(pool_id=pid)` (not strict): the registered pool, or a new one - which `Pool(...)` refuses for the
reserved name (`add_pool` of the new pool is the `putPool` of the caller: the pool is stored again right away) -/
def poolFor (ty : DType) (byId : List (Pool D)) (pid : String) : Except Err (Pool D) :=
  match getPool byId pid with
  | some p => .ok p
  | none => newPool ty pid none none []

/-- one iteration of the loop of `incorporate_delegation` -/
def incOne (ty : DType) (node : String) (byId : List (Pool D)) (d : Delegation D) :
    Except Err (List (Pool D)) :=
  match d.fmt with
  | .single => .ok byId
  | .definition =>
    match d.pool with
    | none => .error .assertion
    | some pid => do
      let p ← poolFor ty byId pid
      if p.on_.isSome then .error .pool
      else match d.details with
        | none => .error .assertion
        | some x => .ok (putPool { p with on_ := some node, details := some x, deleg := some d.id } byId)
  | .reference =>
    match d.pool with
    | none => .error .assertion
    | some pid => do
      let p ← poolFor ty byId pid
      .ok (putPool { p with for_ := addSet p.for_ node, deleg := some d.id } byId)

/-- `Pools.incorporate_delegation(node_id, deleg)` (on a `Pools` whose index has not been built) -/
def incorporate (ps : Pools D) (node : String) (ds : Delegations D) : Except Err (Pools D) :=
  if ds.ty ≠ ps.ty then .error .pool
  else do
    let l ← ds.items.foldlM (incOne ps.ty node) ps.byId
    pure { ps with byId := l }

/-- incorporate the delegations of several nodes, in the given order -/
def incorporateAll (ps : Pools D) (r : NodeDelegs D) : Except Err (Pools D) :=
  r.foldlM (fun ps e => incorporate ps e.1 e.2) ps

/-- `add_pool` for each pool of the family, then `build_index_by_delegation_id` -/
def buildPools (ty : DType) (family : List (Pool D)) : Except Err (Pools D) := do
  let ps ← family.foldlM addPool (emptyPools ty)
  buildIndex ps

/-- pools → per-node delegations → JSON → per-node delegations, node by node -/
def recode (ops : DetailOps D) (ty : DType) (r : NodeDelegs D) : Except Err (NodeDelegs D) :=
  r.mapM (fun e => do
    let j ← encode ops e.2
    let ds ← decode ops ty j
    pure (e.1, ds))

/-! ## Writing onto a model and reading back (`ABCARMPropertyGraph.annotate_delegations_and_pools`, `get_delegations`) -/

/-- `for node, ds in dels.items(): if delegations_per_node.get(node) is not None: raise PropertyGraphQueryException;
delegations_per_node[node] = ds` - a node cannot carry both pool entries and its own single-resource delegations -/
def mergeSingles (r : NodeDelegs D) : NodeDelegs D → Except Err (NodeDelegs D)
  | [] => .ok r
  | e :: rest => if (lookup e.1 r).isSome then .error .query else mergeSingles (r ++ [e]) rest

/-- `update_node_property(node, <delegations property>, ds.to_json())` -/
def writeNode (ops : DetailOps D) (e : String × Delegations D) : Except Err (String × JVal) := do
  let j ← encode ops e.2
  pure (e.1, j)

/-- `get_delegations(node, ty)`: `Delegations.from_json(<property text>, atype=ty)` -/
def readNode (ops : DetailOps D) (ty : DType) (e : String × JVal) : Except Err (String × Delegations D) := do
  let ds ← decode ops ty e.2
  pure (e.1, ds)

/-- what `annotate_delegations_and_pools(dels=dels, pools=ps)` writes with `update_node_property`: the type whose
delegations property is written (the *pools'* type) and, node by node in dictionary order, the JSON value of `to_json()` of
the node's `Delegations` (what is left written when a `to_json` raises half-way is not modelled) -/
def annotate (ops : DetailOps D) (ps : Pools D) (dels : NodeDelegs D) : Except Err (DType × List (String × JVal)) := do
  let r ← generate ops ps
  let r ← mergeSingles r dels
  let w ← r.mapM (writeNode ops)
  pure (ps.ty, w)

/-- `get_delegations(node_id, delegation_type=ty)` for every written node: `Delegations.from_json(text, atype=ty)` -/
def readAll (ops : DetailOps D) (ty : DType) (w : List (String × JVal)) : Except Err (NodeDelegs D) :=
  w.mapM (readNode ops ty)

/-! ## `SubstrateTopology.single_delegation` -/

/-- a model element (node, component, network service, interface) as `single_delegation` sees it -/
structure Elem (D : Type) where
  node : String
  /-- `e.get_property("stitch_node")` is truthy -/
  stitch : Bool
  caps : Option D
  labs : Option D

/-- `e.get_property(pname='capacities' | 'labels')` -/
def Elem.own (e : Elem D) : DType → Option D
  | .cap => e.caps
  | .lab => e.labs

/-- `__copy_to_delegations(e, atype, delegation_id)` -/
def copyToDelegations (ops : DetailOps D) (ty : DType) (did : String) (e : Elem D) : Except Err (Option (Delegations D)) :=
  if e.stitch then .ok none
  else match e.own ty with
    | none => .ok none
    | some x => do
      let d ← mkDelegation ty did .single none
      let d ← setDetails ops d x
      let ds ← addDelegation { ty := ty, items := [] } d
      pure (some ds)

/-- `d[node] = ds` on a dict keyed by node id -/
def setNode (n : String) (ds : Delegations D) : NodeDelegs D → NodeDelegs D
  | [] => [(n, ds)]
  | e :: l => if e.1 = n then (n, ds) :: l else e :: setNode n ds l

/-- the element loop of `single_delegation` for one delegation type (elements in traversal order) -/
def singlesStep (ops : DetailOps D) (ty : DType) (did : String) (acc : NodeDelegs D) (e : Elem D) : Except Err (NodeDelegs D) :=
  match copyToDelegations ops ty did e with
  | .error err => .error err
  | .ok none => .ok acc
  | .ok (some ds) => .ok (setNode e.node ds acc)

def singlesOf (ops : DetailOps D) (ty : DType) (did : String) (elems : List (Elem D)) : Except Err (NodeDelegs D) :=
  elems.foldlM (singlesStep ops ty did) []

/-- `single_delegation(delegation_id, label_pools, capacity_pools)`: for `t in DelegationType` (CAPACITY, then LABEL)
collect the elements' own capacities / labels and `annotate_delegations_and_pools(dels, pools[t])` -/
def singleDelegation (ops : DetailOps D) (did : String) (elems : List (Elem D)) (labPools capPools : Pools D) :
    Except Err (List (DType × List (String × JVal))) :=
  if labPools.ty ≠ .lab ∨ capPools.ty ≠ .cap then .error .assertion
  else do
    let dc ← singlesOf ops .cap did elems
    let wc ← annotate ops capPools dc
    let dl ← singlesOf ops .lab did elems
    let wl ← annotate ops labPools dl
    pure [wc, wl]

/-! ## A concrete details type: the instance `__dict__` of `Capacities` / `Labels` -/

inductive DVal where
  | none
  | int (i : Int)
  | bool (b : Bool)
  | str (s : String)
  | strs (l : List String)
  deriving DecidableEq, Repr

structure Det where
  kind : DType
  fields : List (String × DVal)
  deriving DecidableEq, Repr

def fieldsOf : DType → List String
  | .cap => capFields
  | .lab => labFields

def defaultDet (ty : DType) : Det :=
  { kind := ty, fields := (fieldsOf ty).map (fun f => (f, match ty with | .cap => DVal.int 0 | .lab => DVal.none)) }

def setField (d : Det) (k : String) (v : DVal) : Det :=
  { d with fields := d.fields.map (fun p => if p.1 = k then (p.1, v) else p) }

def allStrs : List JVal → Option (List String)
  | [] => some []
  | .str s :: l => (allStrs l).map (s :: ·)
  | _ :: _ => none

/-- one keyword argument of `Capacities(**kw)` / `Labels(**kw)` (`_set_fields`, not forgiving).
Label *value* validators (regex / range) are not modelled here (they are C16's subject): the harness
supplies only values the validators accept. -/
def detStep (d : Det) (kv : String × JVal) : Except Err Det :=
  let known := kv.1 ∈ fieldsOf d.kind
  match d.kind with
  | .cap =>
    match kv.2 with
    | .null => if known then .ok (setField d kv.1 .none) else .error .capacity
    | .int i => if i < 0 then .error .assertion else if known then .ok (setField d kv.1 (.int i)) else .error .capacity
    | .bool b => if known then .ok (setField d kv.1 (.bool b)) else .error .capacity
    | .flt => .error .assertion
    | _ => .error .type
  | .lab =>
    match kv.2 with
    | .str s => if known then .ok (setField d kv.1 (.str s)) else .error .label
    | .arr l =>
      match allStrs l with
      | some ss => if known then .ok (setField d kv.1 (.strs ss)) else .error .label
      | none => .error .unmodelled
    | _ => .error .assertion

/-- `Capacities(**j)` / `Labels(**j)` -/
def mkDet (ty : DType) (j : JVal) : Except Err Det :=
  match j with
  | .obj kvs => kvs.foldlM detStep (defaultDet ty)
  | _ => .error .type

def dvalJson : DVal → Option JVal
  | .none => none
  | .int i => if i = 0 then none else some (.int i)
  | .bool b => if b then some (.bool true) else none
  | .str s => some (.str s)
  | .strs l => some (.arr (l.map .str))

/-- `JSONField.to_dict`: drop `None` and `== 0`, `None` if nothing is left -/
def detToDict (d : Det) : Option JVal :=
  let kv := d.fields.filterMap (fun p => (dvalJson p.2).map (fun j => (p.1, j)))
  if kv.isEmpty then none else some (.obj kv)

def detOps : DetailOps Det := { kindOf := (·.kind), toDict := detToDict, fromDict := mkDet }

end FimVerif.Deleg
