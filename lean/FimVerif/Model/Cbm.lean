/-!
# Combined broker model (C14): merge / unmerge / snapshot / rollback

An abstract property graph (own small type; nothing shared with other properties): nodes keyed by
`NodeID` carrying an opaque property list, the `StructuralInfo.adm_graph_ids` list (`prov`) and the
two delegation properties; undirected edges between node ids with an opaque property list.

The functions mirror `Neo4jCBMGraph.merge_adm`, `unmerge_adm`, `_update_node_delegations`
(fim/graph/resources/neo4j_cbm.py), `ABCADMPropertyGraph.rewrite_delegations`,
`ABCCBMPropertyGraph.snapshot/rollback` and the net effect of
`NetworkXPropertyGraph.merge_nodes` (nx.contracted_nodes: the edges of the contracted node move to the
surviving node, an edge that already exists keeps its own data) as observed through the abstract graph
interface on the shared in-memory store, *including* the states left behind when a call raises.
-/
namespace FimVerif.Cbm

abbrev Props := List (String × String)

/-- a `LabelDelegations` / `CapacityDelegations` property -/
inductive Deleg where
  | absent                                  -- property not set
  | emptied                                 -- `''` (what unmerge writes)
  | dict (l : List (String × String))       -- delegation id ↦ details (opaque canonical text)
deriving DecidableEq, Repr, Inhabited

structure Node where
  id : String
  props : Props
  prov : List String        -- StructuralInfo.adm_graph_ids (ignored on delegation models: merge overwrites it)
  ldel : Deleg
  cdel : Deleg
deriving DecidableEq, Repr, Inhabited

structure Edge where
  a : String
  b : String
  props : Props
deriving DecidableEq, Repr, Inhabited

structure Graph where
  nodes : List Node
  edges : List Edge
deriving DecidableEq, Repr, Inhabited

/-- a delegation model: graph id + graph -/
structure Adm where
  id : String
  g : Graph
deriving DecidableEq, Repr, Inhabited

inductive Err where
  | query | attribute | assertion
deriving DecidableEq, Repr, Inhabited

def Err.kind : Err → String
  | .query => "query" | .attribute => "attribute" | .assertion => "assertion"

def Graph.empty : Graph := ⟨[], []⟩
def Graph.ids (g : Graph) : List String := g.nodes.map (·.id)
def Graph.node? (g : Graph) (i : String) : Option Node := g.nodes.find? (fun n => n.id == i)
/-- undirected: does `e` join `x` and `y`? -/
def Edge.joins (e : Edge) (x y : String) : Bool := (e.a == x && e.b == y) || (e.a == y && e.b == x)
def Graph.edge? (g : Graph) (x y : String) : Option Edge := g.edges.find? (fun e => e.joins x y)
def Graph.hasEdge (g : Graph) (x y : String) : Bool := g.edges.any (fun e => e.joins x y)

/-- `Delegations.from_json(...)` is not `None` -/
def Deleg.live : Deleg → Bool
  | .dict _ => true
  | _ => false

/-! ## rewrite_delegations(real_adm_id) + stamping of StructuralInfo on the temporary clone -/

/-- one delegation property of one node of the temporary clone -/
def Deleg.rekey (aid : String) : Deleg → Except Err Deleg
  | .absent => .ok .absent
  | .emptied => .error .attribute                 -- from_json('') is None; None.get_delegation_ids()
  | .dict [(_, d)] => .ok (.dict [(aid, d)])
  | .dict _ => .error .query                      -- "more than one entry" (also for zero entries)

def stampNode (aid : String) (n : Node) : Except Err Node :=
  match n.ldel.rekey aid with
  | .error e => .error e
  | .ok ld =>
    match n.cdel.rekey aid with
    | .error e => .error e
    | .ok cd => .ok { n with prov := [aid], ldel := ld, cdel := cd }

def stampAll (aid : String) : List Node → Except Err (List Node)
  | [] => .ok []
  | n :: rest =>
    match stampNode aid n with
    | .error e => .error e
    | .ok n' =>
      match stampAll aid rest with
      | .error e => .error e
      | .ok l => .ok (n' :: l)

/-! ## _update_node_delegations + merge_nodes + adm_graph_ids.append on one common node -/

/-- both sides speak for the same resource -/
def conflict (n t : Node) : Bool := (n.ldel.live && t.ldel.live) || (n.cdel.live && t.cdel.live)

/-- "take the non-None dictionary and write back" -/
def Deleg.take (c t : Deleg) : Deleg := if c.live then c else if t.live then t else c

/-- CBM node properties win; delegations from whichever side has them; provenance appended -/
def mergeNode (aid : String) (n t : Node) : Node :=
  { n with ldel := n.ldel.take t.ldel, cdel := n.cdel.take t.cdel, prov := n.prov ++ [aid] }

/-- one iteration of the common-node loop seen from a CBM node: only nodes in `done` that the clone also has change -/
def mergeAt (t : Graph) (aid : String) (done : List String) (n : Node) : Node :=
  if done.contains n.id then
    match t.node? n.id with
    | some tn => mergeNode aid n tn
    | none => n
  else n

/-- The combined graph after the common nodes in `done` were processed; `final` = the remaining nodes of the
temporary clone were re-homed by the GraphID rewrite.  Before that only edges whose two ends have already been
contracted into CBM nodes are visible in the CBM. -/
def mergeCore (c t : Graph) (aid : String) (done : List String) (final : Bool) : Graph :=
  { nodes := c.nodes.map (mergeAt t aid done)
      ++ (if final then t.nodes.filter (fun tn => !c.ids.contains tn.id) else []),
    edges := c.edges ++ t.edges.filter (fun e =>
        !c.hasEdge e.a e.b && (final || (done.contains e.a && done.contains e.b))) }

def conflictAt (c t : Graph) (i : String) : Bool :=
  match c.node? i, t.node? i with
  | some n, some tn => conflict n tn
  | _, _ => false

/-- node ids present in both, in CBM order -/
def common (c : Graph) (a : Graph) : List String := c.ids.filter (fun i => a.ids.contains i)

/-- `merge_adm` up to (and including) the final GraphID rewrite on a store where that rewrite cannot fail (Neo4j: a
`MATCH ... SET` that matches nothing); `order` is the iteration order of the `common_node_ids` set.  Returns the error
(if any) and the CBM as it is afterwards. -/
def mergeOrdN (c : Graph) (a : Adm) (order : List String) : Option Err × Graph :=
  if a.g.nodes.isEmpty then (some .assertion, c) else          -- assert adm.graph_exists()
  match stampAll a.id a.g.nodes with
  | .error e => (some e, c)                                      -- raised on the temporary clone
  | .ok tn =>
    let t : Graph := ⟨tn, a.g.edges⟩
    if c.nodes.isEmpty then (none, t) else                       -- "if CBM is empty, just force ADM into it"
    match order.findIdx? (conflictAt c t) with
    | some k => (some .query, mergeCore c t a.id (order.take k) false)
    | none => (none, mergeCore c t a.id order true)

/-- every node of the model is already in the (non-empty) CBM: after the common-node loop the temporary graph is gone -/
def vanishes (c : Graph) (a : Adm) : Bool := !c.nodes.isEmpty && a.g.nodes.all (fun n => c.ids.contains n.id)

/-- `merge_adm` as it runs on the shared NetworkX store: when the temporary graph has vanished the final
`update_nodes_property` raises on it (the merged state is the same). -/
def mergeOrd (c : Graph) (a : Adm) (order : List String) : Option Err × Graph :=
  let r := mergeOrdN c a order
  if r.1.isNone && vanishes c a then (some .query, r.2) else r

def mergeN (c : Graph) (a : Adm) : Option Err × Graph := mergeOrdN c a (common c a.g)
def merge (c : Graph) (a : Adm) : Option Err × Graph := mergeOrd c a (common c a.g)

/-! ## unmerge_adm -/

def Deleg.unmerge (gid : String) : Deleg → Except Unit Deleg
  | .dict l =>
    if l.any (fun p => p.1 == gid) then
      (if (l.filter (fun p => p.1 != gid)).isEmpty then .ok .emptied else .error ())
    else .ok (.dict l)
  | d => .ok d

/-- new provenance list and "delete this node" -/
def provUnmerge (gid : String) (p : List String) : List String × Bool :=
  if p.contains gid then
    (if (p.erase gid).isEmpty then (p, true) else (p.erase gid, false))
  else (p, false)

/-- `.error n'` = raised with the node left as `n'` -/
def unmergeNode (gid : String) (n : Node) : Except Node (Node × Bool) :=
  let pd := provUnmerge gid n.prov
  match n.cdel.unmerge gid with
  | .error _ => .error { n with prov := pd.1 }
  | .ok cd =>
    match n.ldel.unmerge gid with
    | .error _ => .error { n with prov := pd.1, cdel := cd }
    | .ok ld => .ok ({ n with prov := pd.1, cdel := cd, ldel := ld }, pd.2)

def unmergeNodes (gid : String) : List Node → Except (List Node) (List (Node × Bool))
  | [] => .ok []
  | n :: rest =>
    match unmergeNode gid n with
    | .error n' => .error (n' :: rest)
    | .ok r =>
      match unmergeNodes gid rest with
      | .error l => .error (r.1 :: l)
      | .ok l => .ok (r :: l)

def unmerge (c : Graph) (gid : String) : Option Err × Graph :=
  if c.nodes.isEmpty then (some .query, c) else                 -- list_all_node_ids on an empty graph
  match unmergeNodes gid c.nodes with
  | .error ns => (some .query, { c with nodes := ns })
  | .ok l =>
    let keep := (l.filter (fun r => !r.2)).map (·.1)
    let ids := keep.map (·.id)
    (none, { nodes := keep, edges := c.edges.filter (fun e => ids.contains e.a && ids.contains e.b) })

/-! ## snapshot / rollback and the world of a broker -/

structure World where
  cbm : Graph
  srcs : List Adm                 -- the delegation models lying in the store next to the CBM
  snaps : List (Nat × Graph)
  next : Nat
deriving Repr, Inhabited

def World.init (srcs : List Adm) : World := ⟨Graph.empty, srcs, [], 0⟩

inductive Op where
  | merge (aid : String)          -- merge the source with this graph id
  | unmerge (gid : String)
  | snapshot
  | rollback (k : Nat)
deriving DecidableEq, Repr, Inhabited

def lookupSnap (k : Nat) : List (Nat × Graph) → Option Graph
  | [] => none
  | (j, g) :: rest => if j == k then some g else lookupSnap k rest

/-- `snapshot`: clone under a fresh id (clone of an empty graph raises AttributeError) -/
def snapshot (w : World) : Option Err × World :=
  if w.cbm.nodes.isEmpty then (some .attribute, w)
  else (none, { w with snaps := (w.next, w.cbm) :: w.snaps, next := w.next + 1 })

/-- `rollback`: delete self, then cast the snapshot (asserts it exists) and re-home it - the snapshot is consumed -/
def rollback (w : World) (k : Nat) : Option Err × World :=
  match lookupSnap k w.snaps with
  | none => (some .assertion, { w with cbm := Graph.empty })
  | some g => (none, { w with cbm := g, snaps := w.snaps.filter (fun p => p.1 != k) })

def step (w : World) : Op → Option Err × World
  | .merge aid =>
    match w.srcs.find? (fun a => a.id == aid) with
    | none => (some .assertion, w)
    | some a => let r := merge w.cbm a; (r.1, { w with cbm := r.2 })
  | .unmerge gid => let r := unmerge w.cbm gid; (r.1, { w with cbm := r.2 })
  | .snapshot => snapshot w
  | .rollback k => rollback w k

def run (w : World) : List Op → World
  | [] => w
  | op :: ops => run (step w op).2 ops

end FimVerif.Cbm
