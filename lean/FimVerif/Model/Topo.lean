import FimVerif.Model.M
import FimVerif.Generated.Rules
/-!
# Topology-building API over the property graph (C07, C09)

State = the topology's graph as the storage holds it: nodes in insertion order (key = `(Class, NodeID)`,
which `add_node` keeps unique), undirected typed edges between node keys.  The `uuid4` supply is *not*
state: every call takes the next unused index `u` and draws `gen u, gen (u+1), …` (C09 compares models, and
a failed call may well have consumed uuids).  Handle caches (`NetworkService._interfaces`) are explicit
arguments and results of the calls that consult/extend them.

Every function mirrors the control flow of the Python named in its comment, in the order the Python
performs validations, reads and writes — including the places where it writes before it raises.
Tables (`catalog`, layers, flags read off the source) come from `Generated/Rules.lean`.
-/
namespace FimVerif.Topo
open FimVerif
open FimVerif.M (raise read modify ofExcept forEach tryCatch mapM' filterMapM')
open FimVerif.Gen

inductive Nid where
  | user (s : String)     -- caller-supplied node id
  | gen (n : Nat)         -- the n-th uuid4 drawn by the library
  deriving DecidableEq, Repr, Inhabited

inductive Cls where
  | networkNode | component | networkService | connectionPoint | link | compositeNode
  deriving DecidableEq, Repr, Inhabited

def Cls.toString : Cls → String
  | .networkNode => "NetworkNode" | .component => "Component" | .networkService => "NetworkService"
  | .connectionPoint => "ConnectionPoint" | .link => "Link" | .compositeNode => "CompositeNode"

inductive Rel where | has | connects
  deriving DecidableEq, Repr, Inhabited

structure Ref where
  cls : Cls
  nid : Nid
  deriving DecidableEq, Repr, Inhabited

abbrev Props := List (String × String)

structure GNode where
  cls : Cls
  nid : Nid
  name : String
  typ : String
  props : Props
  deriving DecidableEq, Repr, Inhabited

def GNode.ref (n : GNode) : Ref := ⟨n.cls, n.nid⟩

structure GEdge where
  a : Ref
  b : Ref
  rel : Rel
  deriving DecidableEq, Repr, Inhabited

structure Topo where
  nodes : List GNode
  edges : List GEdge
  deriving DecidableEq, Repr, Inhabited

def Topo.empty : Topo := ⟨[], []⟩

inductive Flavour where | experiment | substrate
  deriving DecidableEq, Repr, Inhabited

/-- one keyword property as the sliver class judged it (pure sliver code, C02/C16): accepted with the
graph property it becomes, or rejected with an exception kind -/
inductive PropArg where
  | ok (k v : String)
  | bad (e : Err)
  deriving DecidableEq, Repr, Inhabited

/-- `sliver.set_properties(**kwargs)`: left to right, first rejection raises -/
def validateProps : List PropArg → Except Err Props
  | [] => .ok []
  | .bad e :: _ => .error e
  | .ok k v :: r => match validateProps r with
    | .ok l => .ok ((k, v) :: l)
    | .error e => .error e

/-- `dict.update` on an association list -/
def dictSet (d : Props) (k v : String) : Props :=
  if d.any (fun p => p.1 == k) then d.map (fun p => if p.1 == k then (k, v) else p) else d ++ [(k, v)]
def dictUpdate (d : Props) (new : Props) : Props := new.foldl (fun d p => dictSet d p.1 p.2) d

/-- an element of an `interfaces=[…]` argument: an `Interface` handle (node id, cached name) or some other object -/
inductive IfArg where
  | iface (nid : Nid) (name : String)
  | bogus
  deriving DecidableEq, Repr, Inhabited

abbrev Cache := List (String × Nid)

/-- `BaseSliver.set_name`: `re.fullmatch(cls.NAME_REGEX, name)` with the per-class `^[\w<extra>]{lo,hi}$`
(ASCII names only are generated) -/
def validName (cls : Cls) (s : String) : Bool :=
  match Rules.nameRules.find? (fun r => r.1 == cls.toString) with
  | none => false
  | some (_, extra, lo, hi) =>
    lo ≤ s.length && s.length ≤ hi && s.toList.all (fun c => c.isAlphanum || c == '_' || extra.toList.contains c)

/-! ## graph primitives (`NetworkXPropertyGraph`) -/

def findAll (s : Topo) (nid : Nid) : List GNode := s.nodes.filter (fun n => n.nid == nid)

/-- `_find_node` / `get_node_properties`: exactly one node with this NodeID, else a query exception -/
def findNode (nid : Nid) : M Topo GNode := fun s =>
  match findAll s nid with
  | [n] => (.ok n, s)
  | _ => (.error .query, s)

/-- the guard of `add_node` (`Gen.Rules.idAnyClass` says which one the code has) -/
def idTaken (s : Topo) (cls : Cls) (nid : Nid) : Bool :=
  if Rules.idAnyClass then s.nodes.any (fun m => m.nid == nid)
  else s.nodes.any (fun m => m.nid == nid && m.cls == cls)

def pushNode (n : GNode) (s : Topo) : Topo := { s with nodes := s.nodes ++ [n] }

/-- `add_node` -/
def addGNode (n : GNode) : M Topo Unit := fun s =>
  if idTaken s n.cls n.nid then (.error .query, s) else (.ok (), pushNode n s)

def sameEnds (e : GEdge) (a b : Ref) : Bool := (e.a == a && e.b == b) || (e.a == b && e.b == a)

/-- `nx.Graph.add_edge`: one edge per unordered pair -/
def setEdge (a b : Ref) (rel : Rel) (s : Topo) : Topo :=
  { s with edges := s.edges.filter (fun e => !sameEnds e a b) ++ [⟨a, b, rel⟩] }

/-- `add_link` -/
def addEdge (a : Nid) (rel : Rel) (b : Nid) : M Topo Unit := do
  let na ← findNode a
  let nb ← findNode b
  modify (setEdge na.ref nb.ref rel)

def dropNode (r : Ref) (s : Topo) : Topo :=
  { nodes := s.nodes.filter (fun n => n.ref != r), edges := s.edges.filter (fun e => e.a != r && e.b != r) }

/-- `delete_node` -/
def deleteNode (nid : Nid) : M Topo Unit := do
  let n ← findNode nid
  modify (dropNode n.ref)

def adjacent (s : Topo) (r x : Ref) (rel : Rel) : Bool :=
  s.edges.any (fun e => e.rel == rel && sameEnds e r x)

/-- neighbours of `r` over `rel` with class `label`, in storage order -/
def neighbors (s : Topo) (r : Ref) (rel : Rel) (label : Cls) : List GNode :=
  s.nodes.filter (fun n => n.cls == label && adjacent s r n.ref rel)

/-- `get_first_neighbor` -/
def firstNeighbor (nid : Nid) (rel : Rel) (label : Cls) : M Topo (List Nid) := do
  let n ← findNode nid
  read (fun s => (neighbors s n.ref rel label).map (·.nid))

def adjacentAny (s : Topo) (r x : Ref) : Bool := s.edges.any (fun e => sameEnds e r x)

/-- `get_first_and_second_neighbor` as it is: the second hop is filtered by class only (its relation
filter appends the wrong variable to the drop list and so never drops anything); self excluded -/
def secondNeighbors (nid : Nid) (rel1 : Rel) (l1 : Cls) (l2 : Cls) : M Topo (List (Nid × Nid)) := do
  let n ← findNode nid
  read (fun s =>
    (neighbors s n.ref rel1 l1).flatMap (fun f =>
      (s.nodes.filter (fun k => k.cls == l2 && adjacentAny s f.ref k.ref && k.ref != n.ref)).map (fun k => (f.nid, k.nid))))

/-- `find_peer_connection_points` (`[]` stands for `None`) -/
def peersOf (nid : Nid) : M Topo (List Nid) := do
  let l ← secondNeighbors nid .connects .link .connectionPoint
  pure (l.map (·.2))

/-- `get_parent` -/
def getParent (nid : Nid) (rel : Rel) (parent : Cls) : M Topo (Option GNode) := do
  let ps ← firstNeighbor nid rel parent
  match ps with
  | [p] => do let n ← findNode p; pure (some n)
  | _ => pure none

def typeOf (nid : Nid) : M Topo String := do let n ← findNode nid; pure n.typ

/-- `update_node_properties` -/
def updateProps (nid : Nid) (new : Props) : M Topo Unit := do
  let n ← findNode nid
  modify (fun s => { s with nodes := s.nodes.map (fun m => if m.ref == n.ref then { m with props := dictUpdate m.props new } else m) })

/-! ## lookups of the user layer -/

/-- `Topology.get_owner_node(interface)`; raises `topology` when the interface has no parent -/
def ownerOfService (ns : GNode) : M Topo (Option GNode) := do
  let comp ← getParent ns.nid .has .component
  match comp with
  | some c => do
      let node ← getParent c.nid .has .networkNode
      match node with
      | some n => pure (some n)
      | none => raise .topology
  | none => do
      let node ← getParent ns.nid .has .networkNode
      match node with
      | some n => pure (some n)
      | none => getParent ns.nid .has .compositeNode

def parentService (iface : Nid) : M Topo GNode := do
  let ns ← getParent iface .connects .networkService
  match ns with
  | some x => pure x
  | none => raise .topology

def ownerNode (iface : Nid) : M Topo (Option GNode) := do
  let t ← typeOf iface
  if t == "SubInterface" then do
    let p ← getParent iface .connects .connectionPoint
    match p with
    | none => raise .topology
    | some pi => do
        let ns ← parentService pi.nid
        ownerOfService ns
  else do
    let ns ← parentService iface
    ownerOfService ns

/-- names of all nodes of a class that pass `keep`; a NodeID found twice makes the listing raise -/
def listNames (cls : Cls) (keep : GNode → Bool) : M Topo (List String) := fun s =>
  let cands := s.nodes.filter (fun n => n.cls == cls)
  if cands.all (fun n => (findAll s n.nid).length == 1) then (.ok ((cands.filter keep).map (·.name)), s)
  else (.error .query, s)

/-- `find_node_by_name` -/
def findByName (cls : Cls) (name : String) : M Topo GNode := fun s =>
  match s.nodes.filter (fun n => n.cls == cls && n.name == name) with
  | [n] => (.ok n, s)
  | _ => (.error .query, s)

/-- children of a given class over a relation, parent must be of one of `okCls` -/
def childrenOf (parent : Nid) (okCls : List Cls) (rel : Rel) (label : Cls) : M Topo (List GNode) := do
  let p ← findNode parent
  M.guard (okCls.contains p.cls) .query
  let ids ← firstNeighbor parent rel label
  mapM' findNode ids

def pick (o : Option Nid) (c : Nat) : Nid × Nat :=
  match o with
  | some x => (x, c)
  | none => (.gen c, c + 1)

def lookupD (t : List (String × String)) (k : String) : Option String := (t.find? (fun p => p.1 == k)).map (·.2)

def need {α : Type} (o : Option α) (e : Err) : M Topo α :=
  match o with
  | some x => pure x
  | none => raise e

/-! ## constructors (`etype=NEW`) -/

/-- `Interface(..., etype=NEW)` -/
def ifaceNew (fl : Flavour) (c : Nat) (name : String) (nid : Option Nid) (parent : Option Nid)
    (itype : Option String) (props : List PropArg) : M Topo (Nid × Nat) := do
  M.guard (!(fl == .substrate && nid.isNone)) .topology
  let (id, c') := pick nid c
  let t ← need itype .topology
  M.guard (validName .connectionPoint name) .value
  let kw ← ofExcept (validateProps props)
  -- add_interface_sliver
  match parent with
  | some p => if Rules.ifaceParentPrecheck then do let _ ← findNode p; pure () else pure ()
  | none => pure ()
  addGNode ⟨.connectionPoint, id, name, t, dictUpdate [("StitchNode", "false")] kw⟩
  match parent with
  | some p => addEdge p .connects id
  | none => pure ()
  pure (id, c')

/-- `Link(..., etype=NEW)`; `interfaces = none` stands for `None`/not a list -/
def linkNew (fl : Flavour) (c : Nat) (name : String) (nid : Option Nid) (ltype : Option String)
    (ifs : Option (List IfArg)) (tech : Option String) (props : List PropArg) : M Topo (Nid × Nat) := do
  M.guard (!(fl == .substrate && nid.isNone)) .topology
  let (id, c') := pick nid c
  let t ← need ltype .topology
  let l ← need ifs .topology
  M.guard (!l.isEmpty) .topology
  M.guard (validName .link name) .value
  let layer ← need (lookupD Rules.linkLayer t) .key
  let kw ← ofExcept (validateProps props)
  let base : Props := [("StitchNode", "false"), ("Layer", layer)] ++ (match tech with | some x => [("Technology", x)] | none => [])
  -- add_network_link_sliver
  if Rules.linkPrecheck then do
    forEach l (fun i => match i with           -- `list(interfaces)` evaluates the caller's generator
      | .bogus => raise .attr
      | .iface _ _ => pure ())
    forEach l (fun i => match i with
      | .bogus => pure ()
      | .iface iid _ => do
          let cnt ← read (fun (s : Topo) => (s.nodes.filter (fun n => n.nid == iid && n.cls == .connectionPoint)).length)
          M.guard (cnt == 1) .query)
  else pure ()
  addGNode ⟨.link, id, name, t, dictUpdate base kw⟩
  forEach l (fun i => match i with
    | .bogus => raise .attr
    | .iface iid _ => addEdge id .connects iid)
  pure (id, c')

/-- `remove_cp_and_links` -/
def removeCpAndLinks (nid : Nid) (deleteParent : Bool) : M Topo Unit := do
  let parents ← firstNeighbor nid .connects .connectionPoint
  let extra ← filterMapM' (fun p => do
    let ch ← firstNeighbor p .connects .connectionPoint
    pure (if ch.length == 1 && deleteParent then some p else none)) parents
  let toDel := (nid :: extra).eraseDups
  let links ← mapM' (fun i => do
    let ls ← firstNeighbor i .connects .link
    filterMapM' (fun l => do
      let cps ← firstNeighbor l .connects .connectionPoint
      pure (if cps.length == 2 then some l else none)) ls) toDel
  forEach (toDel ++ links.flatten).eraseDups deleteNode

/-- `remove_ns_with_cps_and_links` -/
def removeNs (nid : Nid) : M Topo Unit := do
  let n ← findNode nid
  M.guard (n.cls == .networkService) .query
  let ifs ← firstNeighbor nid .connects .connectionPoint
  deleteNode nid
  forEach ifs (fun i => removeCpAndLinks i true)

/-- `remove_component_with_nss_cps_and_links` -/
def removeCompGraph (nid : Nid) : M Topo Unit := do
  let n ← findNode nid
  M.guard (n.cls == .component) .query
  let nss ← firstNeighbor nid .has .networkService
  deleteNode nid
  forEach nss removeNs

/-- `remove_network_node_with_components_nss_cps_and_links` -/
def removeNodeGraph (nid : Nid) : M Topo Unit := do
  let n ← findNode nid
  M.guard (n.cls == .networkNode) .query
  let comps ← firstNeighbor nid .has .component
  forEach comps removeCompGraph
  let nss ← firstNeighbor nid .has .networkService
  deleteNode nid
  forEach nss removeNs

/-- the `try: … except Exception: remove the component with everything under it; raise` of `add_component_sliver`
(absent from the code when `Rules.componentRollback` is false) -/
def compGuard (comp : Nid) (body : M Topo Unit) : M Topo Unit :=
  if Rules.componentRollback then
    tryCatch body (fun _ => true) (fun e => do removeCompGraph comp; raise e)
  else body

/-- `__service_guardrails` -/
def guardrails (stype : String) (i : IfArg) : M Topo Unit :=
  if stype == "L2PTP" then
    match i with
    | .bogus => raise .attr
    | .iface iid _ => do
      let t ← typeOf iid
      M.guard (t != "SharedPort") .topology
  else pure ()

/-- `NetworkService.connect_interface`; returns the extended cache -/
def connectInterface (fl : Flavour) (c : Nat) (svc : Nid) (cache : Cache) (i : IfArg) : M Topo Cache :=
  match i with
  | .bogus => raise .assertion
  | .iface iid iname => do
    let sv ← findNode svc
    guardrails sv.typ i
    let owner ← ownerNode iid
    let o ← need owner .topology
    let peers ← peersOf iid
    M.guard peers.isEmpty .topology
    let cpName := o.name ++ "-" ++ iname
    if Rules.connectNamePrecheck then do
      M.guard (validName .connectionPoint cpName) .value
      M.guard (validName .link (cpName ++ "-link")) .value
    else pure ()
    let (cp, c1) ← ifaceNew fl c cpName none (some svc) (some "ServicePort") []
    let t ← typeOf iid
    let ltype := if t == "SharedPort" then "L2Path" else "Patch"
    let _ ← linkNew fl c1 (cpName ++ "-link") none (some ltype) (some [.iface iid iname, .iface cp cpName]) none []
    pure (cache ++ [(cpName, cp)])

/-- `NetworkService.disconnect_interface`; returns the filtered cache -/
def disconnectInterface (cache : Cache) (i : IfArg) : M Topo Cache :=
  match i with
  | .bogus => raise .attr
  | .iface iid _ => do
    let all ← peersOf iid
    let pn ← mapM' findNode all
    match (pn.filter (fun n => n.typ == "ServicePort")).map (·.nid) with
    | [] => pure cache
    | p :: rest => do
      M.guard rest.isEmpty .topology
      removeCpAndLinks p true
      pure (cache.filter (fun x => x.2 != p))

/-- which exception kinds the `except` clause of `NetworkService.__init__` selects -/
def rollbackCatches (e : Err) : Bool := Rules.svcRollbackAll || e == .topology

/-- the `for i in interfaces: try: … except …: rollback; raise` loop of `NetworkService.__init__` -/
def svcLoop (fl : Flavour) (svc : Nid) (stype : String) :
    Nat → List IfArg → List IfArg → Cache → M Topo Cache
  | _, [], _, cache => pure cache
  | c, i :: rest, connected, cache => do
    let cache' ← tryCatch (do guardrails stype i; connectInterface fl c svc cache i) rollbackCatches
      (fun e => do
        forEach connected (fun ii => do let _ ← disconnectInterface cache ii; pure ())
        removeNs svc
        raise e)
    svcLoop fl svc stype (c + 2) rest (connected ++ [i]) cache'

structure SvcArgs where
  name : String
  nid : Option Nid
  nstype : Option String
  tech : Option String
  site : Option String
  props : List PropArg
  ifs : List IfArg
  deriving Repr, Inhabited

/-- `NetworkService(..., etype=NEW)`; returns node id and the handle's interface cache -/
def svcNew (fl : Flavour) (c : Nat) (parent : Option Nid) (a : SvcArgs) : M Topo (Nid × Cache) := do
  let (id, c1) := pick a.nid c
  let t ← need a.nstype .topology
  M.guard (validName .networkService a.name) .value
  let layer ← need (lookupD Rules.svcLayer t) .key
  let kw ← ofExcept (validateProps a.props)
  -- add_network_service_sliver
  if parent.isNone then do
    let dup ← read (fun s => s.nodes.any (fun n => n.cls == .networkService && n.name == a.name))
    M.guard (!dup) .query
  else pure ()
  let base : Props := [("StitchNode", "false"), ("Layer", layer)]
    ++ (match a.tech with | some x => [("Technology", x)] | none => [])
    ++ (match a.site with | some x => [("Site", x)] | none => [])
  addGNode ⟨.networkService, id, a.name, t, dictUpdate base kw⟩
  match parent with
  | some p => addEdge p .has id
  | none => pure ()
  let cache ← svcLoop fl id t c1 a.ifs [] []
  pure (id, cache)

structure NodeArgs where
  name : String
  nid : Option Nid
  site : Option String
  ntype : Option String
  props : List PropArg
  deriving Repr, Inhabited

/-- `Node(..., etype=NEW)` -/
def nodeNew (fl : Flavour) (c : Nat) (a : NodeArgs) : M Topo (Nid × Nat) := do
  M.guard (!(fl == .substrate && a.nid.isNone)) .topology
  let (id, c') := pick a.nid c
  let t ← need a.ntype .topology
  let site ← need a.site .topology
  M.guard (validName .networkNode a.name) .value
  let kw ← ofExcept (validateProps a.props)
  let dup ← read (fun s => s.nodes.any (fun n => n.cls == .networkNode && n.name == a.name))
  M.guard (!dup) .query
  addGNode ⟨.networkNode, id, a.name, t, dictUpdate [("StitchNode", "false"), ("Site", site)] kw⟩
  pure (id, c')

/-- `Topology.add_node` -/
def addNode (fl : Flavour) (c : Nat) (a : NodeArgs) : M Topo (Nid × Nat) := do
  M.guard a.site.isSome .assertion
  let names ← listNames .networkNode (fun n => n.typ != "Facility")
  M.guard (!names.contains a.name) .topology
  nodeNew fl c a

structure CompArgs where
  name : String
  nid : Option Nid
  ctype : Option String
  model : Option String
  nsNid : Option Nid
  ifNids : Option (List Nid)
  nLabels : Option Nat          -- `len(interface_labels)`; the labels themselves are `Labels()` (no effect on the result)
  props : List PropArg
  deriving Repr, Inhabited

def catalogFind (model ctype : String) : Option Rules.CatEntry :=
  Rules.catalog.find? (fun e => (model == e.model && ctype == e.ctype) || (e.also.contains model && ctype == e.ctype))

/-- ids for the interfaces of a generated component: the caller's or fresh ones -/
def ifaceIds : Option (List Nid) → Nat → Nat → List Nid × Nat
  | some l, _, c => (l, c)
  | none, 0, c => ([], c)
  | none, n + 1, c => let (r, c') := ifaceIds none n (c + 1); (.gen c :: r, c')

/-- `Component(..., etype=NEW)` with `ComponentCatalog.generate_component` and `add_component_sliver` -/
def compNew (fl : Flavour) (c : Nat) (parent : Nid) (a : CompArgs) : M Topo Nid := do
  M.guard (!(fl == .substrate && a.nid.isNone)) .topology
  let (id, c1) := pick a.nid c
  M.guard (a.model.isSome && a.ctype.isSome) .topology
  let model := a.model.getD ""
  let ctype := a.ctype.getD ""
  M.guard (!(fl == .substrate && (ctype == "SharedNIC" || ctype == "SmartNIC") &&
    (a.nsNid.isNone || a.ifNids.isNone || a.nLabels.isNone))) .topology
  let p ← findNode parent
  -- generate_component
  let e ← need (catalogFind model ctype) (.named "catalog")
  M.guard (validName .component a.name) .value
  if e.hasIfaces then
    match a.ifNids with
    | some l => do
        M.guard (l.length == e.ifaces.length) .runtime
        match a.nLabels with
        | some n => M.guard (n == e.ifaces.length) .runtime
        | none => raise .typ          -- `len(None)`
    | none => pure ()
  else pure ()
  let (ifIds, c2) := if e.hasIfaces then ifaceIds a.ifNids e.ifaces.length c1 else ([], c1)
  let (nsId, _) := if e.hasIfaces then pick a.nsNid c2 else (id, c2)
  let kw ← ofExcept (validateProps a.props)
  -- add_component_sliver
  addGNode ⟨.component, id, a.name, e.ctype, dictUpdate [("Model", e.model), ("Details", e.details), ("StitchNode", "false")] kw⟩
  compGuard id (do
    addEdge parent .has id
    if e.hasIfaces then do
      addGNode ⟨.networkService, nsId, p.name ++ "-" ++ a.name ++ e.nsSuffix, e.nsType, [("StitchNode", "false"), ("Layer", "L2")]⟩
      addEdge id .has nsId
      forEach (e.ifaces.zip ifIds) (fun (ci, iid) => do
        addGNode ⟨.connectionPoint, iid, a.name ++ "-" ++ ci.port, ci.itype, ci.props⟩
        addEdge nsId .connects iid)
    else pure ())
  pure id

/-- `Node.add_component` -/
def addComponent (fl : Flavour) (c : Nat) (parent : Nid) (a : CompArgs) : M Topo Nid := do
  let comps ← childrenOf parent [.networkNode] .has .component
  M.guard (!(comps.map (·.name)).contains a.name) .topology
  compNew fl c parent a

/-- `Node.add_storage` -/
def addStorage (fl : Flavour) (c : Nat) (parent : Nid) (name : String) (nid : Option Nid) (props : List PropArg) : M Topo Nid := do
  M.guard (fl == .experiment) .topology
  let comps ← childrenOf parent [.networkNode] .has .component
  M.guard (!(comps.map (·.name)).contains name) .topology
  compNew fl c parent ⟨name, nid, some "Storage", some "NAS", none, none, none, props⟩

/-- `Node.add_network_service` -/
def nodeAddService (fl : Flavour) (c : Nat) (parent : Nid) (a : SvcArgs) : M Topo (Nid × Cache) := do
  let nss ← childrenOf parent [.networkNode, .component] .has .networkService
  M.guard (!(nss.map (·.name)).contains a.name) .topology
  svcNew fl c (some parent) a

/-- `Topology.add_network_service` -/
def addService (fl : Flavour) (c : Nat) (a : SvcArgs) : M Topo (Nid × Cache) := svcNew fl c none a

/-- `Topology.add_link` -/
def addLink (fl : Flavour) (c : Nat) (name : String) (nid : Option Nid) (ltype : Option String)
    (ifs : Option (List IfArg)) (tech : Option String) (props : List PropArg) : M Topo (Nid × Nat) := do
  let names ← listNames .link (fun _ => true)
  M.guard (!names.contains name) .topology
  linkNew fl c name nid ltype ifs tech props

/-- `NetworkService.add_interface` (the handle's cache is consulted, and not extended) -/
def nsAddInterface (fl : Flavour) (c : Nat) (svc : Nid) (cache : Cache) (name : String) (nid : Option Nid)
    (itype : Option String) (props : List PropArg) : M Topo (Nid × Nat) := do
  M.guard (!(cache.map (·.1)).contains name) .topology
  ifaceNew fl c name nid (some svc) itype props

/-- `NetworkService.remove_interface` -/
def nsRemoveInterface (fl : Flavour) (svc : Nid) (name : String) : M Topo Unit := do
  M.guard (fl != .experiment) .topology
  let cps ← childrenOf svc [.link, .networkService] .connects .connectionPoint
  let cp ← need (cps.find? (fun n => n.name == name)) .query
  removeCpAndLinks cp.nid true

/-! ## composites and removals of `Topology` / `Node` -/

def suffixId (nid : Option Nid) (suf : String) : Option Nid :=
  match nid with
  | some (.user s) => some (.user (s ++ suf))
  | some (.gen n) => some (.gen n)      -- not reachable: a caller cannot supply a library id
  | none => none

/-- the `try: … except Exception: remove the node with everything under it; raise` of the composites
(absent from the code when `Rules.compositeRollback` is false) -/
def composite (node : Nid) (body : M Topo Unit) : M Topo Unit :=
  if Rules.compositeRollback then
    tryCatch body (fun _ => true) (fun e => do removeNodeGraph node; raise e)
  else body

/-- `Topology.add_facility` -/
def addFacility (fl : Flavour) (c : Nat) (name : String) (nid : Option Nid) (site : Option String)
    (nstype : Option String) (nsprops : List PropArg)
    (ifs : Option (List (String × List PropArg))) (kw : List PropArg) : M Topo Nid := do
  let (facn, c1) ← addNode fl c ⟨name, nid, site, some "Facility", []⟩
  let nsid := suffixId nid "-ns"
  let rec go (facs : Nid) : List (String × List PropArg) → Nat → Nat → M Topo Unit
    | [], _, _ => pure ()
    | (iname, ip) :: rest, k, cc => do
        let idx := if Rules.facIndexReset then 0 else k
        let (_, cc') ← nsAddInterface fl cc facs [] iname (suffixId nid ("-int" ++ toString idx)) (some "FacilityPort") ip
        go facs rest (k + 1) cc'
  composite facn (do
    let (facs, _) ← nodeAddService fl c1 facn ⟨name ++ "-ns", nsid, nstype, none, none, nsprops, []⟩
    let c2 := (pick nsid c1).2
    match ifs with
    | none => do
        let _ ← nsAddInterface fl c2 facs [] (name ++ "-int") (suffixId nid "-int") (some "FacilityPort") kw
        pure ()
    | some l => go facs l 0 c2)
  pure facn

/-- `Topology.add_switch`; `ports` = per port the (name, id suffix, properties) the loop computes -/
def addSwitch (fl : Flavour) (c : Nat) (name : String) (nid : Option Nid) (site : Option String)
    (nstype : Option String) (nsprops : List PropArg) (ports : List (String × String × List PropArg)) : M Topo Nid := do
  let (sw, c1) ← addNode fl c ⟨name, nid, site, some "Switch", []⟩
  let nsid := suffixId nid "-ns"
  let rec go (sns : Nid) : List (String × String × List PropArg) → Nat → M Topo Unit
    | [], _ => pure ()
    | (pname, suf, pp) :: rest, cc => do
        let (_, cc') ← nsAddInterface fl cc sns [] pname (suffixId nid suf) (some "DedicatedPort") pp
        go sns rest cc'
  composite sw (do
    let (sns, _) ← nodeAddService fl c1 sw ⟨name ++ "-ns", nsid, nstype, none, none, nsprops, []⟩
    let c2 := (pick nsid c1).2
    go sns ports c2)
  pure sw

/-- all interfaces of a node: those of its own services, then those of its components' services -/
def nodeInterfaces (node : Nid) : M Topo (List Nid) := do
  let p ← findNode node
  M.guard (p.cls == .networkNode || p.cls == .component || p.cls == .compositeNode) .query
  let direct ← secondNeighbors node .has .networkService .connectionPoint
  let comps ← childrenOf node [.networkNode] .has .component
  let sub ← mapM' (fun cmp => do
    let l ← secondNeighbors cmp.nid .has .networkService .connectionPoint
    pure (l.map (·.2))) comps
  pure (direct.map (·.2) ++ sub.flatten)

/-- `Topology._disconnect_interfaces`: each interface and, for a DedicatedPort, each of its sub-interfaces is
disconnected from the service it is connected to; with `Rules.detachSkipsGone` an interface that is no longer in the
graph (the ServicePort of a connection removed earlier in the loop) is skipped -/
def detachAll (ifs : List Nid) : M Topo Unit :=
  forEach ifs (fun i => do
    let there ← read (fun (s : Topo) => s.nodes.any (fun m => m.nid == i && m.cls == .connectionPoint))
    if Rules.detachSkipsGone && !there then pure () else do
    let n ← findNode i
    let kids ← if n.typ == "DedicatedPort" then firstNeighbor i .connects .connectionPoint else pure []
    forEach (i :: kids) (fun ii => do
      let there2 ← read (fun (s : Topo) => s.nodes.any (fun m => m.nid == ii && m.cls == .connectionPoint))
      if Rules.detachSkipsGone && !there2 then pure () else do
      let peers ← peersOf ii
      let pn ← mapM' findNode peers
      let sp := pn.filter (fun n => n.typ == "ServicePort")
      match sp with
      | [] => pure ()
      | [p] => do
          let _ ← parentService p.nid
          let _ ← disconnectInterface [] (.iface ii "")
          pure ()
      | _ => raise .topology))

/-- `Topology.remove_node` -/
def removeNode (name : String) : M Topo Unit := do
  let names ← listNames .networkNode (fun n => n.typ != "Facility")
  M.guard (names.contains name) .topology
  let n ← findByName .networkNode name
  let ifs ← nodeInterfaces n.nid
  detachAll ifs
  let n2 ← findByName .networkNode name
  removeNodeGraph n2.nid

/-- `Topology.remove_facility` -/
def removeFacility (name : String) : M Topo Unit := do
  let n ← findByName .networkNode name
  M.guard (n.typ == "Facility") .topology
  let ifs ← nodeInterfaces n.nid
  detachAll ifs
  let n2 ← findByName .networkNode name
  removeNodeGraph n2.nid

/-- `Topology.remove_switch` -/
def removeSwitch (name : String) : M Topo Unit := do
  let n ← findByName .networkNode name
  M.guard (n.typ == "Switch") .topology
  removeNode name

/-- `Topology.remove_link`: the link, then the ServicePorts it peered -/
def removeLink (name : String) : M Topo Unit := do
  let n ← findByName .link name
  let cps ← childrenOf n.nid [.link, .networkService] .connects .connectionPoint
  let sps := cps.filter (fun x => x.typ == "ServicePort")
  deleteNode n.nid
  forEach sps (fun sp => removeCpAndLinks sp.nid true)

/-- `Topology.remove_network_service` -/
def removeService (name : String) : M Topo Unit := do
  let n ← findByName .networkService name
  let cps ← childrenOf n.nid [.link, .networkService] .connects .connectionPoint
  detachAll (cps.map (·.nid))
  removeNs n.nid

/-- `Node.remove_network_service` -/
def nodeRemoveService (parent : Nid) (name : String) : M Topo Unit := do
  let nss ← childrenOf parent [.networkNode, .component] .has .networkService
  let ns ← need (nss.find? (fun n => n.name == name)) .query
  let cps ← childrenOf ns.nid [.link, .networkService] .connects .connectionPoint
  detachAll (cps.map (·.nid))
  removeNs ns.nid

/-- `Node.remove_component` -/
def removeComponent (parent : Nid) (name : String) : M Topo Unit := do
  let comps ← childrenOf parent [.networkNode] .has .component
  let cmp ← need (comps.find? (fun n => n.name == name)) .query
  let l ← secondNeighbors cmp.nid .has .networkService .connectionPoint
  detachAll (l.map (·.2))
  removeCompGraph cmp.nid

/-! ## properties -/

/-- `ModelElement.set_property` / `set_properties` with non-`None` values: the sliver validates, then
`update_node_properties` writes the properties (and `StitchNode`, which every sliver dict carries) -/
def setProps (nid : Nid) (props : List PropArg) : M Topo Unit := do
  let kw ← ofExcept (validateProps props)
  updateProps nid (kw ++ [("StitchNode", "false")])

/-- `ModelElement.unset_property` (graph property name already mapped; `none` = no such sliver property) -/
def unsetProp (nid : Nid) (gname : Option String) : M Topo Unit :=
  match gname with
  | none => pure ()
  | some k => do
    M.guard (!(k == "Class" || Rules.noUnset.contains k)) .query
    let n ← findNode nid
    M.guard (n.props.any (fun p => p.1 == k)) .query
    modify (fun s => { s with nodes := s.nodes.map (fun m => if m.ref == n.ref then { m with props := m.props.filter (fun p => p.1 != k) } else m) })

/-- `ModelElement.rename` -/
def rename (cls : Cls) (nid : Nid) (newName : String) : M Topo Unit := do
  M.guard (validName cls newName) .value      -- the handle's sliver class validates before the graph is read
  let n ← findNode nid
  modify (fun s => { s with nodes := s.nodes.map (fun m => if m.ref == n.ref then { m with name := newName, props := dictUpdate m.props [("StitchNode", "false")] } else m) })

/-! ## read-only views (C07 `views_exact`) -/

def viewNodes (s : Topo) : List String := (s.nodes.filter (fun n => n.cls == .networkNode && n.typ != "Facility")).map (·.name)
def viewFacilities (s : Topo) : List String := (s.nodes.filter (fun n => n.cls == .networkNode && n.typ == "Facility")).map (·.name)
def viewLinks (s : Topo) : List String := (s.nodes.filter (fun n => n.cls == .link)).map (·.name)
def viewServices (s : Topo) : List String := (s.nodes.filter (fun n => n.cls == .networkService)).map (·.name)


/-! ## the op alphabet (one constructor per request kind of the driver) and one step function -/

inductive TopoOp where
  | addNode (fl : Flavour) (c : Nat) (a : NodeArgs)
  | addComponent (fl : Flavour) (c : Nat) (parent : Nid) (a : CompArgs)
  | addStorage (fl : Flavour) (c : Nat) (parent : Nid) (name : String) (nid : Option Nid) (props : List PropArg)
  | nodeAddService (fl : Flavour) (c : Nat) (parent : Nid) (a : SvcArgs)
  | addService (fl : Flavour) (c : Nat) (a : SvcArgs)
  | addLink (fl : Flavour) (c : Nat) (name : String) (nid : Option Nid) (ltype : Option String)
      (ifs : Option (List IfArg)) (tech : Option String) (props : List PropArg)
  | nsAddInterface (fl : Flavour) (c : Nat) (svc : Nid) (cache : Cache) (name : String) (nid : Option Nid)
      (itype : Option String) (props : List PropArg)
  | nsRemoveInterface (fl : Flavour) (svc : Nid) (name : String)
  | connect (fl : Flavour) (c : Nat) (svc : Nid) (cache : Cache) (i : IfArg)
  | disconnect (cache : Cache) (i : IfArg)
  | addFacility (fl : Flavour) (c : Nat) (name : String) (nid : Option Nid) (site : Option String)
      (nstype : Option String) (nsprops : List PropArg) (ifs : Option (List (String × List PropArg))) (kw : List PropArg)
  | addSwitch (fl : Flavour) (c : Nat) (name : String) (nid : Option Nid) (site : Option String)
      (nstype : Option String) (nsprops : List PropArg) (ports : List (String × String × List PropArg))
  | removeNode (name : String)
  | removeFacility (name : String)
  | removeSwitch (name : String)
  | removeLink (name : String)
  | removeService (name : String)
  | nodeRemoveService (parent : Nid) (name : String)
  | removeComponent (parent : Nid) (name : String)
  | setProps (nid : Nid) (props : List PropArg)
  | unsetProp (nid : Nid) (gname : Option String)
  | rename (cls : Cls) (nid : Nid) (name : String)

/-- what a call hands back to the caller: the id of the created element and/or the handle's interface cache -/
structure Out where
  ret : Option Nid
  cache : Option Cache
  deriving Repr, Inhabited

def step : TopoOp → M Topo Out
  | .addNode fl c a => addNode fl c a >>= fun r => pure ⟨some r.1, none⟩
  | .addComponent fl c p a => addComponent fl c p a >>= fun r => pure ⟨some r, none⟩
  | .addStorage fl c p n i pr => addStorage fl c p n i pr >>= fun r => pure ⟨some r, none⟩
  | .nodeAddService fl c p a => nodeAddService fl c p a >>= fun r => pure ⟨some r.1, some r.2⟩
  | .addService fl c a => addService fl c a >>= fun r => pure ⟨some r.1, some r.2⟩
  | .addLink fl c n i lt ifs t p => addLink fl c n i lt ifs t p >>= fun r => pure ⟨some r.1, none⟩
  | .nsAddInterface fl c svc ca n i t p => nsAddInterface fl c svc ca n i t p >>= fun r => pure ⟨some r.1, some ca⟩
  | .nsRemoveInterface fl svc n => nsRemoveInterface fl svc n >>= fun _ => pure ⟨none, none⟩
  | .connect fl c svc ca i => connectInterface fl c svc ca i >>= fun r => pure ⟨none, some r⟩
  | .disconnect ca i => disconnectInterface ca i >>= fun r => pure ⟨none, some r⟩
  | .addFacility fl c n i s t np ifs kw => addFacility fl c n i s t np ifs kw >>= fun r => pure ⟨some r, none⟩
  | .addSwitch fl c n i s t np ports => addSwitch fl c n i s t np ports >>= fun r => pure ⟨some r, none⟩
  | .removeNode n => removeNode n >>= fun _ => pure ⟨none, none⟩
  | .removeFacility n => removeFacility n >>= fun _ => pure ⟨none, none⟩
  | .removeSwitch n => removeSwitch n >>= fun _ => pure ⟨none, none⟩
  | .removeLink n => removeLink n >>= fun _ => pure ⟨none, none⟩
  | .removeService n => removeService n >>= fun _ => pure ⟨none, none⟩
  | .nodeRemoveService p n => nodeRemoveService p n >>= fun _ => pure ⟨none, none⟩
  | .removeComponent p n => removeComponent p n >>= fun _ => pure ⟨none, none⟩
  | .setProps i p => setProps i p >>= fun _ => pure ⟨none, none⟩
  | .unsetProp i g => unsetProp i g >>= fun _ => pure ⟨none, none⟩
  | .rename c i n => rename c i n >>= fun _ => pure ⟨none, none⟩


/-! ## second alphabet: sub-interfaces, peering, port mirroring, `model_type=` components

Kept apart from `TopoOp` (its own inductive `XOp` and `stepX`) so that everything stated over `TopoOp` stays as it is. -/

/-- `i.labels.vlan` of a cached child handle: the `Labels` graph property decoded through the table the request
carries (decoding JSON is the sliver codec's business, C02/C03; only truthy vlans are listed) -/
def vlanOfNode (tbl : List (String × String)) (n : GNode) : Option String :=
  match lookupD n.props "Labels" with
  | none => none
  | some js => lookupD tbl js

/-- `Interface.add_child_interface`; `vlan` = `kwargs['labels'].vlan` when both are truthy; returns id and extended cache -/
def addChildInterface (fl : Flavour) (c : Nat) (port : Nid) (cache : Cache) (name : String) (nid : Option Nid)
    (vlan : Option String) (vlanTbl : List (String × String)) (props : List PropArg) : M Topo (Nid × Cache) := do
  let p ← findNode port
  M.guard (p.typ == "DedicatedPort") .assertion
  M.guard (!(cache.map (·.1)).contains name) .topology
  let v ← need vlan .topology
  let used ← filterMapM' (fun (x : String × Nid) => do let n ← findNode x.2; pure (vlanOfNode vlanTbl n)) cache
  M.guard (!used.contains v) .topology
  let p2 ← findNode port
  M.guard (p2.props.any (fun q => q.1 == "Labels")) .topology
  let r ← ifaceNew fl c name nid (some port) (some "SubInterface") props
  pure (r.1, cache ++ [(name, r.1)])

/-- `Interface.remove_child_interface`; returns the filtered cache -/
def removeChildInterface (port : Nid) (cache : Cache) (name : String) : M Topo Cache := do
  let p ← findNode port
  M.guard (p.typ == "DedicatedPort") .assertion
  let kids ← childrenOf port [.connectionPoint] .connects .connectionPoint
  let k ← need (kids.find? (fun n => n.name == name)) .query
  detachAll [k.nid]
  removeCpAndLinks k.nid false
  pure (cache.filter (fun x => x.2 != k.nid))

/-- the other service handle of `peer` / `unpeer`: node id, cached name, interface cache -/
structure SvcHandle where
  nid : Nid
  name : String
  cache : Cache
  deriving Repr, Inhabited

/-- `NetworkService.peer`; `other = none` stands for an object that is not a NetworkService.  With
`Rules.peerRollback` the ServicePorts created so far are removed when a later step raises.  Returns both caches. -/
def peer (fl : Flavour) (c : Nat) (svc : Nid) (sname : String) (cache : Cache) (other : Option SvcHandle)
    (props : List PropArg) : M Topo (Cache × Cache) :=
  match other with
  | none => raise .assertion
  | some o => do
    let n1 := sname ++ "-" ++ o.name
    let n2 := o.name ++ "-" ++ sname
    let r1 ← nsAddInterface fl c svc cache n1 none (some "ServicePort") props
    let undo (l : List Nid) (e : Err) : M Topo (Nid × Nat) :=
      if Rules.peerRollback then do forEach l (fun i => removeCpAndLinks i true); raise e else raise e
    let r2 ← tryCatch (nsAddInterface fl r1.2 o.nid o.cache n2 none (some "ServicePort") []) (fun _ => true) (undo [r1.1])
    let _ ← tryCatch (linkNew fl r2.2 (n1 ++ "-link") none (some "L2Path") (some [.iface r1.1 n1, .iface r2.1 n2]) none [])
      (fun _ => true) (undo [r1.1, r2.1])
    pure (cache ++ [(n1, r1.1)], o.cache ++ [(n2, r2.1)])

/-- the search loop of `unpeer`: the first own ServicePort one of whose ServicePort peers belongs to the other service -/
def findPeering (otherIds : List Nid) : Cache → M Topo (Option (Nid × Nid))
  | [] => pure none
  | (_, own) :: rest => do
    let t ← typeOf own
    if t != "ServicePort" then findPeering otherIds rest else do
      let peers ← peersOf own
      let pn ← mapM' findNode peers
      match pn.filter (fun n => n.typ == "ServicePort" && otherIds.contains n.nid) with
      | p :: _ => pure (some (own, p.nid))
      | [] => findPeering otherIds rest

/-- `NetworkService.unpeer`; returns both filtered caches -/
def unpeer (cache : Cache) (other : Option SvcHandle) : M Topo (Cache × Cache) :=
  match other with
  | none => raise .assertion
  | some o => do
    let sp ← findPeering (o.cache.map (·.2)) cache
    let (a, b) ← need sp .topology
    removeCpAndLinks a true
    removeCpAndLinks b true
    pure (cache.filter (fun x => x.2 != a), o.cache.filter (fun x => x.2 != b))

/-- `ExperimentTopology.add_port_mirror_service`: the two assertions, then `NetworkService(nstype=PortMirror,
interfaces=[to_interface], mirror_port=…, mirror_vlan=…, mirror_direction=…, **kwargs)` (the keywords are `a.props`) -/
def addPortMirror (fl : Flavour) (c : Nat) (a : SvcArgs) (toOk fromOk : Bool) : M Topo (Nid × Cache) := do
  M.guard toOk .assertion
  M.guard fromOk .assertion
  svcNew fl c none a

/-- `Component(..., etype=NEW, comp_model=mt)`: `mt` = (Model, Type) of the `ComponentModelTypeMap` entry, which
`generate_component` uses instead of `model` / `ctype`; the substrate guard still looks at `ctype` only -/
def compNewMT (fl : Flavour) (c : Nat) (parent : Nid) (a : CompArgs) (mt : String × String) : M Topo Nid := do
  M.guard (!(fl == .substrate && a.nid.isNone)) .topology
  let (id, c1) := pick a.nid c
  let ctypeArg := a.ctype.getD ""
  M.guard (!(fl == .substrate && (ctypeArg == "SharedNIC" || ctypeArg == "SmartNIC") &&
    (a.nsNid.isNone || a.ifNids.isNone || a.nLabels.isNone))) .topology
  let p ← findNode parent
  let e ← need (catalogFind mt.1 mt.2) (.named "catalog")
  M.guard (validName .component a.name) .value
  if e.hasIfaces then
    match a.ifNids with
    | some l => do
        M.guard (l.length == e.ifaces.length) .runtime
        match a.nLabels with
        | some n => M.guard (n == e.ifaces.length) .runtime
        | none => raise .typ
    | none => pure ()
  else pure ()
  let (ifIds, c2) := if e.hasIfaces then ifaceIds a.ifNids e.ifaces.length c1 else ([], c1)
  let (nsId, _) := if e.hasIfaces then pick a.nsNid c2 else (id, c2)
  let kw ← ofExcept (validateProps a.props)
  addGNode ⟨.component, id, a.name, e.ctype, dictUpdate [("Model", e.model), ("Details", e.details), ("StitchNode", "false")] kw⟩
  compGuard id (do
    addEdge parent .has id
    if e.hasIfaces then do
      addGNode ⟨.networkService, nsId, p.name ++ "-" ++ a.name ++ e.nsSuffix, e.nsType, [("StitchNode", "false"), ("Layer", "L2")]⟩
      addEdge id .has nsId
      forEach (e.ifaces.zip ifIds) (fun (ci, iid) => do
        addGNode ⟨.connectionPoint, iid, a.name ++ "-" ++ ci.port, ci.itype, ci.props⟩
        addEdge nsId .connects iid)
    else pure ())
  pure id

/-- `Node.add_component(model_type=…)` -/
def addComponentMT (fl : Flavour) (c : Nat) (parent : Nid) (a : CompArgs) (mt : String × String) : M Topo Nid := do
  let comps ← childrenOf parent [.networkNode] .has .component
  M.guard (!(comps.map (·.name)).contains a.name) .topology
  compNewMT fl c parent a mt

def existsAs (x : Nid) (c : Cls) : M Topo Bool := read (fun s => s.nodes.any (fun m => m.nid == x && m.cls == c))

/-- `ExperimentTopology.prune` once the marked elements are collected (the four sets in the order the call iterates them:
node names, components as (id, name, id of the node), services, interfaces): nodes first, then what is still present of the
components, the services (looked up afresh), the interfaces -/
def prune (nodes : List String) (comps : List (Nid × String × Nid)) (nss : List Nid) (ifs : List Nid) : M Topo Unit := do
  forEach nodes removeNode
  forEach comps (fun x => do
    let there ← existsAs x.1 .component
    if there then removeComponent x.2.2 x.2.1 else pure ())
  forEach nss (fun ns => do
    let there ← existsAs ns .networkService
    if there then do
      let cps ← childrenOf ns [.link, .networkService] .connects .connectionPoint
      detachAll (cps.map (·.nid))
      removeNs ns
    else pure ())
  forEach ifs (fun i => do
    let there ← existsAs i .connectionPoint
    if there then do
      detachAll [i]
      removeCpAndLinks i true
    else pure ())

inductive XOp where
  | addChildInterface (fl : Flavour) (c : Nat) (port : Nid) (cache : Cache) (name : String) (nid : Option Nid)
      (vlan : Option String) (vlanTbl : List (String × String)) (props : List PropArg)
  | removeChildInterface (port : Nid) (cache : Cache) (name : String)
  | peer (fl : Flavour) (c : Nat) (svc : Nid) (sname : String) (cache : Cache) (other : Option SvcHandle) (props : List PropArg)
  | unpeer (cache : Cache) (other : Option SvcHandle)
  | addPortMirror (fl : Flavour) (c : Nat) (a : SvcArgs) (toOk fromOk : Bool)
  | addComponentMT (fl : Flavour) (c : Nat) (parent : Nid) (a : CompArgs) (mt : String × String)
  | prune (nodes : List String) (comps : List (Nid × String × Nid)) (nss : List Nid) (ifs : List Nid)

/-- as `Out`, with the cache of the second handle a call may extend (`peer` / `unpeer`) -/
structure OutX where
  ret : Option Nid
  cache : Option Cache
  cache2 : Option Cache
  deriving Repr, Inhabited

def stepX : XOp → M Topo OutX
  | .addChildInterface fl c p ca n i v tb pr => addChildInterface fl c p ca n i v tb pr >>= fun r => pure ⟨some r.1, some r.2, none⟩
  | .removeChildInterface p ca n => removeChildInterface p ca n >>= fun r => pure ⟨none, some r, none⟩
  | .peer fl c svc sn ca o pr => peer fl c svc sn ca o pr >>= fun r => pure ⟨none, some r.1, some r.2⟩
  | .unpeer ca o => unpeer ca o >>= fun r => pure ⟨none, some r.1, some r.2⟩
  | .addPortMirror fl c a t f => addPortMirror fl c a t f >>= fun r => pure ⟨some r.1, some r.2, none⟩
  | .addComponentMT fl c p a mt => addComponentMT fl c p a mt >>= fun r => pure ⟨some r, none, none⟩
  | .prune ns cs ss is => prune ns cs ss is >>= fun _ => pure ⟨none, none, none⟩

end FimVerif.Topo
