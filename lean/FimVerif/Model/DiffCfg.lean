/-!
# What is regular in the sliver `diff` methods (C17) — the types of the extracted table

`gen/diffcfg.py` reads `fim/slivers/{base_sliver,network_node,network_service,interface_info,topology_diff}.py` and writes
`Generated/DiffCfg.lean : Cfg`.  `Model/Diff.lean` interprets a `Cfg` (`propDiffC`, `ifaceDiffC`, `svcDiffC`, `nodeDiffC`),
the driver runs the interpreter on the generated table, and `Proofs/C17.lean` proves that for every table satisfying the
decidable predicate `Cfg.Good` (checked of the generated one by `decide`) the interpreter is the model the theorems are about.
-/
namespace FimVerif.Diff

/-- a tracked property of a sliver: `get_labels()`, `get_capacities()`, `get_user_data()` -/
inductive PropK where
  | labels | caps | ud
deriving DecidableEq, Repr

/-- members of `WhatsModifiedFlag` (without NONE) -/
inductive FlagK where
  | labels | caps | ud | sub
deriving DecidableEq, Repr

/-- `self` (old) or `other_sliver` (new) -/
inductive Side where
  | self | other
deriving DecidableEq, Repr

/-- fields of `TopologyDiffTuple` / `TopologyDiffModifiedTuple` -/
inductive Slot where
  | nodes | components | services | interfaces
deriving DecidableEq, Repr

/-- the three parts of a `TopologyDiff` -/
inductive Sect where
  | added | removed | modified
deriving DecidableEq, Repr

/-- the child dictionaries: `attached_components_info.devices`, `network_service_info.network_services`,
    `interface_info.interfaces` -/
inductive Coll where
  | comps | svcs | ifs
deriving DecidableEq, Repr

/-- the collections a `diff` method builds before it assembles its result -/
inductive Part where
  | selfMod
  | added (c : Coll)
  | removed (c : Coll)
  | modified (c : Coll)
deriving DecidableEq, Repr

/-- the two sub-dictionaries `_dict_diff` returns -/
inductive DKey where
  | added | removed
deriving DecidableEq, Repr

/-- the descent below an element present on both sides:
    `if <side>.get_type() in kinds: … flag |= <flag>`.  For components the test is "the `diff` of the first network services
    of both sides is not None" (`tests = []`); for interfaces "`iA.diff(iB)` is not None and one of the `tests` slots of it
    is non-empty". -/
structure RecCfg where
  kinds : List String
  side : Side
  flag : FlagK
  tests : List (Sect × Slot)
deriving DecidableEq, Repr

/-- one child dictionary compared by a `diff` method -/
structure LevelCfg where
  coll : Coll
  /-- attribute of a child the dictionary is keyed by (`add_*`) and looked up by (`get_*(xA.<key>)`) -/
  key : String
  /-- `_dict_diff(<diffA>.dict, <diffB>.dict)` -/
  diffA : Side
  diffB : Side
  /-- the sub-dictionary the `added` / `removed` collection is taken from -/
  addedKey : DKey
  removedKey : DKey
  /-- `_dict_common(<commonA>.dict, <commonB>.dict)` -/
  commonA : Side
  commonB : Side
  /-- the side the partner of a common element is fetched from -/
  lookup : Side
  /-- `if not self.info and other.info: added = all of other` -/
  onlyOther : Bool
  /-- `if self.info and not other.info: removed = all of self` -/
  onlySelf : Bool
  descend : Option RecCfg
deriving DecidableEq, Repr

/-- one `diff` method -/
structure MethodCfg where
  levels : List LevelCfg
  /-- the collections whose non-emptiness makes the method return a `TopologyDiff` rather than `None` -/
  cond : List Part
  /-- what is put into which field of the result -/
  added : List (Slot × Part)
  removed : List (Slot × Part)
  modified : List (Slot × Part)
deriving DecidableEq, Repr

/-- the equality of the values `prop_diff` compares (`fim/slivers/capacities_labels.py`, `fim/slivers/json_data.py`) -/
structure ValCfg where
  /-- `Labels.__eq__` compares a field with `other.__dict__.get(f)` (`none`) or `.get(f, n)` (`some n`) -/
  labelsMissing : Option Int
  /-- the same for `Capacities.__eq__` -/
  capsMissing : Option Int
  /-- `JSONField`, `Labels`, `Capacities` define neither `__bool__` nor `__len__`: the `if not other: return False` that opens
      their `__eq__` is a `None` test -/
  notOtherIsNone : Bool
  /-- `JSONData.__eq__` requires `self.__class__ is other.__class__` -/
  udSameClass : Bool
  /-- … and compares `_canonical()` = `json.dumps(json.loads(self._data), sort_keys=True)` of both sides -/
  udCanonicalText : Bool
deriving DecidableEq, Repr

structure Cfg where
  /-- `prop_diff`: (property compared, flag raised), in source order -/
  props : List (PropK × FlagK)
  /-- integer values of the members of `WhatsModifiedFlag` -/
  flagVal : List (FlagK × Nat)
  /-- the `*Info` classes define neither `__bool__` nor `__len__`: `if self.x_info` tests presence -/
  infoPresence : Bool
  /-- every `diff` starts with `super().diff(other_sliver)` and the abstract `BaseSliver.diff` is
      `assert isinstance(self, other_sliver.__class__)`: slivers of unrelated classes are never compared -/
  classGuard : Bool
  /-- `BaseSliver._dict_diff` and `_dict_common` select children by dictionary KEY alone: each result is a comprehension
      `{k: d[k] for k in set(dict_a) <-, &> set(dict_b)}` with no further condition - in particular none on the slivers stored
      under the key (their `node_id`, their weak `__eq__`).  With it every key of either side is in exactly one of
      removed / common / added (`Proofs/C17.dict_partition_by_key`); a value-dependent filter in one of the two helpers lets a
      child whose key is on both sides drop out of the comparison altogether (C17-r4-1) -/
  dictKeyOnly : Bool
  vals : ValCfg
  node : MethodCfg
  svc : MethodCfg
  iface : MethodCfg
deriving DecidableEq, Repr

def MethodCfg.level (m : MethodCfg) (c : Coll) : Option LevelCfg := m.levels.find? (fun l => l.coll = c)

def slotParts (l : List (Slot × Part)) (s : Slot) : List Part := (l.filter (fun e => e.1 = s)).map (·.2)

/-- kinds of a common element below which the method descends (`[]` when it never does) -/
def MethodCfg.recKinds (m : MethodCfg) (c : Coll) : List String :=
  match m.level c with
  | some l => match l.descend with | some r => r.kinds | none => []
  | none => []

end FimVerif.Diff
