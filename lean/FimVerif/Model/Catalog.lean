import FimVerif.Generated.Catalog
/-!
# Instance sizing and component catalogue (C18)

`pick` mirrors `InstanceCatalog.map_capacities_to_instance`: filter the catalogue values in file
order with the (generated) predicate `fits`, take the head of `candidates.sort()`, map it back to
the first key whose capacities are equal (`keys[values.index(candidates[0])]`), and fall back to the
last key when nothing fits.

CPython's `list.sort` under `Capacities.__lt__` (componentwise `≤`, a reflexive partial order, not a
strict weak order) is *modelled* by `sortHead`: a running head that is replaced by every later
element that is `≤` it.  That model is validated on every run against the implementation for every
threshold class of the current catalogue (see harness/props/c18.py); it is part of the trusted base.
-/
namespace FimVerif.Catalog
open FimVerif.Gen.Catalog

/-- `Capacities.__lt__` restricted to the three fields catalogue entries and requests differ in -/
def le3 (a b : Size) : Bool := decide (a.core ≤ b.core) && decide (a.ram ≤ b.ram) && decide (a.disk ≤ b.disk)

/-- modelled head of `candidates.sort()` for `candidates = c :: cs` -/
def sortHead (c : Size) (cs : List Size) : Size := cs.foldl (fun h p => if le3 p h then p else h) c

/-- `keys[values.index(h)]` -/
def nameOf (cat : List (String × Size)) (h : Size) : Option String :=
  (cat.find? (fun e => e.2 == h)).map (·.1)

def candidates (cat : List (String × Size)) (req : Size) : List Size :=
  (cat.map (·.2)).filter (fun e => fits e req)

def pick (cat : List (String × Size)) (req : Size) : Option String :=
  match candidates cat req with
  | [] => cat.getLast?.map (·.1)
  | c :: cs => nameOf cat (sortHead c cs)

/-- `get_instance_capacities` (a dict lookup by name) -/
def capsOf (cat : List (String × Size)) (n : String) : Option Size :=
  (cat.find? (fun e => e.1 == n)).map (·.2)

/-! ## Components -/

/-- the loop condition of `generate_component` for one catalogue entry -/
def entryMatches (c : CEntry) (model type : String) : Bool :=
  (model == c.model && type == c.type) || (c.also.contains model && type == c.type)

def lookup (cat : List CEntry) (model type : String) : Option CEntry :=
  cat.find? (fun c => entryMatches c model type)

/-- what the caller may pass for one interface's labels (only what influences the result) -/
inductive Bdf where
  | none                       -- no labels, or labels without bdf
  | scalar (len : Nat)         -- a single string of that length
  | list (n : Nat)             -- a list of n strings
deriving DecidableEq, Repr

structure GIface where
  name : String
  kind : String                -- "DedicatedPort" | "SharedPort" | "" (unset)
  bw : Nat                     -- 0 = not set
  units : Nat
  nodeId : Option String       -- none = library-generated
  localNames : List String     -- local_name label (scalar = singleton)
  localIsList : Bool
  labelIdx : Option Nat        -- which caller label object landed here
deriving DecidableEq, Repr

structure GComp where
  model : String
  type : String
  details : String
  nsName : Option String
  nsType : Option String
  nsId : Option String
  ifaces : List GIface
deriving DecidableEq, Repr

def unitsOf (b : Bdf) : Nat :=
  match b with
  | .none => 1
  | .scalar len => if unitsOnlyFromList then 1 else len
  | .list n => n

def portKind (type : String) : String :=
  if dedicatedTypes.contains type then "DedicatedPort"
  else if sharedTypes.contains type then "SharedPort" else ""

def genIfaces (e : CEntry) (name : String) (ids : Option (List String)) (labels : Option (List Bdf)) :
    List GIface :=
  e.ifaces.zipIdx.map fun (p, i) =>
    let b : Bdf := match labels with
      | some ls => ls.getD i .none
      | none => .none
    { name := name ++ "-" ++ p.1
      kind := portKind e.type
      bw := if sharedTypes.contains e.type then 0 else p.2
      units := unitsOf b
      nodeId := match ids with
        | some l => l[i]?
        | none => none
      localNames := match b with
        | .list n => List.replicate n p.1
        | _ => [p.1]
      localIsList := match b with
        | .list _ => true
        | _ => false
      labelIdx := match labels with
        | some _ => some i
        | none => none }

inductive GErr where
  | notFound | runtime | type | index
deriving DecidableEq, Repr

/-- `generate_component` after the type/model strings are resolved -/
def generate (cat : List CEntry) (name model type : String) (nsId : Option String)
    (ids : Option (List String)) (labels : Option (List Bdf)) (parent : Option String) : Except GErr GComp :=
  match lookup cat model type with
  | none => .error .notFound
  | some e =>
    if !e.hasIfaces then
      .ok { model := e.model, type := e.type, details := e.details, nsName := none, nsType := none, nsId := none, ifaces := [] }
    else
      let n := e.ifaces.length
      match ids, labels with
      | some l, none => if l.length != n then .error .runtime else .error .type   -- len(None)
      | some l, some ls =>
        if l.length != n then .error .runtime
        else if ls.length != n then .error .runtime
        else .ok (mk e (some l) (some ls))
      | none, some ls => if ls.length < n then .error .index else .ok (mk e none (some ls))   -- interface_labels[id_index]
      | none, none => .ok (mk e none none)
where
  mk (e : CEntry) (ids : Option (List String)) (labels : Option (List Bdf)) : GComp :=
    let fpga := e.type == "FPGA"
    let suffix := if fpga then fpgaSuffix else otherSuffix
    { model := e.model, type := e.type, details := e.details
      nsName := some (match parent with
        | some p => p ++ "-" ++ name ++ suffix
        | none => name ++ suffix)
      nsType := some (if fpga then fpgaNsType else otherNsType)
      nsId := nsId
      ifaces := genIfaces e name ids labels }

/-- `__massage_name` -/
def massage (s : String) : String := String.ofList (s.toList.map fun c => if c == ' ' || c == '-' then '_' else c)

def enumNames (cat : List CEntry) : List String := cat.map fun c => massage c.type ++ "_" ++ massage c.model

end FimVerif.Catalog
