import FimVerif.Generated.Catalog
/-!
# Instance sizing and component catalogue (C18)

`pick` mirrors `InstanceCatalog.map_capacities_to_instance`: filter the catalogue values in file
order with the (generated) predicate `fits`, take the head of `candidates.sort()`, map it back to
the first key whose capacities are equal (`keys[values.index(candidates[0])]`), and fall back to the
last key when nothing fits.

CPython's `list.sort` under `Capacities.__lt__` (componentwise `≤`, a reflexive partial order, not a
strict weak order) is *modelled* by `sortHead`: a running head that is replaced by every later
element that is `≤` it.  That model is validated on every run against the implementation for every
threshold class of the current catalogue (see harness/props/c18.py); it is part of the trusted base.
-/
namespace FimVerif.Catalog
open FimVerif.Gen.Catalog

/-- `Capacities.__lt__` restricted to the three fields catalogue entries and requests differ in -/
def le3 (a b : Size) : Bool := decide (a.core ≤ b.core) && decide (a.ram ≤ b.ram) && decide (a.disk ≤ b.disk)

/-- modelled head of `candidates.sort()` for `candidates = c :: cs` -/
def sortHead (c : Size) (cs : List Size) : Size := cs.foldl (fun h p => if le3 p h then p else h) c

/-- `keys[values.index(h)]` -/
def nameOf (cat : List (String × Size)) (h : Size) : Option String :=
  (cat.find? (fun e => e.2 == h)).map (·.1)

def candidates (cat : List (String × Size)) (req : Size) : List Size :=
  (cat.map (·.2)).filter (fun e => fits e req)

def pick (cat : List (String × Size)) (req : Size) : Option String :=
  match candidates cat req with
  | [] => cat.getLast?.map (·.1)
  | c :: cs => nameOf cat (sortHead c cs)

/-- `get_instance_capacities` (a dict lookup by name) -/
def capsOf (cat : List (String × Size)) (n : String) : Option Size :=
  (cat.find? (fun e => e.1 == n)).map (·.2)

/-! ## Components -/

/-- the loop condition of `generate_component` for one catalogue entry -/
def entryMatches (c : CEntry) (model type : String) : Bool :=
  (model == c.model && type == c.type) || (c.also.contains model && type == c.type)

def lookup (cat : List CEntry) (model type : String) : Option CEntry :=
  cat.find? (fun c => entryMatches c model type)

/-- what the caller may pass for one interface's labels (only what influences the result) -/
inductive Bdf where
  | none                       -- no labels, or labels without bdf
  | scalar (len : Nat)         -- a single string of that length
  | list (n : Nat)             -- a list of n strings
deriving DecidableEq, Repr

structure GIface where
  name : String
  kind : String                -- "DedicatedPort" | "SharedPort" | "" (unset)
  bw : Nat                     -- 0 = not set
  units : Nat
  nodeId : Option String       -- none = library-generated
  localNames : List String     -- local_name label (scalar = singleton)
  localIsList : Bool
  labelIdx : Option Nat        -- which caller label object landed here
deriving DecidableEq, Repr

structure GComp where
  model : String
  type : String
  details : String
  nsName : Option String
  nsType : Option String
  nsId : Option String
  ifaces : List GIface
deriving DecidableEq, Repr

def unitsOf (b : Bdf) : Nat :=
  match b with
  | .none => 1
  | .scalar len => if unitsOnlyFromList then 1 else len
  | .list n => n

/-- the row of the generated per-type table (every `ComponentType` has one; anything else gets neutral values) -/
def rowOf (type : String) : TypeRow :=
  match typeTable.find? (fun r => r.type == type) with
  | some r => r
  | none => { type := type, suffix := "", nsType := "", kind := "", speed := true }

def portKind (type : String) : String := (rowOf type).kind

/-- the speed a port gets: the catalogued one, or none (0) for the types whose row says so (shared NICs) -/
def portBw (type : String) (speed : Nat) : Nat := if (rowOf type).speed then speed else 0

def genIfaces (e : CEntry) (name : String) (ids : Option (List String)) (labels : Option (List Bdf)) :
    List GIface :=
  e.ifaces.zipIdx.map fun (p, i) =>
    let b : Bdf := match labels with
      | some ls => ls.getD i .none
      | none => .none
    { name := name ++ ifaceSep ++ p.1
      kind := portKind e.type
      bw := portBw e.type p.2
      units := unitsOf b
      nodeId := match ids with
        | some l => l[i]?
        | none => none
      localNames := match b with
        | .list n => List.replicate n p.1
        | _ => [p.1]
      localIsList := match b with
        | .list _ => true
        | _ => false
      labelIdx := match labels with
        | some _ => some i
        | none => none }

inductive GErr where
  | notFound | runtime | type | index
deriving DecidableEq, Repr

/-- name of the network service inside a component: `[<parent><sep>]<name><suffix>` -/
def svcName (parent : Option String) (name suffix : String) : String :=
  match parent with
  | some p => p ++ parentSep ++ name ++ suffix
  | none => name ++ suffix

/-- `generate_component` after the type/model strings are resolved -/
def generate (cat : List CEntry) (name model type : String) (nsId : Option String)
    (ids : Option (List String)) (labels : Option (List Bdf)) (parent : Option String) : Except GErr GComp :=
  match lookup cat model type with
  | none => .error .notFound
  | some e =>
    if !e.hasIfaces then
      .ok { model := e.model, type := e.type, details := e.details, nsName := none, nsType := none, nsId := none, ifaces := [] }
    else
      let n := e.ifaces.length
      match ids, labels with
      | some l, none => if l.length != n then .error .runtime else .error .type   -- len(None)
      | some l, some ls =>
        if l.length != n then .error .runtime
        else if ls.length != n then .error .runtime
        else .ok (mk e (some l) (some ls))
      | none, some ls => if ls.length < n then .error .index else .ok (mk e none (some ls))   -- interface_labels[id_index]
      | none, none => .ok (mk e none none)
where
  mk (e : CEntry) (ids : Option (List String)) (labels : Option (List Bdf)) : GComp :=
    let row := rowOf e.type
    { model := e.model, type := e.type, details := e.details
      nsName := some (svcName parent name row.suffix)
      nsType := some row.nsType
      nsId := nsId
      ifaces := genIfaces e name ids labels }

/-! ### object identity: what the library allocates for a generated component

A generated component belongs to its caller.  The mutable objects the library creates for it - the component sliver, and for
an entry with interfaces the service info, the service, the interface info and per interface the interface sliver, its
capacities and (unless the caller supplied the label object) its labels - are numbered in allocation order.  The translator
probes whether two generations share any of them (`freshObjects`); a cache or a shared default would hand out the same ids again. -/

def objCount (e : CEntry) (labels : Option (List Bdf)) : Nat :=
  if e.hasIfaces then 4 + e.ifaces.length * (match labels with | some _ => 2 | none => 3) else 1

def allocObjs (next : Nat) (n : Nat) : List Nat :=
  if freshObjects then List.range' next n else List.range' 0 n

/-- object ids of the components generated one after the other in a session (failed generations allocate nothing that survives) -/
def sessionObjs (cat : List CEntry) (next : Nat) :
    List (String × String × Option (List String) × Option (List Bdf)) → List (List Nat)
  | [] => []
  | (model, type, ids, labels) :: rest =>
    match generate cat "nm" model type none ids labels none with
    | .ok _ =>
      match lookup cat model type with
      | some e => allocObjs next (objCount e labels) :: sessionObjs cat (next + objCount e labels) rest
      | none => sessionObjs cat next rest
    | .error _ => sessionObjs cat next rest

/-- `__massage_name` -/
def massage (s : String) : String := String.ofList (s.toList.map fun c => if c == ' ' || c == '-' then '_' else c)

def enumNames (cat : List CEntry) : List String := cat.map fun c => massage c.type ++ "_" ++ massage c.model

end FimVerif.Catalog
