import FimVerif.Generated.Catalog
/-!
# Instance sizing and component catalogue (C18)

`pick` mirrors `InstanceCatalog.map_capacities_to_instance`: filter the catalogue values in file
order with the (generated) predicate `fits`, take the head of `candidates.sort()`, map it back to
the first key whose capacities are equal (`keys[values.index(candidates[0])]`), and fall back to the
last key when nothing fits.

CPython's `list.sort` under `Capacities.__lt__` (componentwise `≤`, a reflexive partial order, not a
strict weak order) is *modelled* by `sortHead`: a running head that is replaced by every later
element that is `≤` it.  That model is validated on every run against the implementation for every
threshold class of the current catalogue (see harness/props/c18.py); it is part of the trusted base.
-/
namespace FimVerif.Catalog
open FimVerif.Gen.Catalog

/-- `Capacities.__lt__` restricted to the three fields catalogue entries and requests differ in -/
def le3 (a b : Size) : Bool := decide (a.core ≤ b.core) && decide (a.ram ≤ b.ram) && decide (a.disk ≤ b.disk)

/-- modelled head of `candidates.sort()` for `candidates = c :: cs` -/
def sortHead (c : Size) (cs : List Size) : Size := cs.foldl (fun h p => if le3 p h then p else h) c

/-- `keys[values.index(h)]` -/
def nameOf (cat : List (String × Size)) (h : Size) : Option String :=
  (cat.find? (fun e => e.2 == h)).map (·.1)

def candidates (cat : List (String × Size)) (req : Size) : List Size :=
  (cat.map (·.2)).filter (fun e => fits e req)

def pick (cat : List (String × Size)) (req : Size) : Option String :=
  match candidates cat req with
  | [] => cat.getLast?.map (·.1)
  | c :: cs => nameOf cat (sortHead c cs)

/-- `get_instance_capacities` (a dict lookup by name) -/
def capsOf (cat : List (String × Size)) (n : String) : Option Size :=
  (cat.find? (fun e => e.1 == n)).map (·.2)

/-! ## Components -/

/-- the loop condition of `generate_component` for one catalogue entry -/
def entryMatches (c : CEntry) (model type : String) : Bool :=
  (model == c.model && type == c.type) || (c.also.contains model && type == c.type)

def lookup (cat : List CEntry) (model type : String) : Option CEntry :=
  cat.find? (fun c => entryMatches c model type)

/-- what the caller may pass for one interface's labels (only what influences the result) -/
inductive Bdf where
  | none                       -- no labels, or labels without bdf
  | scalar (len : Nat)         -- a single string of that length
  | list (n : Nat)             -- a list of n strings
deriving DecidableEq, Repr

structure GIface where
  name : String
  kind : String                -- "DedicatedPort" | "SharedPort" | "" (unset)
  bw : Nat                     -- 0 = not set
  units : Nat
  nodeId : Option String       -- none = library-generated
  localNames : List String     -- local_name label (scalar = singleton)
  localIsList : Bool
  labelIdx : Option Nat        -- which caller label object landed here
deriving DecidableEq, Repr

structure GComp where
  model : String
  type : String
  details : String
  nsName : Option String
  nsType : Option String
  nsId : Option String
  ifaces : List GIface
deriving DecidableEq, Repr

def unitsOf (b : Bdf) : Nat :=
  match b with
  | .none => 1
  | .scalar len => if unitsOnlyFromList then 1 else len
  | .list n => n

/-- the row of the generated per-type table (every `ComponentType` has one; anything else gets neutral values) -/
def rowOf (type : String) : TypeRow :=
  match typeTable.find? (fun r => r.type == type) with
  | some r => r
  | none => { type := type, suffix := "", nsType := "", kind := "", speed := true }

def portKind (type : String) : String := (rowOf type).kind

/-- the speed a port gets: the catalogued one, or none (0) for the types whose row says so (shared NICs) -/
def portBw (type : String) (speed : Nat) : Nat := if (rowOf type).speed then speed else 0

def genIfaces (e : CEntry) (name : String) (ids : Option (List String)) (labels : Option (List Bdf)) :
    List GIface :=
  e.ifaces.zipIdx.map fun (p, i) =>
    let b : Bdf := match labels with
      | some ls => ls.getD i .none
      | none => .none
    { name := name ++ ifaceSep ++ p.1
      kind := portKind e.type
      bw := portBw e.type p.2
      units := unitsOf b
      nodeId := match ids with
        | some l => l[i]?
        | none => none
      localNames := match b with
        | .list n => List.replicate n p.1
        | _ => [p.1]
      localIsList := match b with
        | .list _ => true
        | _ => false
      labelIdx := match labels with
        | some _ => some i
        | none => none }

inductive GErr where
  | notFound | runtime | type | index
deriving DecidableEq, Repr

/-- name of the network service inside a component: `[<parent><sep>]<name><suffix>` -/
def svcName (parent : Option String) (name suffix : String) : String :=
  match parent with
  | some p => p ++ parentSep ++ name ++ suffix
  | none => name ++ suffix

/-- `generate_component` after the type/model strings are resolved -/
def generate (cat : List CEntry) (name model type : String) (nsId : Option String)
    (ids : Option (List String)) (labels : Option (List Bdf)) (parent : Option String) : Except GErr GComp :=
  match lookup cat model type with
  | none => .error .notFound
  | some e =>
    if !e.hasIfaces then
      .ok { model := e.model, type := e.type, details := e.details, nsName := none, nsType := none, nsId := none, ifaces := [] }
    else
      let n := e.ifaces.length
      match ids, labels with
      | some l, none => if l.length != n then .error .runtime else .error .type   -- len(None)
      | some l, some ls =>
        if l.length != n then .error .runtime
        else if ls.length != n then .error .runtime
        else .ok (mk e (some l) (some ls))
      | none, some ls => if ls.length < n then .error .index else .ok (mk e none (some ls))   -- interface_labels[id_index]
      | none, none => .ok (mk e none none)
where
  mk (e : CEntry) (ids : Option (List String)) (labels : Option (List Bdf)) : GComp :=
    let row := rowOf e.type
    { model := e.model, type := e.type, details := e.details
      nsName := some (svcName parent name row.suffix)
      nsType := some row.nsType
      nsId := nsId
      ifaces := genIfaces e name ids labels }

/-! ### object identity: what the library allocates for a generated component

A generated component belongs to its caller.  The mutable objects the library creates for it - the component sliver, and for
an entry with interfaces the service info, the service, the interface info and per interface the interface sliver, its
capacities and (unless the caller supplied the label object) its labels - are numbered in allocation order.  The translator
probes whether two generations share any of them (`freshObjects`); a cache or a shared default would hand out the same ids again. -/

def objCount (e : CEntry) (labels : Option (List Bdf)) : Nat :=
  if e.hasIfaces then 4 + e.ifaces.length * (match labels with | some _ => 2 | none => 3) else 1

def allocObjs (next : Nat) (n : Nat) : List Nat :=
  if freshObjects then List.range' next n else List.range' 0 n

/-- object ids of the components generated one after the other in a session (failed generations allocate nothing that survives) -/
def sessionObjs (cat : List CEntry) (next : Nat) :
    List (String × String × Option (List String) × Option (List Bdf)) → List (List Nat)
  | [] => []
  | (model, type, ids, labels) :: rest =>
    match generate cat "nm" model type none ids labels none with
    | .ok _ =>
      match lookup cat model type with
      | some e => allocObjs next (objCount e labels) :: sessionObjs cat (next + objCount e labels) rest
      | none => sessionObjs cat next rest
    | .error _ => sessionObjs cat next rest

/-- `__massage_name` -/
def massage (s : String) : String := String.ofList (s.toList.map fun c => if c == ' ' || c == '-' then '_' else c)

def enumNames (cat : List CEntry) : List String := cat.map fun c => massage c.type ++ "_" ++ massage c.model

/-! ### the model named through the combined type-model enumeration (`model_type=`)

`generate_component(model_type=m)` takes `Model` and `Type` from the member's catalogue entry and then runs the same body; the
per-type rules it applies on that path are probed separately by the translator (`typeTableM`), so a body that consults the
`ctype` PARAMETER (None on this path) instead of the entry's type is mirrored here, not assumed away. -/

def rowOfT (tbl : List TypeRow) (type : String) : TypeRow :=
  match tbl.find? (fun r => r.type == type) with
  | some r => r
  | none => { type := type, suffix := "", nsType := "", kind := "", speed := true }

def genIfacesT (tbl : List TypeRow) (e : CEntry) (name : String) (ids : Option (List String)) (labels : Option (List Bdf)) :
    List GIface :=
  e.ifaces.zipIdx.map fun (p, i) =>
    let b : Bdf := match labels with
      | some ls => ls.getD i .none
      | none => .none
    { name := name ++ ifaceSep ++ p.1
      kind := (rowOfT tbl e.type).kind
      bw := if (rowOfT tbl e.type).speed then p.2 else 0
      units := unitsOf b
      nodeId := match ids with
        | some l => l[i]?
        | none => none
      localNames := match b with
        | .list n => List.replicate n p.1
        | _ => [p.1]
      localIsList := match b with
        | .list _ => true
        | _ => false
      labelIdx := match labels with
        | some _ => some i
        | none => none }

def mkT (tbl : List TypeRow) (name : String) (nsId parent : Option String) (e : CEntry) (ids : Option (List String))
    (labels : Option (List Bdf)) : GComp :=
  let row := rowOfT tbl e.type
  { model := e.model, type := e.type, details := e.details
    nsName := some (svcName parent name row.suffix)
    nsType := some row.nsType
    nsId := nsId
    ifaces := genIfacesT tbl e name ids labels }

/-- `generate` with the per-type table as a parameter -/
def generateT (tbl : List TypeRow) (cat : List CEntry) (name model type : String) (nsId : Option String)
    (ids : Option (List String)) (labels : Option (List Bdf)) (parent : Option String) : Except GErr GComp :=
  match lookup cat model type with
  | none => .error .notFound
  | some e =>
    if !e.hasIfaces then
      .ok { model := e.model, type := e.type, details := e.details, nsName := none, nsType := none, nsId := none, ifaces := [] }
    else
      let n := e.ifaces.length
      match ids, labels with
      | some l, none => if l.length != n then .error .runtime else .error .type
      | some l, some ls =>
        if l.length != n then .error .runtime
        else if ls.length != n then .error .runtime
        else .ok (mkT tbl name nsId parent e (some l) (some ls))
      | none, some ls => if ls.length < n then .error .index else .ok (mkT tbl name nsId parent e none (some ls))
      | none, none => .ok (mkT tbl name nsId parent e none none)

def enumName (c : CEntry) : String := massage c.type ++ "_" ++ massage c.model

/-- `ComponentModelTypeMap[ComponentModelType[member]]` -/
def memberEntry (cat : List CEntry) (member : String) : Option CEntry := cat.find? (fun c => enumName c == member)

/-- `generate_component(name=…, model_type=<member>, …)`; `none` = no such member (the caller cannot even name it) -/
def generateM (cat : List CEntry) (name member : String) (nsId : Option String)
    (ids : Option (List String)) (labels : Option (List Bdf)) (parent : Option String) : Option (Except GErr GComp) :=
  (memberEntry cat member).map fun e => generateT typeTableM cat name e.model e.type nsId ids labels parent

/-! ### consumers of catalogue objects

`get_instance_capacities` / `list_instances()[name]` hand out the catalogue's own `Capacities` objects.  A consumer session binds
handles to such objects or to objects of its own, totals them up (`x += y`, `x -= y`, `z = x + y`, `z = x - y`,
`z = Capacities.update(x)`), compares / prints them, writes into objects it owns, and in between asks the catalogue.  Whether an
operation writes through to a catalogue object is the translator's `consumerWrites` (probed); with the class as it is (`+=` falls
back to `__add__` and rebinds) nothing does. -/

inductive Ref where
  | cat (n : String)      -- the catalogue's object for that name
  | own (s : Size)        -- an object of the consumer
deriving DecidableEq, Repr

structure CState where
  cat : List (String × Size)
  env : List (Nat × Ref)

inductive COp where
  | get (h : Nat) (n : String)
  | fresh (h : Nat) (s : Size)
  | aug (add : Bool) (h h2 : Nat)              -- h += h2 / h -= h2
  | bin (op : String) (h3 h h2 : Nat)          -- h3 = h + h2 | h - h2 | update(h)
  | use (op : String) (h h2 : Nat)             -- comparisons, printing, FreeCapacity …
  | scribble (h : Nat)                         -- the consumer writes into an object it owns
  | query (n : String)
  | pick (s : Size)
  | pickh (h : Nat)
deriving Repr

inductive COut where
  | caps (s : Option Size)
  | name (n : Option String)
deriving DecidableEq, Repr

def CState.val (st : CState) (h : Nat) : Size :=
  match st.env.lookup h with
  | some (.cat n) => (capsOf st.cat n).getD ⟨0, 0, 0⟩
  | some (.own s) => s
  | none => ⟨0, 0, 0⟩

def arith (add : Bool) (a b : Size) : Size :=
  if add then ⟨a.core + b.core, a.ram + b.ram, a.disk + b.disk⟩ else ⟨a.core - b.core, a.ram - b.ram, a.disk - b.disk⟩

def setCat (cat : List (String × Size)) (n : String) (v : Size) : List (String × Size) :=
  cat.map fun e => if e.1 == n then (e.1, v) else e

def writes (op : String) : Bool := consumerWrites.contains op

def cstep (st : CState) : COp → CState × Option COut
  | .get h n => ({ st with env := (h, .cat n) :: st.env }, none)
  | .fresh h s => ({ st with env := (h, .own s) :: st.env }, none)
  | .aug add h h2 =>
    let v := arith add (st.val h) (st.val h2)
    if writes (if add then "iadd" else "isub") then
      match st.env.lookup h with
      | some (.cat n) => ({ st with cat := setCat st.cat n v }, none)
      | _ => ({ st with env := (h, .own v) :: st.env }, none)
    else ({ st with env := (h, .own v) :: st.env }, none)
  | .bin op h3 h h2 =>
    let v := if op == "add" then arith true (st.val h) (st.val h2) else if op == "sub" then arith false (st.val h) (st.val h2) else st.val h
    ({ st with env := (h3, .own v) :: st.env }, none)
  | .use _ _ _ => (st, none)
  | .scribble h =>
    match st.env.lookup h with
    | some (.own _) => ({ st with env := (h, .own ⟨7, 7, 7⟩) :: st.env }, none)
    | _ => (st, none)
  | .query n => (st, some (.caps (capsOf st.cat n)))
  | .pick s => (st, some (.name (pick st.cat s)))
  | .pickh h => (st, some (.name (pick st.cat (st.val h))))

/-- a session: final state and the catalogue's answers in order -/
def crun (st : CState) : List COp → CState × List COut
  | [] => (st, [])
  | op :: rest =>
    let (st', o) := cstep st op
    let (st'', os) := crun st' rest
    (st'', match o with | some x => x :: os | none => os)

end FimVerif.Catalog
