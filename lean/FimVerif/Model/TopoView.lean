import FimVerif.Model.Topo
import FimVerif.Generated.ViewDict
/-!
# The read-only views of the topology API (C07)

A view (`topology.nodes`, `.facilities`, `.links`, `.network_services`) is a `ViewOnlyDict` around a dictionary filled from the
model when the property is read.  State of a view object = the model it was read from and the keys of the dictionary it wraps.
Reading methods are functions of the wrapped dictionary.  What an in-place method of `dict` does on the view is *not* assumed:
`Generated/ViewDict.lean` says, method by method, whether the class refuses it (and with which exception) or accepts it - in which
case the model below performs it on the wrapped dictionary, as Python would.  No Mathlib.
-/
namespace FimVerif.TopoView
open FimVerif FimVerif.Topo FimVerif.Gen
open FimVerif.M (raise read)

inductive Kind where | nodes | facilities | links | services
  deriving DecidableEq, Repr, Inhabited

/-- what the property builds its dictionary from -/
def listing : Kind → Topo → List String
  | .nodes, s => viewNodes s
  | .facilities, s => viewFacilities s
  | .links, s => viewLinks s
  | .services, s => viewServices s

/-- a dictionary keeps one entry per key, at the position of the first insertion -/
def dictKeys (l : List String) : List String := l.eraseDups

structure VState where
  model : Topo
  keys : List String
  deriving DecidableEq, Repr, Inhabited

/-- reading the property: a new view object over the current model -/
def openView (k : Kind) (s : Topo) : VState := ⟨s, dictKeys (listing k s)⟩

inductive Call where
  | len | keys | contains (k : String) | getitem (k : String) | get (k : String)
  | mutator (name : String) (k : String)
  deriving Repr, Inhabited

inductive Ret where
  | nat (n : Nat) | strs (l : List String) | bool (b : Bool) | unit
  deriving DecidableEq, Repr, Inhabited

/-- what the method of `dict` of that name does to the keys (key `k` for the keyed ones; the inserting ones insert `"zz"`) -/
def dictMutate (name k : String) (d : List String) : Except Err (List String) :=
  if name == "__setitem__" || name == "item-assignment" || name == "setdefault" || name == "update" || name == "__ior__" || name == "|=" then
    .ok (if d.contains "zz" then d else d ++ ["zz"])
  else if name == "__delitem__" || name == "del-item" || name == "pop" then
    if d.contains k then .ok (d.erase k) else .error .key
  else if name == "popitem" then
    if d.isEmpty then .error .key else .ok d.dropLast
  else if name == "clear" then .ok []
  else .error .attr

/-- what the class does with the in-place method `name` (from the generated table) -/
def verdict (name : String) : Option String := (ViewDict.mutators.find? (fun r => r.1 == name)).map (fun r => r.2.2.1)

def call : Call → M VState Ret
  | .len => read (fun v => .nat v.keys.length)
  | .keys => read (fun v => .strs v.keys)
  | .contains k => read (fun v => .bool (v.keys.contains k))
  | .get k => read (fun v => .bool (v.keys.contains k))
  | .getitem k => fun v => if v.keys.contains k then (.ok (.bool true), v) else (.error .key, v)
  | .mutator name k =>
    match verdict name with
    | none => raise .attr
    | some out =>
      if out == "ok" then fun v =>
        match dictMutate name k v.keys with
        | .ok d => (.ok .unit, { v with keys := d })
        | .error e => (.error e, v)
      else raise (Err.ofWire out)

def runCalls : List Call → VState → VState
  | [], v => v
  | c :: cs, v => runCalls cs (call c v).2

end FimVerif.TopoView
