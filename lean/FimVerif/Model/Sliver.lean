import FimVerif.Generated.SliverMap
/-!
# Slivers and their graph / dictionary forms (C02)

A sliver is a kind, a node id, a field map (setter name ↦ value) and children.  `toProps` / `fromProps`
are driven by the tables in `Generated/SliverMap.lean`, which the translator rebuilds from the AST of
`fim/graph/abc_property_graph.py` on every run.  Values (`V`) and graph-property values (`P`) are abstract:
a `Codecs V P` supplies what each encoder / decoder / setter of the closed set does.  The theorems in
`Proofs/C02.lean` hold for *every* `Codecs` and every table that passes `tableOK`; the driver instantiates
them with `Val` / `String` (`concrete`), which is what the differential run compares with the real code.
-/
namespace FimVerif.Sliver
open FimVerif.Gen.SliverMap

abbrev Key := String

/-- total maps with absent = `none`; only finitely many names are ever looked at -/
abbrev Fields (V : Type) := Key → Option V
abbrev Props (P : Type) := String → Option P

def Fields.set {V : Type} (s : Fields V) (k : Key) (v : Option V) : Fields V := fun x => if x = k then v else s x
def Props.set {P : Type} (p : Props P) (g : String) (v : P) : Props P := fun x => if x = g then some v else p x
def Props.erase {P : Type} (p : Props P) (g : String) : Props P := fun x => if x = g then none else p x
def Props.empty {P : Type} : Props P := fun _ => none
def Fields.empty {V : Type} : Fields V := fun _ => none
/-- `node_props.update(props)` -/
def Props.update {P : Type} (p q : Props P) : Props P := fun x => match q x with | some v => some v | none => p x

/-- error kinds on the wire (`core.err_kind`) -/
abbrev Err := String

/-- What the closed set of encoders / decoders / setters does on the value types. -/
structure Codecs (V P : Type) where
  /-- encoder applied to the values of the attributes the row reads -/
  enc : Enc → List V → P
  /-- `json.dumps(None)` for the always-written row -/
  encNone : Enc → P
  /-- decoder (`arg` = class name / tuple index) on a present property; may raise, may yield `None` -/
  dec : Dec → String → P → Except Err (Option V)
  /-- the non-None object a decoder yields for an absent property (`Absent.object`) -/
  absentObj : String → V
  boolFalse : V
  /-- what the setter stores; may raise -/
  norm : Norm → V → Except Err V
  /-- `isl.get_type() == InterfaceType.DedicatedPort` -/
  isDedicated : V → Bool

section generic
variable {V P : Type}

def rowVals (s : Fields V) (keys : List Key) : Option (List V) := keys.mapM s

/-- one `if hasattr … is not None: prop_dict[g] = enc(…)` -/
def applyTo (C : Codecs V P) (s : Fields V) (p : Props P) (r : ToRow) : Props P :=
  match rowVals s r.keys with
  | some vs => p.set r.gprop (C.enc r.enc vs)
  | none => if r.always then p.set r.gprop (C.encNone r.enc) else p

/-- `<kind>_sliver_to_graph_properties_dict` -/
def toProps (C : Codecs V P) (T : KindTable) (s : Fields V) : Props P :=
  T.toRows.foldl (applyTo C s) Props.empty

/-- the keyword argument of `set_properties`: decoder applied to `d.get(g)` -/
def decodeRow (C : Codecs V P) (p : Props P) (r : FromRow) : Except Err (Option V) :=
  match p r.gprop with
  | none =>
    match r.absent with
    | .none => .ok none
    | .boolFalse => .ok (some C.boolFalse)
    | .object => .ok (some (C.absentObj r.arg))
  | some x => C.dec r.dec r.arg x

/-- `set_<key>(v)` -/
def setRow (C : Codecs V P) (r : FromRow) (ov : Option V) : Except Err (Option V) :=
  match ov with
  | none => if r.noneOk then .ok none else .error "type"
  | some v => match C.norm r.norm v with
    | .ok v' => .ok (some v')
    | .error e => .error e

def readRow (C : Codecs V P) (p : Props P) (r : FromRow) : Except Err (Option V) :=
  match decodeRow C p r with
  | .ok ov => setRow C r ov
  | .error e => .error e

def fromRowsGo (C : Codecs V P) (p : Props P) : List FromRow → Fields V → Except Err (Fields V)
  | [], s => .ok s
  | r :: rs, s =>
    match readRow C p r with
    | .error e => .error e
    | .ok v => fromRowsGo C p rs (s.set r.key v)

/-- `<kind>_sliver_from_graph_properties_dict` (fields only) -/
def fromProps (C : Codecs V P) (T : KindTable) (p : Props P) : Except Err (Fields V) :=
  fromRowsGo C p T.fromRows Fields.empty

/-! ### model element: `set_property` / `get_property` / `unset_property` on a graph node -/

/-- `SLIVER_PROPERTY_TO_GRAPH.get(pname)` -/
def mapUnset (k : Key) : Option String := (unsetMap.find? (fun e => e.1 == k)).map (·.2)

/-- `ModelElement.unset_property`: silently nothing when the name is not mapped; the store rejects
identity properties and properties that are not there (`query`). -/
def unsetProperty (p : Props P) (k : Key) : Except Err (Props P) :=
  match mapUnset k with
  | none => .ok p
  | some g =>
    if noUnset.contains g then .error "query"
    else match p g with
      | some _ => .ok (p.erase g)
      | none => .error "query"

/-- `<Element>.set_property(k, v)` with `v` not None: a fresh sliver with the one property set is written through
`toProps` and merged into the node with `update_node_properties`. `v'` is what the sliver's setter stored. -/
def setProperty (C : Codecs V P) (T : KindTable) (fresh : Fields V) (p : Props P) (k : Key) (v : V) : Props P :=
  p.update (toProps C T (fresh.set k (some v)))

/-- `<Element>.get_property(k)` -/
def getProperty (C : Codecs V P) (T : KindTable) (p : Props P) (k : Key) : Except Err (Option V) :=
  match fromProps C T p with
  | .ok s => .ok (s k)
  | .error e => .error e

/-- `sliver.set_properties(**kw)` on the fresh sliver: each keyword through its setter, in order (a None value calls the
setter with None, which raises for `name`) -/
def applyKw (T : KindTable) (s : Fields V) : List (Key × Option V) → Except Err (Fields V)
  | [] => .ok s
  | (k, ov) :: rest =>
    match ov, T.fromRows.find? (fun f => f.key == k) with
    | none, some f => if f.noneOk then applyKw T (s.set k none) rest else .error "type"
    | _, _ => applyKw T (s.set k ov) rest

/-- `<Element>.set_properties(**kw)`: a fresh sliver with the keywords applied, written through `toProps` and merged.
A None value writes nothing, so this route does **not** unset. -/
def setProperties (C : Codecs V P) (T : KindTable) (fresh : Fields V) (p : Props P) (kw : List (Key × Option V)) :
    Except Err (Props P) :=
  match applyKw T fresh kw with
  | .ok s => .ok (p.update (toProps C T s))
  | .error e => .error e

/-- the one-keyword case -/
def setProperties1 (C : Codecs V P) (T : KindTable) (fresh : Fields V) (p : Props P) (k : Key) (ov : Option V) :
    Except Err (Props P) := setProperties C T fresh p [(k, ov)]

/-- `<Element>.set_property(k, ov)` as element class `E` does it: None goes to `unset_property` when the class routes it
there (`setNoneUnsets`, probed by the translator), otherwise to the fresh sliver's setter like any value -/
def setPropertyOpt (C : Codecs V P) (T : KindTable) (E : ElemClass) (fresh : Fields V) (p : Props P) (k : Key) (ov : Option V) :
    Except Err (Props P) :=
  match ov with
  | some v => .ok (setProperty C T fresh p k v)
  | none => if E.setNoneUnsets then unsetProperty p k else setProperties1 C T fresh p k none

/-- `el.<attr> = ov` through the attribute route `r` of the generated route table.  `wrapNone cls` is the object the
wrapper class makes from None (only reached when the table says the setter wraps None instead of passing it on). -/
def attrAssign (C : Codecs V P) (T : KindTable) (E : ElemClass) (wrapNone : String → V) (fresh : Fields V) (p : Props P)
    (r : AttrRoute) (ov : Option V) : Except Err (Props P) :=
  let pair (ov : Option V) : Except Err (Props P) :=
    -- `set_properties(prop=value, partner=self.get_property(partner))`
    match getProperty C T p r.partner with
    | .error e => .error e
    | .ok pv => setProperties C T fresh p [(r.prop, ov), (r.partner, pv)]
  match ov with
  | some v =>
    match r.onValue with
    | .none => .error "attribute"
    | .direct => setPropertyOpt C T E fresh p r.prop (some v)
    | .jsonWrap => setPropertyOpt C T E fresh p r.prop (some v)
    | .pair => pair (some v)
  | none =>
    match r.onNone with
    | .none => .error "attribute"
    | .passNone => setPropertyOpt C T E fresh p r.prop none
    | .unsets => unsetProperty p r.prop
    | .wraps => setPropertyOpt C T E fresh p r.prop (some (wrapNone r.cls))
    | .pairNone => pair none
    | .ignores => .ok p

/-- `el.<attr>` for the `plain` / `dataOf` getters (the `.data` view of a `dataOf` getter is taken by the caller; a
`cached` getter returns the element's own `_name`, not a graph read) -/
def attrGet (C : Codecs V P) (T : KindTable) (p : Props P) (r : AttrRoute) : Except Err (Option V) :=
  getProperty C T p r.prop

end generic

/-- the element class of a given name (generated) -/
def classOf? (n : String) : Option ElemClass := elemClasses.find? (fun e => e.name == n)

/-- the element class the harness uses by default for a sliver kind: the first (base) class of that kind -/
def baseClassOf (k : String) : ElemClass :=
  match elemClasses.find? (fun e => e.kind == k) with
  | some e => e
  | none => default

/-! ### sliver trees and deep dictionaries -/

/-- kinds: the five sliver classes -/
abbrev Kind := String

def tableOf (k : Kind) : KindTable :=
  match tables.find? (fun t => t.kind == k) with
  | some t => t
  | none => default

/-- the dictionary key under which `sliver_to_dict` puts children of kind `c` of a parent of kind `p`
(`none`: that parent never carries such children) -/
def slotOf (p c : Kind) : Option String :=
  if p = "node" ∧ c = "component" then some "components"
  else if p = "node" ∧ c = "service" then some "network_services"
  else if p = "component" ∧ c = "service" then some "network_services"
  else if p = "service" ∧ c = "interface" then some "interfaces"
  else if p = "interface" ∧ c = "interface" then some "interfaces"
  else none

/-- child slots of a kind in the order the `build_deep_*_from_dict` functions read them, with the child kind -/
def slotsOf (p : Kind) : List (String × Kind) :=
  if p = "node" then [("components", "component"), ("network_services", "service")]
  else if p = "component" then [("network_services", "service")]
  else if p = "service" then [("interfaces", "interface")]
  else if p = "interface" then [("interfaces", "interface")]
  else []

/-- child kind read from a slot of a parent's dictionary -/
def childKind (p : Kind) (slot : String) : Option Kind :=
  ((slotsOf p).find? (fun e => e.1 == slot)).map (·.2)

inductive Sliver (V : Type) where
  | mk (kind : Kind) (nodeId : Option String) (fields : Fields V) (kids : List (Sliver V))

namespace Sliver
variable {V : Type}
def kind : Sliver V → Kind | mk k _ _ _ => k
def nodeId : Sliver V → Option String | mk _ i _ _ => i
def fields : Sliver V → Fields V | mk _ _ f _ => f
def kids : Sliver V → List (Sliver V) | mk _ _ _ ks => ks
instance : Inhabited (Sliver V) := ⟨mk "" none Fields.empty []⟩
end Sliver

/-- deep dictionary: node id (only the graph supplies one; `sliver_to_dict` does not emit `NodeID`), the property
entries and, per slot name, child dictionaries in order -/
inductive Dict (P : Type) where
  | mk (nodeId : Option String) (props : Props P) (kids : List (String × Dict P))

namespace Dict
variable {P : Type}
def nodeId : Dict P → Option String | mk i _ _ => i
def props : Dict P → Props P | mk _ p _ => p
def kids : Dict P → List (String × Dict P) | mk _ _ ks => ks
end Dict

section tree
variable {V P : Type}

mutual
/-- `sliver_to_dict` -/
def toDict (C : Codecs V P) : Sliver V → Dict P
  | .mk k _ f ks => .mk none (toProps C (tableOf k) f) (toDictKids C k ks)
def toDictKids (C : Codecs V P) (parent : Kind) : List (Sliver V) → List (String × Dict P)
  | [] => []
  | c :: cs =>
    match slotOf parent c.kind with
    | some slot => (slot, toDict C c) :: toDictKids C parent cs
    | none => toDictKids C parent cs
end

def nameOf (s : Sliver V) : Option V := s.fields "name"

/-- `Info.add_*`: the per-kind dictionary is keyed by `resource_name`; an existing key keeps its position and
takes the new value -/
def insertByName [DecidableEq V] (acc : List (Sliver V)) (c : Sliver V) : List (Sliver V) :=
  if acc.any (fun x => x.kind == c.kind && decide (nameOf x = nameOf c)) then
    acc.map (fun x => if x.kind == c.kind && decide (nameOf x = nameOf c) then c else x)
  else acc ++ [c]

def dedupe [DecidableEq V] (cs : List (Sliver V)) : List (Sliver V) := cs.foldl insertByName []

/-- `AttachedComponentsInfo.add_device` asserts name and type -/
def childOk (c : Sliver V) : Bool :=
  !(c.kind == "component" && ((c.fields "name").isNone || (c.fields "type").isNone))

mutual
/-- `build_deep_<kind>_sliver_from_dict` -/
def fromDict [DecidableEq V] (C : Codecs V P) (k : Kind) : Dict P → Except Err (Sliver V)
  | .mk nid p ks =>
    match fromProps C (tableOf k) p with
    | .error e => .error e
    | .ok f =>
      match fromDictKids C k ks with
      | .error e => .error e
      | .ok cs => .ok (.mk k nid f (dedupe cs))
def fromDictKids [DecidableEq V] (C : Codecs V P) (parent : Kind) : List (String × Dict P) → Except Err (List (Sliver V))
  | [] => .ok []
  | (slot, d) :: rest =>
    match childKind parent slot with
    | none => fromDictKids C parent rest
    | some ck =>
      match fromDict C ck d with
      | .error e => .error e
      | .ok c =>
        if childOk c then
          match fromDictKids C parent rest with
          | .error e => .error e
          | .ok cs => .ok (c :: cs)
        else .error "assertion"
end

end tree

/-! ### the model-graph path: `add_*_sliver` then `build_deep_*_sliver` on a property graph

The store is modelled per `NodeID`: the nodes stored under that id (class, properties) and its adjacency
(relationship class, neighbour id; both directions, as NetworkX keeps it).  The order in which the
implementation enumerates neighbours (a `set`) is not modelled: children are compared up to order. -/

structure AGraph (P : Type) where
  node : String → List (String × Props P)
  adj : String → List (String × String)

def AGraph.empty {P : Type} : AGraph P := ⟨fun _ => [], fun _ => []⟩

def upd {α : Type} (f : String → α) (k : String) (v : α) : String → α := fun x => if x = k then v else f x

def classOf (k : Kind) : String :=
  if k = "node" then "NetworkNode" else if k = "component" then "Component" else if k = "service" then "NetworkService"
  else if k = "interface" then "ConnectionPoint" else if k = "link" then "Link" else ""

/-- `REL_HAS` for components and services, `REL_CONNECTS` for interfaces -/
def relOf (child : Kind) : String := if child = "interface" then "connects" else "has"

/-- `List.mapM` in `Except`, spelled out -/
def mapE {α β : Type} (f : α → Except Err β) : List α → Except Err (List β)
  | [] => .ok []
  | a :: as =>
    match f a with
    | .error e => .error e
    | .ok b =>
      match mapE f as with
      | .error e => .error e
      | .ok bs => .ok (b :: bs)

section graph
variable {V P : Type}

/-- the graph after `add_node` and, below a parent, `add_link` to it -/
def addNodeTo (g : AGraph P) (parent : Option String) (id cls rel : String) (props : Props P) : AGraph P :=
  let node' := upd g.node id (g.node id ++ [(cls, props)])
  match parent with
  | none => ⟨node', g.adj⟩
  | some p => ⟨node', upd (upd g.adj p (g.adj p ++ [(rel, id)])) id (g.adj id ++ [(rel, p)])⟩

/-- `add_node` — rejects a node id the graph already holds, whatever the class of the holder (`_find_node` looks nodes
up by id alone) — followed, below a parent, by `add_link(parent, rel, id)`, which looks both ends up with `_find_node`
in the graph that now holds the new node: the parent must be there, exactly once (the new node is: its id was free) -/
def addNode (g : AGraph P) (parent : Option String) (id cls rel : String) (props : Props P) : Except Err (AGraph P) :=
  if !(g.node id).isEmpty then .error "query"
  else
    match parent with
    | none => .ok (addNodeTo g parent id cls rel props)
    | some p =>
      if ((upd g.node id (g.node id ++ [(cls, props)])) p).length == 1 then .ok (addNodeTo g parent id cls rel props)
      else .error "query"

mutual
/-- `add_network_node_sliver` / `add_component_sliver` / `add_network_service_sliver` / `add_interface_sliver` -/
def addSliver (C : Codecs V P) (g : AGraph P) (parent : Option String) : Sliver V → Except Err (AGraph P)
  | .mk k nid f ks =>
    match nid with
    | none => .error "assertion"
    | some id =>
      match addNode g parent id (classOf k) (relOf k) (toProps C (tableOf k) f) with
      | .error e => .error e
      | .ok g' => addKids C g' id k ks
def addKids (C : Codecs V P) (g : AGraph P) (parentId : String) (parentKind : Kind) : List (Sliver V) → Except Err (AGraph P)
  | [] => .ok g
  | c :: cs =>
    match slotOf parentKind c.kind with
    | none => addKids C g parentId parentKind cs
    | some _ =>
      match addSliver C g (some parentId) c with
      | .error e => .error e
      | .ok g' => addKids C g' parentId parentKind cs
end

/-- `_find_node` + `get_node_properties`: exactly one node under the id -/
def findNode (g : AGraph P) (id : String) : Except Err (String × Props P) :=
  match g.node id with
  | [n] => .ok n
  | _ => .error "query"

/-- `get_first_neighbor(node_id, rel, label)` -/
def neighbors (g : AGraph P) (id rel cls : String) : List String :=
  (((g.adj id).filter (fun e => e.1 == rel)).map (·.2)).filter fun i => (g.node i).any (fun n => n.1 == cls)

/-- `interface_sliver_from_graph_properties_dict(get_node_properties(i))`: a sub-interface, built flat -/
def flatIface (C : Codecs V P) (g : AGraph P) (i : String) : Except Err (Sliver V) :=
  match findNode g i with
  | .error e => .error e
  | .ok m =>
    match fromProps C (tableOf "interface") m.2 with
    | .error e => .error e
    | .ok fi => .ok (.mk "interface" (some i) fi [])

/-- the children of one kind: every neighbour rebuilt; `add_device` asserts name and type of components -/
def buildSlot (rec : Kind → String → Except Err (Sliver V)) (g : AGraph P) (id : String) (ck : Kind) :
    Except Err (List (Sliver V)) :=
  match mapE (rec ck) (neighbors g id (relOf ck) (classOf ck)) with
  | .error e => .error e
  | .ok ds => if ds.all childOk then .ok ds else .error "assertion"

def buildSlots (rec : Kind → String → Except Err (Sliver V)) (g : AGraph P) (id : String) :
    List (String × Kind) → Except Err (List (Sliver V))
  | [] => .ok []
  | sc :: rest =>
    match buildSlot rec g id sc.2 with
    | .error e => .error e
    | .ok ds =>
      match buildSlots rec g id rest with
      | .error e => .error e
      | .ok es => .ok (ds ++ es)

/-- `build_deep_<kind>_sliver` with a recursion bound (containment is at most four levels deep) -/
def buildDeep [DecidableEq V] (C : Codecs V P) (g : AGraph P) : Nat → Kind → String → Except Err (Sliver V)
  | 0, _, _ => .error "fuel"
  | fuel + 1, k, id =>
    match findNode g id with
    | .error e => .error e
    | .ok n =>
      if n.1 != classOf k && !(k == "node" && n.1 == "CompositeNode") then .error "query" else
      match fromProps C (tableOf k) n.2 with
      | .error e => .error e
      | .ok f =>
        let kids : Except Err (List (Sliver V)) :=
          if k == "interface" then
            -- sub-interfaces only below a DedicatedPort, and built flat
            if (f "type").any C.isDedicated then mapE (flatIface C g) (neighbors g id "connects" "ConnectionPoint")
            else .ok []
          else buildSlots (buildDeep C g fuel) g id (slotsOf k)
        match kids with
        | .error e => .error e
        | .ok cs => .ok (.mk k (some id) f (dedupe cs))

/-- the whole path on a fresh graph (`component`: under a bare parent node, as the harness does) -/
def graphRoundtrip [DecidableEq V] (C : Codecs V P) (s : Sliver V) : Except Err (Sliver V) :=
  let g0 : Except Err (AGraph P) :=
    if s.kind = "component" then addNode AGraph.empty none "c02-parent" "NetworkNode" "has" Props.empty else .ok AGraph.empty
  match g0 with
  | .error e => .error e
  | .ok g =>
    match addSliver C g (if s.kind = "component" then some "c02-parent" else none) s with
    | .error e => .error e
    | .ok g' => buildDeep C g' 5 s.kind ((s.nodeId).getD "")

mutual
/-- every element of a tree (pre-order), each with the node id and kind of the element that contains it -/
def elems : Option (String × Kind) → Sliver V → List (Option (String × Kind) × Sliver V)
  | p, .mk k nid f ks => (p, .mk k nid f ks) :: elemsKids (nid.getD "", k) ks
def elemsKids (p : String × Kind) : List (Sliver V) → List (Option (String × Kind) × Sliver V)
  | [] => []
  | c :: cs => elems (some p) c ++ elemsKids p cs
end

/-- the writing half of `graphRoundtrip` -/
def graphWrite (C : Codecs V P) (s : Sliver V) : Except Err (AGraph P) :=
  let g0 : Except Err (AGraph P) :=
    if s.kind = "component" then addNode AGraph.empty none "c02-parent" "NetworkNode" "has" Props.empty else .ok AGraph.empty
  match g0 with
  | .error e => .error e
  | .ok g => addSliver C g (if s.kind = "component" then some "c02-parent" else none) s

/-- the tree written into a fresh graph, then `build_deep_<kind>_sliver` **started at every element of it** (the
sub-interface itself, a service below a component, ...): what `Interface.get_sliver()` / `Component.get_sliver()` /
`build_deep_*_sliver(node_id=<inner id>)` do on a live model -/
def graphAt [DecidableEq V] (C : Codecs V P) (s : Sliver V) : Except Err (List (Sliver V × Except Err (Sliver V))) :=
  match graphWrite C s with
  | .error e => .error e
  | .ok g' => .ok ((elems none s).map fun e => (e.2, buildDeep C g' 5 e.2.kind (e.2.nodeId.getD "")))

end graph

/-! ### concrete values for the driver -/

inductive Val where
  /-- plain string (name, details, site, …) -/
  | str (s : String)
  /-- enum member -/
  | enum (cls name : String)
  /-- codec object (Capacities, Labels, Delegations, Tags, …) represented by the text its `to_json()` yields -/
  | obj (cls text : String)
  /-- `JSONData` subclass with its JSON text -/
  | jdata (cls text : String)
  /-- tuple / list of strings (`node_map`) -/
  | tuple (xs : List String)
  | bool (b : Bool)
  /-- `ipaddress` object with its canonical string -/
  | ip (s : String)
  deriving DecidableEq, Repr, Inhabited

/-- `json.dumps` of a sequence of strings without characters that need escaping -/
def renderStrs (xs : List String) : String :=
  "[" ++ ", ".intercalate (xs.map fun x => "\"" ++ x ++ "\"") ++ "]"

/-- drop the first and last character -/
def inner (s : String) : String := String.ofList (s.toList.drop 1).dropLast

def unquote (s : String) : Option String :=
  if s.length ≥ 2 ∧ s.startsWith "\"" ∧ s.endsWith "\"" then some (inner s) else none

/-- `json.loads` of what `renderStrs` / `json.dumps(bool)` / `json.dumps(None)` produce -/
def parseLoads (t : String) : Except Err (Option Val) :=
  if t = "null" then .ok none
  else if t = "true" then .ok (some (.bool true))
  else if t = "false" then .ok (some (.bool false))
  else if t = "[]" then .ok (some (.tuple []))
  else if t.startsWith "[" ∧ t.endsWith "]" ∧ t.length ≥ 2 then
    match ((inner t).splitOn ", ").mapM unquote with
    | some xs => .ok (some (.tuple xs))
    | none => .error "value"
  else .error "value"

def enumMember (cls name : String) : Option Val :=
  match enums.find? (fun e => e.1 == cls) with
  | some e => if e.2.contains name then some (.enum cls name) else none
  | none => none

def valText : Val → String
  | .str s => s | .enum _ n => n | .obj _ t => t | .jdata _ t => t | .ip s => s
  | .tuple xs => renderStrs xs | .bool b => if b then "True" else "False"

/-- `str.split(',')` on characters (structural, so that proofs can evaluate it) -/
def splitCommaChars : List Char → List (List Char)
  | [] => [[]]
  | c :: cs =>
    match splitCommaChars cs with
    | [] => [[]]
    | p :: ps => if c = ',' then [] :: p :: ps else (c :: p) :: ps

def splitComma (s : String) : List String := (splitCommaChars s.toList).map String.ofList

/-- `str.rsplit(',', 1)` on characters: split at the last comma (`none`: no comma, the tuple unpacking raises) -/
def rsplitCommaChars : List Char → Option (List Char × List Char)
  | [] => none
  | c :: cs =>
    match rsplitCommaChars cs with
    | some (a, b) => some (c :: a, b)
    | none => if c = ',' then some ([], cs) else none

def rsplitComma (s : String) : Option (String × String) :=
  (rsplitCommaChars s.toList).map fun ab => (String.ofList ab.1, String.ofList ab.2)

def concrete : Codecs Val String where
  enc := fun e vs =>
    match e, vs with
    | .ident, [v] => valText v
    | .str, [v] => valText v
    | .toJson, [v] => valText v
    | .jsonData, [v] => valText v
    | .jsonDumps, [.tuple xs] => renderStrs xs
    | .jsonDumps, [.bool b] => if b then "true" else "false"
    | .commaJoin, [a, b] => valText a ++ "," ++ valText b
    | _, _ => "?"
  encNone := fun _ => "null"
  dec := fun d arg x =>
    match d with
    | .ident => .ok (some (.str x))
    | .typeFromStr => .ok (enumMember arg x)
    | .fromString => .ok (enumMember arg x)
    | .fromJson => if x = "" then .ok none else .ok (some (.obj arg x))
    | .jsonLoads => parseLoads x
    | .jsonDataCtor => .ok (some (.jdata arg x))
    | .commaSplit =>
      match splitComma x with
      | [a, b] => .ok (some (.str (if arg = "0" then a else b)))
      | _ => .error "value"
    | .commaRSplit =>
      match rsplitComma x with
      | some (a, b) => .ok (some (.str (if arg = "0" then a else b)))
      | none => .error "value"
  absentObj := fun cls => .obj cls ""
  boolFalse := .bool false
  norm := fun n v =>
    match n, v with
    | .ident, v => .ok v
    | .tuple, v => .ok v
    | .ipAddress, .str s => .ok (.ip s)
    | .ipAddress, v => .ok v
  isDedicated := fun v => v == .enum "InterfaceType" "DedicatedPort"

/-- `BaseSliver.__init__`: everything None except `stitch_node = False` -/
def freshFields : Fields Val := Fields.empty.set "stitch_node" (some (.bool false))

/-- a value of the generated `freshDefaults` table -/
def valOfDefault (tag text : String) : Option Val :=
  if tag = "bool" then some (.bool (text == "true"))
  else if tag = "str" then some (.str text)
  else if tag.toList.take 5 = "enum:".toList then some (.enum (String.ofList (tag.toList.drop 5)) text)
  else none

/-- `<SliverClass>()` of kind `k` before any setter ran, from the probed `freshDefaults` table (a kind the table does
not list: the base class's `freshFields`) -/
def freshOf (k : Kind) : Fields Val :=
  match freshDefaults.find? (fun e => e.1 == k) with
  | none => freshFields
  | some e => e.2.foldl (fun f d => match valOfDefault d.2.1 d.2.2 with
      | some v => f.set d.1 (some v)
      | none => f) Fields.empty

end FimVerif.Sliver
