import FimVerif.Model.Json
/-!
# JSON text → `JVal` (`json.loads`), for the codecs of C03 that *store text* (JSONData) or read it back

`parse` mirrors `json.loads` on a `str`: whitespace ` \t\n\r`, the literals `null true false NaN Infinity -Infinity`,
numbers `-?(0|[1-9][0-9]*)(\.[0-9]+)?([eE][+-]?[0-9]+)?` (an `int` when there is neither fraction nor exponent, otherwise
a float that is carried as its source lexeme), strings with the escapes `\" \\ \/ \b \f \n \r \t \uXXXX` (a surrogate pair
is one character; control characters below U+0020 are rejected), arrays and objects.  An object is the list of its
items in `dict` order: a repeated key keeps its first position and takes the last value.
Everything works on `List Char`; `renderChars` is `render` on character lists (`render_toList`).
`Proofs/Lemmas/C03Parse.lean` proves `parse (render j) = some j` for the value shapes the library writes.
-/
namespace FimVerif.JParse
open FimVerif JVal

def isWs (c : Char) : Bool := c = ' ' || c = '\n' || c = '\r' || c = '\t'

def skipWs : List Char → List Char
  | [] => []
  | c :: cs => if isWs c then skipWs cs else c :: cs

def isDigit (c : Char) : Bool := c.isDigit

def hexVal (c : Char) : Option Nat :=
  let n := c.toNat
  if 48 ≤ n && n ≤ 57 then some (n - 48)
  else if 97 ≤ n && n ≤ 102 then some (n - 87)
  else if 65 ≤ n && n ≤ 70 then some (n - 55)
  else none

/-- four hex digits -/
def unhex4 : List Char → Option (Nat × List Char)
  | a :: b :: c :: d :: rest =>
    match hexVal a, hexVal b, hexVal c, hexVal d with
    | some a, some b, some c, some d => some (a * 4096 + b * 256 + c * 16 + d, rest)
    | _, _, _, _ => none
  | _ => none

/-- the body of a string literal, after the opening quote; returns the decoded characters and what follows the closing quote -/
def pStrBody : Nat → List Char → Option (List Char × List Char)
  | 0, _ => none
  | _, [] => none
  | fuel + 1, c :: cs =>
    if c = '"' then some ([], cs)
    else if c = '\\' then
      match cs with
      | [] => none
      | e :: r =>
        let simple (ch : Char) := (pStrBody fuel r).map fun (s, rest) => (ch :: s, rest)
        if e = '"' then simple '"'
        else if e = '\\' then simple '\\'
        else if e = '/' then simple '/'
        else if e = 'b' then simple (Char.ofNat 8)
        else if e = 'f' then simple (Char.ofNat 12)
        else if e = 'n' then simple '\n'
        else if e = 'r' then simple '\r'
        else if e = 't' then simple '\t'
        else if e = 'u' then
          match unhex4 r with
          | none => none
          | some (hi, r1) =>
            if 0xd800 ≤ hi && hi ≤ 0xdbff then
              match r1 with
              | '\\' :: 'u' :: r2 =>
                match unhex4 r2 with
                | some (lo, r3) =>
                  if 0xdc00 ≤ lo && lo ≤ 0xdfff then
                    (pStrBody fuel r3).map fun (s, rest) => (Char.ofNat (0x10000 + (hi - 0xd800) * 1024 + (lo - 0xdc00)) :: s, rest)
                  else none       -- a lone surrogate (Python keeps it; `Char` cannot hold one): outside the model
                | none => none
              | _ => none
            else if 0xdc00 ≤ hi && hi ≤ 0xdfff then none
            else (pStrBody fuel r1).map fun (s, rest) => (Char.ofNat hi :: s, rest)
        else none
    else if c.toNat < 32 then none
    else (pStrBody fuel cs).map fun (s, rest) => (c :: s, rest)

def takeDigits : List Char → List Char × List Char
  | [] => ([], [])
  | c :: cs => if isDigit c then let (d, r) := takeDigits cs; (c :: d, r) else ([], c :: cs)

/-- the integer part `0 | [1-9][0-9]*` -/
def pIntPart (s : List Char) : Option (List Char × List Char) :=
  match s with
  | '0' :: r => some (['0'], r)
  | c :: _ => if isDigit c then some (takeDigits s) else none
  | [] => none

def pFrac (s : List Char) : Option (List Char × List Char) :=
  match s with
  | '.' :: r =>
    match takeDigits r with
    | ([], _) => none
    | (d, r') => some ('.' :: d, r')
  | _ => some ([], s)

/-- an optional sign in front of the exponent digits -/
def splitSign : List Char → List Char × List Char
  | '+' :: r1 => (['+'], r1)
  | '-' :: r1 => (['-'], r1)
  | r => ([], r)

def pExp (s : List Char) : Option (List Char × List Char) :=
  match s with
  | e :: r =>
    if e = 'e' ∨ e = 'E' then
      match takeDigits (splitSign r).2 with
      | ([], _) => some ([], s)      -- not an exponent: the number ends before `e`
      | (d, r2) => some (e :: (splitSign r).1 ++ d, r2)
    else some ([], s)
  | [] => some ([], s)

/-- the digits, fraction and exponent of a number whose sign has been read -/
def pUnsigned (neg : Bool) (s1 : List Char) : Option (JVal × List Char) :=
  match pIntPart s1 with
  | none => none
  | some (ip, r1) =>
    match pFrac r1 with
    | none => none
    | some (fr, r2) =>
      match pExp r2 with
      | none => none
      | some (ex, r3) =>
        if fr.isEmpty && ex.isEmpty then
          let n := Nat.ofDigitChars 10 ip 0
          some (.int (if neg then -(n : Int) else n), r3)
        else some (.float (String.ofList ((if neg then ['-'] else []) ++ ip ++ fr ++ ex)), r3)

/-- a number starting at `s` (first character `-` or a digit) -/
def pNumber (s : List Char) : Option (JVal × List Char) :=
  match s with
  | '-' :: r => pUnsigned true r
  | _ => pUnsigned false s

def stripPrefix (p : List Char) (s : List Char) : Option (List Char) :=
  if p.isPrefixOf s then some (s.drop p.length) else none

/-- `d[k] = v` on the item list of a dict -/
def objSet (d : List (String × JVal)) (k : String) (v : JVal) : List (String × JVal) :=
  if d.any (fun p => p.1 == k) then d.map (fun p => if p.1 == k then (k, v) else p) else d ++ [(k, v)]

mutual
/-- a value at `s` (leading whitespace already skipped) -/
def pValue : Nat → List Char → Option (JVal × List Char)
  | 0, _ => none
  | fuel + 1, s =>
    match s with
    | [] => none
    | c :: cs =>
      if c = '"' then (pStrBody (cs.length + 1) cs).map fun (x, r) => (.str (String.ofList x), r)
      else if c = '[' then
        match skipWs cs with
        | ']' :: r => some (.arr [], r)
        | s' => (pElems fuel s' []).map fun (xs, r) => (.arr xs, r)
      else if c = '{' then
        match skipWs cs with
        | '}' :: r => some (.obj [], r)
        | s' => (pMembers fuel s' []).map fun (kvs, r) => (.obj kvs, r)
      else if c = 'n' then (stripPrefix "null".toList s).map fun r => (.null, r)
      else if c = 't' then (stripPrefix "true".toList s).map fun r => (.bool true, r)
      else if c = 'f' then (stripPrefix "false".toList s).map fun r => (.bool false, r)
      else if c = 'N' then (stripPrefix "NaN".toList s).map fun r => (.float "nan", r)
      else if c = 'I' then (stripPrefix "Infinity".toList s).map fun r => (.float "inf", r)
      else if c = '-' && cs.head? = some 'I' then (stripPrefix "-Infinity".toList s).map fun r => (.float "-inf", r)
      else if c = '-' || isDigit c then pNumber s
      else none
/-- the elements of a non-empty array: `s` starts at an element -/
def pElems : Nat → List Char → List JVal → Option (List JVal × List Char)
  | 0, _, _ => none
  | fuel + 1, s, acc =>
    match pValue fuel s with
    | none => none
    | some (v, r) =>
      match skipWs r with
      | ',' :: r' => pElems fuel (skipWs r') (acc ++ [v])
      | ']' :: r' => some (acc ++ [v], r')
      | _ => none
/-- the members of a non-empty object: `s` starts at a key -/
def pMembers : Nat → List Char → List (String × JVal) → Option (List (String × JVal) × List Char)
  | 0, _, _ => none
  | fuel + 1, s, acc =>
    match s with
    | '"' :: cs =>
      match pStrBody (cs.length + 1) cs with
      | none => none
      | some (k, r) =>
        match skipWs r with
        | ':' :: r1 =>
          match pValue fuel (skipWs r1) with
          | none => none
          | some (v, r2) =>
            match skipWs r2 with
            | ',' :: r' => pMembers fuel (skipWs r') (objSet acc (String.ofList k) v)
            | '}' :: r' => some (objSet acc (String.ofList k) v, r')
            | _ => none
        | _ => none
    | _ => none
end

/-- `json.loads` on a character list -/
def parseChars (s : List Char) : Option JVal :=
  match pValue (2 * s.length + 2) (skipWs s) with
  | none => none
  | some (v, r) => if (skipWs r).isEmpty then some v else none

/-- `json.loads(text)`; `none`: JSONDecodeError -/
def parse (s : String) : Option JVal := parseChars s.toList

end FimVerif.JParse
