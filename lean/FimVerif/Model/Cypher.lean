/-!
# Cypher statement templates (C19)

What the Neo4j backend hands to `session.run` is a *text* built from string literals and
interpolations, plus keyword parameters.  `gen/cypher.py` turns every such construction in the five
Neo4j modules into a `List Piece` (in `FimVerif/Generated/Cypher.lean`); this file gives the pieces
their meaning (`render`, mirroring Python's f-string / `join` / accumulate-and-trim semantics), says
when a template is free of stored values (`valueFree`), and contains the statement lint `checkStmt`
(balanced, nothing left unexpanded, every `$name` supplied, every variable bound where it is referenced - Cypher scoping clause by
clause -, every keyword / operator with its operands, no dangling comma, clauses in an order Cypher accepts), the identifier
HOLES (`markerBase`, `expand`, `holeEnv`) and the decidable side conditions (`cleanFor`, `renderOK`) of the hole theorems.

All text is a list of code points (like Python's `str`), so that everything reduces in the kernel.
No Mathlib.
-/
namespace FimVerif.Cypher

/-- text = list of code points (like Python's `str`).  Code points are `Nat` numerals, not `Char`s: the kernel
compares numerals natively, whereas every look at a `Char` re-runs its validity check. -/
abbrev Text := List Nat

/-- `t!"abc"` is the list `[97, 98, 99]`, built when the file is elaborated; `cp%'a'` is `97` -/
macro:max "t!" s:str : term => do
  let elems ← s.getString.toList.toArray.mapM (fun c => pure (Lean.Syntax.mkNumLit (toString c.toNat)))
  `(([$elems,*] : List Nat))
macro:max "cp%" c:char : term => pure (Lean.Syntax.mkNumLit (toString c.getChar.toNat))

/-- scalar pieces.  `ident`/`rowIdent`: class / relation / property *name* (or closed keyword);
`value`/`rowValue`: anything a caller stores or looks up by; `param x`: the text `$x`. -/
inductive Atom where
  | lit (s : Text)
  | param (x : Text)
  | ident (x : Text)
  | value (x : Text)
  | rowIdent (f : Text)
  | rowValue (f : Text)
  deriving Repr, DecidableEq

/-- inside a loop body: an atom, or atoms that are present only when the row has all the fields `fs`
(`if k[0] is not None: l.append(...)`). -/
inductive Inner where
  | atom (a : Atom)
  | opt (fs : List Text) (body : List Atom)
  deriving Repr, DecidableEq

/-- `join sep`: `sep.join(items)`.  `accTrim n d`: `acc = "".join(items); if len(acc) > n: acc = acc[:-d]`. -/
inductive RepMode where
  | join (sep : Text)
  | accTrim (minLen drop : Nat)
  deriving Repr, DecidableEq

/-- the mapping iterated over: a dict literal (`fixed`, values are templates) updated with the argument map `arg`. -/
structure MapSrc where
  fixed : List (Text × List Atom)
  arg : Option Text
  deriving Repr, DecidableEq

inductive Piece where
  | atom (a : Atom)
  | rep (src : MapSrc) (mode : RepMode) (body : List Inner)
  deriving Repr, DecidableEq

/-- one entry of a mapping: identifier-class fields (`k` = key) and value-class fields (`v` = value). -/
structure Row where
  idents : List (Text × Text)
  values : List (Text × Text)
  deriving Repr, DecidableEq

structure Env where
  idents : List (Text × Text)
  values : List (Text × Text)
  maps : List (Text × List Row)
  deriving Repr, DecidableEq

/-- branch condition under which a variant of a call site is the one that runs, as far as the model can evaluate it -/
inductive Guard where
  | mapEmpty (m : Text)
  | mapNonEmpty (m : Text)
  deriving Repr, DecidableEq

structure Op where
  key : Text
  variant : Nat
  line : Nat
  tpl : List Piece
  supplied : List Text
  guards : List Guard
  deriving Repr

def emptyRow : Row := ⟨[], []⟩

def Guard.holds (e : Env) : Guard → Bool
  | .mapEmpty m => (match e.maps.find? (fun p => p.1 == m) with | some p => p.2.isEmpty | none => true)
  | .mapNonEmpty m => (match e.maps.find? (fun p => p.1 == m) with | some p => !p.2.isEmpty | none => false)

/-- the variant can run in environment `e` -/
def Op.reachable (op : Op) (e : Env) : Bool := op.guards.all (Guard.holds e)

def get (l : List (Text × Text)) (x : Text) : Text :=
  match l.find? (fun p => p.1 == x) with
  | some p => p.2
  | none => []

def getMap (e : Env) (m : Text) : List Row :=
  match e.maps.find? (fun p => p.1 == m) with
  | some p => p.2
  | none => []

def Atom.render (e : Env) (r : Row) : Atom → Text
  | .lit s => s
  | .param x => cp%'$' :: x
  | .ident x => get e.idents x
  | .value x => get e.values x
  | .rowIdent f => get r.idents f
  | .rowValue f => get r.values f

def renderAtoms (e : Env) (r : Row) (as : List Atom) : Text := (as.map (Atom.render e r)).flatten

def Row.has (r : Row) (f : Text) : Bool := r.idents.any (fun p => p.1 == f) || r.values.any (fun p => p.1 == f)

def Inner.render (e : Env) (r : Row) : Inner → Text
  | .atom a => a.render e r
  | .opt fs body => if fs.all r.has then renderAtoms e r body else []

def renderInner (e : Env) (r : Row) (body : List Inner) : Text := (body.map (Inner.render e r)).flatten

/-- Python `d = {fixed}; d.update(arg)`: a fixed key keeps its position and takes the argument's value when
the argument has that key; the argument's other keys follow in order. -/
def argRows (e : Env) (src : MapSrc) : List Row :=
  match src.arg with
  | some m => getMap e m
  | none => []

def rows (e : Env) (src : MapSrc) : List Row :=
  let arg := argRows e src
  src.fixed.map (fun kv =>
      match arg.find? (fun r => get r.idents t!"k" == kv.1) with
      | some r => r
      | none => ⟨[(t!"k", kv.1)], [(t!"v", renderAtoms e emptyRow kv.2)]⟩)
    ++ arg.filter (fun r => !(src.fixed.any (fun kv => kv.1 == get r.idents t!"k")))

def joinSep (sep : Text) : List Text → Text
  | [] => []
  | [x] => x
  | x :: xs => x ++ sep ++ joinSep sep xs

def finish (mode : RepMode) (items : List Text) : Text :=
  match mode with
  | .join sep => joinSep sep items
  | .accTrim n d => let s := items.flatten; if s.length > n then s.take (s.length - d) else s

def Piece.render (e : Env) : Piece → Text
  | .atom a => a.render e emptyRow
  | .rep src mode body => finish mode ((rows e src).map (fun r => renderInner e r body))

def render (e : Env) (t : List Piece) : Text := (t.map (Piece.render e)).flatten

/-! ### value-freeness (the syntactic criterion) -/

def Atom.vf : Atom → Bool
  | .value _ => false
  | .rowValue _ => false
  | _ => true

def Inner.vf : Inner → Bool
  | .atom a => a.vf
  | .opt _ body => body.all Atom.vf

def Piece.vf : Piece → Bool
  | .atom a => a.vf
  | .rep src _ body => body.all Inner.vf && src.fixed.all (fun kv => kv.2.all Atom.vf)

def valueFree (t : List Piece) : Bool := t.all Piece.vf

/-- forget every stored value, keep every name and the shape of every mapping -/
def Row.erase (r : Row) : Row := ⟨r.idents, r.values.map (fun p => (p.1, []))⟩
def Env.erase (e : Env) : Env :=
  ⟨e.idents, e.values.map (fun p => (p.1, [])), e.maps.map (fun p => (p.1, p.2.map Row.erase))⟩

/-- which stored values a template writes into the text: scalar value names, and `row.<field>` for values of a mapping -/
def Atom.leaks : Atom → List Text
  | .value x => [x]
  | .rowValue f => [t!"row." ++ f]
  | _ => []
def Inner.leaks : Inner → List Text
  | .atom a => a.leaks
  | .opt _ body => body.flatMap Atom.leaks
def Piece.leaks : Piece → List Text
  | .atom a => a.leaks
  | .rep src _ body => src.fixed.flatMap (fun kv => kv.2.flatMap Atom.leaks) ++ body.flatMap Inner.leaks
def leaks (t : List Piece) : List Text := (t.flatMap Piece.leaks).eraseDups

/-- `$names` a template mentions -/
def Atom.params : Atom → List Text
  | .param x => [x]
  | _ => []
def Inner.params : Inner → List Text
  | .atom a => a.params
  | .opt _ body => body.flatMap Atom.params
def Piece.params : Piece → List Text
  | .atom a => a.params
  | .rep src _ body => body.flatMap Inner.params ++ src.fixed.flatMap (fun kv => kv.2.flatMap Atom.params)
def tplParams (t : List Piece) : List Text := t.flatMap Piece.params


/-! ### statement lint

The lint works on code points (`List Nat`): comparisons of `Nat` literals are cheap in the kernel,
comparisons of `Char` are not.

Code points from `markerBase` (= 0x110000, one past the last Unicode scalar, so no Python string contains one) stand for
*identifier holes*: `markerBase + k` is hole number `k`.  The lexer treats them as identifier characters, so a template rendered
with holes in its identifier slots is lexed and linted like any other text, and `expand ρ` substitutes strings for the holes.
`Proofs/Lemmas/C19Lex.lean` / `C19Scan.lean` prove that the verdict on `expand ρ t` is the verdict on `t` for every assignment `ρ`
of identifier-shaped non-keyword strings (under the decidable side condition `cleanFor t`). -/

abbrev Codes := Text

macro:max "n!" s:str : term => `(t! $s)

def markerBase : Nat := 1114112
def isMarker (c : Nat) : Bool := Nat.ble markerBase c
def isIdStart0 (c : Nat) : Bool := (Nat.ble cp%'a' c && Nat.ble c cp%'z') || (Nat.ble cp%'A' c && Nat.ble c cp%'Z') || c == cp%'_'
def isIdStart (c : Nat) : Bool := isIdStart0 c || isMarker c
def isDigit (c : Nat) : Bool := Nat.ble cp%'0' c && Nat.ble c cp%'9'
def isIdChar (c : Nat) : Bool := isIdStart c || isDigit c
def isWs (c : Nat) : Bool := c == cp%' ' || c == cp%'\t' || c == cp%'\n' || c == cp%'\r'
def isQuote (c : Nat) : Bool := c == cp%'\'' || c == cp%'"' || c == cp%'`'
def lowerC (c : Nat) : Nat := if Nat.ble cp%'A' c && Nat.ble c cp%'Z' then c + 32 else c
def lower (s : Codes) : Codes := s.map lowerC

/-- substitute `ρ k` for hole `k` -/
def expand (ρ : Nat → Text) : Text → Text
  | [] => []
  | c :: t => (if isMarker c then ρ (c - markerBase) else [c]) ++ expand ρ t

/-- `id`: a word that is not a keyword (variable, label, property, function, procedure name) - or any word right after a `.`;
`kw`: a keyword, lower-cased -/
inductive Tok where
  | id (s : Codes)
  | kw (w : Codes)
  | num
  | str
  | par (s : Codes)
  | sym (c : Nat)
  deriving Repr, DecidableEq

/-- rest of the input after the closing quote `q`; `none` if the literal is not terminated.
A backslash escapes the next character (not inside backticks). -/
def skipStr (q : Nat) : Codes → Option Codes
  | [] => none
  | c :: rest =>
    if c == q then some rest
    else if c == cp%'\\' && q != cp%'`' then
      match rest with
      | [] => none
      | _ :: r2 => skipStr q r2
    else skipStr q rest

structure Lexed where
  toks : List Tok
  stripped : Codes    -- the text with literal contents and comments removed
  closed : Bool       -- every quote terminated
  deriving Repr, DecidableEq

def Lexed.cons (t : List Tok) (s : Codes) (L : Lexed) : Lexed := ⟨t ++ L.toks, s ++ L.stripped, L.closed⟩

/-- raw tokens: every word is an `id` here, `classify` separates the keywords afterwards -/
def lexAux : Nat → Codes → Lexed
  | 0, _ => ⟨[], [], true⟩
  | _ + 1, [] => ⟨[], [], true⟩
  | fuel + 1, c :: rest =>
    if isQuote c then
      match skipStr c rest with
      | none => ⟨[Tok.str], [], false⟩
      | some r => (lexAux fuel r).cons [Tok.str] [c, c]
    else if c == cp%'/' && rest.head? == some cp%'/' then lexAux fuel (rest.dropWhile (fun x => x != cp%'\n'))
    else if isWs c then (lexAux fuel rest).cons [] [c]
    else if c == cp%'$' && (rest.head?.map isIdStart).getD false then
      (lexAux fuel (rest.dropWhile isIdChar)).cons [Tok.par (rest.takeWhile isIdChar)] (cp%'$' :: rest.takeWhile isIdChar)
    else if isIdStart c then
      (lexAux fuel (rest.dropWhile isIdChar)).cons [Tok.id (c :: rest.takeWhile isIdChar)] (c :: rest.takeWhile isIdChar)
    else if isDigit c then
      (lexAux fuel (rest.dropWhile isDigit)).cons [Tok.num] (c :: rest.takeWhile isDigit)
    else (lexAux fuel rest).cons [Tok.sym c] [c]

def lexRaw (t : Codes) : Lexed := lexAux (t.length + 1) t

def keywords : List Codes := [
  n!"match", n!"optional", n!"where", n!"return", n!"with", n!"as", n!"call", n!"yield", n!"set", n!"remove", n!"detach",
  n!"delete", n!"unwind", n!"union", n!"and", n!"or", n!"not", n!"in", n!"is", n!"null", n!"true", n!"false", n!"distinct",
  n!"create", n!"merge", n!"order", n!"by", n!"limit", n!"skip", n!"on", n!"xor", n!"starts", n!"ends", n!"contains",
  n!"case", n!"when", n!"then", n!"else", n!"end", n!"exists", n!"all", n!"any", n!"none", n!"single", n!"asc", n!"desc",
  n!"foreach", n!"index", n!"if", n!"for", n!"constraint", n!"require", n!"unique", n!"drop", n!"assert"]

def isKw (x : Codes) : Bool := keywords.contains (lower x)

def isSym (t : Option Tok) (c : Nat) : Bool :=
  match t with
  | some (.sym d) => d == c
  | _ => false
def isKwT (t : Option Tok) (w : Codes) : Bool :=
  match t with
  | some (.kw x) => x == w
  | _ => false
def kwIn (t : Option Tok) (l : List Codes) : Bool :=
  match t with
  | some (.kw x) => l.contains x
  | _ => false

/-- a word is a keyword unless it directly follows a `.` (property / namespace position) -/
def classify : Option Tok → List Tok → List Tok
  | _, [] => []
  | p, .id nm :: rest => (if !isSym p cp%'.' && isKw nm then Tok.kw (lower nm) else Tok.id nm) :: classify (some (.id nm)) rest
  | _, t :: rest => t :: classify (some t) rest

def closer (c : Nat) : Option Nat :=
  if c == cp%'(' then some cp%')' else if c == cp%'[' then some cp%']' else if c == cp%'{' then some cp%'}' else none

def balAux : List Tok → Codes → Bool
  | [], stk => stk.isEmpty
  | .sym c :: ts, stk =>
    match closer c with
    | some d => balAux ts (d :: stk)
    | none =>
      if c == cp%')' || c == cp%']' || c == cp%'}' then
        match stk with
        | top :: s' => if top == c then balAux ts s' else false
        | [] => false
      else balAux ts stk
  | _ :: ts, stk => balAux ts stk

/-- `{{`, `}}` or `{name}` outside literals -/
def unexpanded : Codes → Bool
  | [] => false
  | c :: rest =>
    if c == cp%'{' then
      (rest.head? == some cp%'{') ||
      ((rest.head?.map isIdStart).getD false && (rest.dropWhile isIdChar).head? == some cp%'}') ||
      unexpanded rest
    else if c == cp%'}' then (rest.head? == some cp%'}') || unexpanded rest
    else unexpanded rest

/-- the token before a `(` makes it a function call -/
def isCallee (t : Option Tok) : Bool :=
  match t with
  | some (.id _) => true
  | _ => false

def isWordTok : Tok → Bool
  | .id _ => true
  | .kw _ => true
  | _ => false

/-- tokens after an identifier: `.a.b(` = namespaced function -/
def dottedCall : List Tok → Bool
  | .sym c :: w :: rest =>
    if c == cp%'.' && isWordTok w then
      match rest with
      | .sym d :: _ => if d == cp%'(' then true else dottedCall rest
      | _ => false
    else false
  | _ => false

def addNew (l : List Codes) (x : Codes) : List Codes := if l.contains x then l else l ++ [x]

/-- words that open a clause -/
def clauseWords : List Codes := [
  n!"match", n!"optional", n!"where", n!"return", n!"with", n!"call", n!"yield", n!"set", n!"remove", n!"detach", n!"delete",
  n!"unwind", n!"union", n!"order", n!"limit", n!"skip", n!"create", n!"merge", n!"foreach"]
/-- words that must be followed by an operand -/
def needsOperand : List Codes := [
  n!"where", n!"set", n!"return", n!"with", n!"and", n!"or", n!"xor", n!"not", n!"remove", n!"delete", n!"unwind", n!"match",
  n!"yield", n!"as", n!"in", n!"by", n!"limit", n!"skip", n!"call", n!"when", n!"then", n!"else"]
/-- words that cannot be that operand -/
def badFollowerWords : List Codes := [
  n!"match", n!"optional", n!"where", n!"return", n!"with", n!"call", n!"yield", n!"set", n!"remove", n!"detach", n!"delete",
  n!"unwind", n!"union", n!"order", n!"limit", n!"skip", n!"create", n!"merge", n!"on", n!"and", n!"or", n!"xor", n!"as", n!"in",
  n!"then", n!"else", n!"end", n!"when", n!"by"]
/-- binary boolean words: they also need a LEFT operand -/
def boolWords : List Codes := [n!"and", n!"or", n!"xor"]
/-- keywords an operand can end with -/
def operandEndWords : List Codes := [n!"null", n!"true", n!"false", n!"end"]
/-- operator symbols that need a right operand (`.` as well, unless it is the second dot of a range) -/
def opSyms : List Nat := [cp%'=', cp%'<', cp%'>', cp%'+', cp%':']
/-- clause words a statement (or a branch of a UNION) can start with -/
def starters : List Codes := [
  n!"match", n!"optional", n!"create", n!"merge", n!"call", n!"unwind", n!"with", n!"return", n!"foreach"]
/-- clause words a statement can end in (ORDER BY / SKIP / LIMIT count as part of the RETURN or WITH they follow) -/
def enders : List Codes := [
  n!"return", n!"set", n!"remove", n!"delete", n!"create", n!"merge", n!"call", n!"yield", n!"foreach"]
def subClauses : List Codes := [n!"order", n!"skip", n!"limit"]
def patternClauses : List Codes := [n!"match", n!"create", n!"merge"]
/-- the word after these is the NAME of an index / constraint, not a variable -/
def schemaNameWords : List Codes := [n!"index", n!"constraint"]

def isOpener (c : Nat) : Bool := c == cp%'(' || c == cp%'[' || c == cp%'{'
def isCloser (c : Nat) : Bool := c == cp%')' || c == cp%']' || c == cp%'}'

def badFollower (t : Option Tok) : Bool :=
  match t with
  | none => true
  | some (.kw y) => badFollowerWords.contains y
  | some (.sym c) => isCloser c || c == cp%',' || c == cp%';' || c == cp%'|'
  | _ => false

def isClauseTok (t : Option Tok) : Bool := kwIn t clauseWords

/-- the token an operand can end with -/
def operandEnd (t : Option Tok) : Bool :=
  match t with
  | some (.id _) => true
  | some .num => true
  | some .str => true
  | some (.par _) => true
  | some (.sym c) => isCloser c || c == cp%'*'
  | some (.kw y) => operandEndWords.contains y
  | none => false

/-- after a comma: nothing, a closer or another comma -/
def commaBad (t : Option Tok) : Bool :=
  match t with
  | none => true
  | some (.sym d) => isCloser d || d == cp%','
  | _ => false

def isNone (t : Option Tok) : Bool :=
  match t with
  | none => true
  | _ => false

/-- may clause word `lw` follow when the last clause word at bracket depth 0 was `last` (`[]`: start of the statement or of a UNION
branch)?  WHERE belongs to MATCH / WITH / YIELD, YIELD to CALL, UNION follows a RETURN, nothing but UNION follows a RETURN. -/
def orderOK (last lw : Codes) : Bool :=
  if last == [] then starters.contains lw
  else if last == n!"return" then lw == n!"union" || subClauses.contains lw
  else if last == n!"optional" then lw == n!"match"
  else if last == n!"detach" then lw == n!"delete"
  else if lw == n!"where" then last == n!"match" || last == n!"with" || last == n!"yield"
  else if lw == n!"yield" then last == n!"call"
  else if lw == n!"union" then false
  else if subClauses.contains lw then last == n!"with"
  else true

/-- state of the scoping pass.  `scope`: variables carried into the current scope by the last WITH; `segB`: variables bound
since then; `clU`: variables used in the clause being read (checked when the clause ends: binding is sequential, clause by clause);
`carry`: what the WITH clause being read lists or aliases; `last`: last clause word at depth 0. -/
structure St where
  depth : Nat
  inYield : Bool
  inItems : Bool
  star : Bool
  scope : List Codes
  segB : List Codes
  clU : List Codes
  carry : List Codes
  unbound : List Codes
  last : Codes
  emptyClause : Bool
  dangling : Bool
  operand : Bool
  order : Bool
  deriving Repr, DecidableEq

def St.init : St := ⟨0, false, false, false, [], [], [], [], [], [], false, false, false, false⟩

/-- end of a clause: its uses must be bound by now -/
def St.flush (s : St) : St :=
  { s with unbound := s.clU.foldl (fun acc x => if s.scope.contains x || s.segB.contains x || acc.contains x then acc else acc ++ [x]) s.unbound,
           clU := [] }

/-- end of a scope: a WITH clause hands on only what it lists (everything after `*`), UNION (`reset`) starts from nothing -/
def St.close (s : St) (reset : Bool) : St :=
  let s1 := s.flush
  let scope' := if reset then [] else if s1.inItems then s1.carry ++ (if s1.star then s1.scope ++ s1.segB else []) else s1.scope ++ s1.segB
  { s1 with scope := scope', segB := [], inItems := false }

/-- the identifier at this position is bound here: node / relationship pattern variable, comprehension or quantifier variable,
alias after AS, path variable `p = …` in a pattern clause -/
def binds (s : St) (p2 p1 nx : Option Tok) : Bool :=
  (isSym p1 cp%'(' && !isCallee p2 && !isSym nx cp%'.' && !isSym nx cp%'(') ||
  (isSym p1 cp%'[' && isSym p2 cp%'-') ||
  (isSym p1 cp%'[' && isKwT nx n!"in") ||
  isKwT p1 n!"as" ||
  (s.depth == 0 && isSym nx cp%'=' && (kwIn p1 patternClauses || (isSym p1 cp%',' && patternClauses.contains s.last)))

/-- the identifier at this position refers to a variable (not a label, property, map key, function or procedure name) -/
def uses (p1 nx : Option Tok) (rest : List Tok) : Bool :=
  !isSym p1 cp%'.' && !isSym p1 cp%':' && !isSym nx cp%':' && !isSym nx cp%'(' &&
  !(isSym nx cp%'.' && dottedCall rest) && !kwIn p1 schemaNameWords

/-- a bare variable or an alias in the item list of a WITH at depth 0 stays visible -/
def carries (s : St) (p1 nx : Option Tok) : Bool :=
  s.inItems && s.depth == 0 &&
  (((isKwT p1 n!"with" || isKwT p1 n!"distinct" || isSym p1 cp%',') && (isNone nx || isSym nx cp%',' || isClauseTok nx)) ||
   isKwT p1 n!"as")

def stepKw (s0 : St) (p1 nx : Option Tok) (lw : Codes) : St :=
  let s : St := { s0 with emptyClause := s0.emptyClause || (needsOperand.contains lw && badFollower nx && !isKwT p1 n!"on"),
                          operand := s0.operand || (boolWords.contains lw && !operandEnd p1) }
  let withClause := lw == n!"with" && !(isKwT p1 n!"starts" || isKwT p1 n!"ends")
  let s1 : St :=
    if s.depth == 0 && clauseWords.contains lw && (lw != n!"with" || withClause) then
      let sA := if s.inItems then s.close false else s.flush
      let sB := if lw == n!"union" then sA.close true else sA
      let sC : St := { sB with order := sB.order || !orderOK sB.last lw,
                               last := if lw == n!"union" then [] else if subClauses.contains lw then sB.last else lw }
      if withClause then { sC with inItems := true, carry := [], star := false } else sC
    else s
  { s1 with inYield := lw == n!"yield" }

def stepId (s : St) (p2 p1 : Option Tok) (x : Codes) (rest : List Tok) : St :=
  let nx := rest.head?
  if s.inYield then { s with segB := addNew s.segB x }
  else
    { s with segB := if binds s p2 p1 nx then addNew s.segB x else s.segB,
             clU := if uses p1 nx rest then addNew s.clU x else s.clU,
             carry := if carries s p1 nx then addNew s.carry x else s.carry }

def stepSym (s0 : St) (p1 nx : Option Tok) (c : Nat) : St :=
  let dg := (c == cp%',' && commaBad nx) || (isOpener c && isSym nx cp%',')
  let op := (opSyms.contains c || (c == cp%'.' && !isSym p1 cp%'.')) && badFollower nx
  let s1 : St := { s0 with dangling := s0.dangling || dg, operand := s0.operand || op,
                           inYield := s0.inYield && (c == cp%',' || c == cp%'*'),
                           star := s0.star || (s0.inItems && s0.depth == 0 && c == cp%'*' && (isKwT p1 n!"with" || isKwT p1 n!"distinct")) }
  if isOpener c then { s1 with depth := s1.depth + 1 }
  else if isCloser c then { s1 with depth := s1.depth - 1 }
  else s1

def step (s : St) (p2 p1 : Option Tok) (cur : Tok) (rest : List Tok) : St :=
  match cur with
  | .kw lw => stepKw s p1 rest.head? lw
  | .id x => stepId s p2 p1 x rest
  | .sym c => stepSym s p1 rest.head? c
  | _ => { s with inYield := false }

/-- end of the statement: the last clause is closed; a statement ends in RETURN, an updating clause or a CALL -/
def St.finish (s : St) : St :=
  let s1 := s.close false
  { s1 with order := s1.order || !enders.contains s1.last }

/-- one pass over the tokens with two tokens of left context -/
def scan : List Tok → Option Tok → Option Tok → St → St
  | [], _, _, s => s.finish
  | cur :: rest, p2, p1, s => scan rest p1 (some cur) (step s p2 p1 cur rest)

structure Lint where
  defects : List String
  unbound : List Codes
  missing : List Codes
  deriving Repr, DecidableEq

def parsOf (toks : List Tok) : List Codes := toks.foldl (fun acc t => match t with | .par x => addNew acc x | _ => acc) []

/-- Well-formedness as the property names it, decided on tokens: balanced; nothing unexpanded; every `$name` supplied; every
variable bound where it is referenced (clause by clause; WITH at bracket depth 0 starts a new scope, UNION starts from nothing;
patterns, AS, YIELD, UNWIND … AS and comprehensions bind); every clause keyword / boolean operator / operator symbol has its
operand(s); no dangling comma; the clauses come in an order Cypher accepts. -/
def lintCodes (text : Codes) (supplied : List Codes) : Lint :=
  let lx := lexRaw text
  let toks := classify none lx.toks
  let sc := scan toks none none St.init
  let missing := (parsOf toks).filter (fun x => !supplied.contains x)
  let d1 := if !lx.closed || !balAux toks [] then ["unbalanced"] else []
  let d2 := if unexpanded lx.stripped then ["unexpanded-template"] else []
  let d3 := if missing.isEmpty then [] else ["missing-parameter"]
  let d4 := if sc.unbound.isEmpty then [] else ["unbound-variable"]
  let d5 := if sc.emptyClause then ["empty-clause"] else []
  let d6 := if sc.dangling then ["dangling-comma"] else []
  let d7 := if sc.operand then ["missing-operand"] else []
  let d8 := if sc.order then ["clause-order"] else []
  ⟨d1 ++ d2 ++ d3 ++ d4 ++ d5 ++ d6 ++ d7 ++ d8, sc.unbound, missing⟩

def lint (text : Text) (supplied : List Text) : Lint := lintCodes text supplied

def checkStmt (text : Text) (supplied : List Text) : Bool := (lint text supplied).defects.isEmpty

/-! ### identifier holes: the side conditions under which the verdict does not depend on what fills them -/

def plain (s : Codes) : Bool := s.all (fun c => !isMarker c)

/-- a raw token is clean when a hole is a whole word of its own (not glued to other identifier characters, not a parameter name) -/
def cleanTok : Tok → Bool
  | .id nm => plain nm || (match nm with | [c] => isMarker c | _ => false)
  | .par nm => plain nm
  | _ => true

def isHole : Tok → Bool
  | .id nm => !plain nm
  | _ => false

/-- every hole sits at a position where the scoping pass ignores the identifier (label, relationship type, property name, map key) -/
def scanChk : List Tok → Option Tok → Option Tok → St → Bool
  | [], _, _, _ => true
  | cur :: rest, p2, p1, s =>
    (!isHole cur || (!s.inYield && !binds s p2 p1 rest.head? && !uses p1 rest.head? rest && !carries s p1 rest.head?)) &&
    scanChk rest p1 (some cur) (step s p2 p1 cur rest)

def cleanFor (t : Text) : Bool :=
  (lexRaw t).toks.all cleanTok && scanChk (classify none (lexRaw t).toks) none none St.init

/-- what may fill a hole: a non-empty identifier-shaped string that is not one of the lint's keywords -/
def identOK (x : Codes) : Bool :=
  (match x with | [] => false | c :: _ => isIdStart0 c) && x.all (fun c => isIdStart0 c || isDigit c) && !isKw x


/-! ### environments the generated templates are evaluated in -/

/-- canonical environment for an operation: every identifier slot holds `X`, every value slot `v`,
every mapping has one row (key `K`, value `v`, every field present) -/
def canonRow : Row := ⟨[(t!"k", t!"K"), (t!"v", t!"discard"), (t!"resource_type", t!"GPU"), (t!"count", t!"1")],
                       [(t!"v", t!"v"), (t!"resource_model", t!"m")]⟩
def identNames : List Text := [t!"label", t!"rel", t!"kind", t!"prop_name", t!"node_label", t!"rel1", t!"rel2", t!"node1_label", t!"node2_label"]
def valueNames : List Text := [t!"node_id", t!"node_a", t!"node_b", t!"node_z", t!"prop_val", t!"name", t!"node_name", t!"ntype", t!"cut_off", t!"graph_id", t!"other_graph_id", t!"graphml_file"]
def mapNames : List Text := [t!"props", t!"merge_properties", t!"component_counts"]
def canonEnv : Env :=
  ⟨identNames.map (fun n => (n, t!"X")), valueNames.map (fun n => (n, t!"v")),
   [(t!"props", [canonRow]), (t!"merge_properties", [canonRow]), (t!"component_counts", [canonRow])]⟩

/-- the same with every mapping EMPTY (empty props dict, empty merge_properties, no counted components) -/
def emptyMapsEnv : Env := ⟨canonEnv.idents, canonEnv.values,
  [(t!"props", []), (t!"merge_properties", []), (t!"component_counts", [])]⟩

/-- mappings with entries, but no counted components -/
def propsOnlyEnv : Env := ⟨canonEnv.idents, canonEnv.values,
  [(t!"props", [canonRow]), (t!"merge_properties", [canonRow]), (t!"component_counts", [])]⟩

/-- the template iterates over a mapping -/
def usesMaps (t : List Piece) : Bool := t.any (fun p => match p with | .rep _ _ _ => true | _ => false)

/-! #### the same shapes with HOLES in every identifier slot

Hole `i` (< 20) is the `i`-th scalar identifier argument (`identNames`); holes from 20 are the identifier fields of mapping rows
(key, merge behaviour, component type).  Counts (`count`) and every stored value keep their canonical text. -/

def hole (k : Nat) : Text := [markerBase + k]
def rowBase : Nat := 20
def holeRow (b : Nat) : Row := ⟨[(t!"k", hole b), (t!"v", hole (b + 1)), (t!"resource_type", hole (b + 2)), (t!"count", t!"1")],
                                 [(t!"v", t!"v"), (t!"resource_model", t!"m")]⟩
def holeIdents : List (Text × Text) := (List.range identNames.length).zip identNames |>.map (fun p => (p.2, hole p.1))
/-- `n` rows in every mapping (`withComps = false`: no counted components) -/
def holeEnv (n : Nat) (withComps : Bool) : Env :=
  ⟨holeIdents, canonEnv.values,
   [(t!"props", (List.range n).map (fun i => holeRow (rowBase + 4 * i))),
    (t!"merge_properties", (List.range n).map (fun i => holeRow (rowBase + 20 + 4 * i))),
    (t!"component_counts", if withComps then (List.range n).map (fun i => holeRow (rowBase + 40 + 4 * i)) else [])]⟩
/-- None/empty, singleton, several (2 and 3 rows), and entries without counted components -/
def holeEnvs : List Env := [holeEnv 0 false, holeEnv 1 true, holeEnv 1 false, holeEnv 2 true, holeEnv 2 false, holeEnv 3 true]

def expandPairs (ρ : Nat → Text) (l : List (Text × Text)) : List (Text × Text) := l.map (fun p => (p.1, expand ρ p.2))
def Row.expandAll (ρ : Nat → Text) (r : Row) : Row := ⟨expandPairs ρ r.idents, expandPairs ρ r.values⟩
/-- fill the holes of an environment -/
def Env.expandAll (ρ : Nat → Text) (e : Env) : Env :=
  ⟨expandPairs ρ e.idents, expandPairs ρ e.values, e.maps.map (fun p => (p.1, p.2.map (Row.expandAll ρ)))⟩

/-- keys of the dict literals some templates start from (`{'Class': …, 'GraphID': …, 'NodeID': …}.update(props)`): a caller's
entry with such a key REPLACES the literal's entry, which changes the shape of the text - the hole theorems exclude it -/
def reservedKeys : List Text := [t!"Class", t!"GraphID", t!"NodeID"]

/-- side conditions (on the template and the environment with holes) under which rendering commutes with filling the holes -/
def atomPlain : Atom → Bool
  | .lit s => plain s
  | .param x => plain x
  | _ => true
def innerPlain : Inner → Bool
  | .atom a => atomPlain a
  | .opt _ body => body.all atomPlain
def isRowHole (x : Text) : Bool := match x with | [c] => Nat.ble (markerBase + rowBase) c | _ => false
def keysOK (e : Env) (src : MapSrc) : Bool :=
  src.fixed.isEmpty ||
  (src.fixed.all (fun kv => plain kv.1 && reservedKeys.contains kv.1 && kv.2.all atomPlain) &&
   (argRows e src).all (fun r => isRowHole (get r.idents t!"k")))
def trimOK (mode : RepMode) (items : List Text) : Bool :=
  match mode with
  | .join sep => plain sep
  | .accTrim n d => let s := items.flatten; s.isEmpty || (Nat.blt n s.length && Nat.ble d s.length && plain (s.drop (s.length - d)))
def pieceOK (e : Env) : Piece → Bool
  | .atom a => atomPlain a
  | .rep src mode body => body.all innerPlain && keysOK e src && trimOK mode ((rows e src).map (fun r => renderInner e r body))
def renderOK (e : Env) (t : List Piece) : Bool := t.all (pieceOK e)

/-- what the hole theorems quantify over: every hole filled with an identifier-shaped non-keyword string, row holes (mapping
keys) not with a reserved key -/
def GoodSubst (ρ : Nat → Text) : Prop :=
  (∀ k, identOK (ρ k) = true) ∧ (∀ k, rowBase ≤ k → reservedKeys.contains (ρ k) = false)

end FimVerif.Cypher
