/-!
# Cypher statement templates (C19)

What the Neo4j backend hands to `session.run` is a *text* built from string literals and
interpolations, plus keyword parameters.  `gen/cypher.py` turns every such construction in the five
Neo4j modules into a `List Piece` (in `FimVerif/Generated/Cypher.lean`); this file gives the pieces
their meaning (`render`, mirroring Python's f-string / `join` / accumulate-and-trim semantics), says
when a template is free of stored values (`valueFree`), and contains the statement lint `checkStmt`
(balanced, nothing left unexpanded, every `$name` supplied, every variable bound).

All text is `List Char` (code points, like Python's `str`), so that everything reduces in the kernel.
No Mathlib.
-/
namespace FimVerif.Cypher

abbrev Text := List Char

/-- `t!"abc"` is the list `['a','b','c']`, built when the file is elaborated (a `String` literal would have to be
decoded inside the kernel, which is slow for long statements) -/
macro:max "t!" s:str : term => do
  let cs := s.getString.toList
  let elems ← cs.toArray.mapM (fun c => `($(Lean.Syntax.mkCharLit c)))
  `(([$elems,*] : List Char))

/-- scalar pieces.  `ident`/`rowIdent`: class / relation / property *name* (or closed keyword);
`value`/`rowValue`: anything a caller stores or looks up by; `param x`: the text `$x`. -/
inductive Atom where
  | lit (s : Text)
  | param (x : Text)
  | ident (x : String)
  | value (x : String)
  | rowIdent (f : String)
  | rowValue (f : String)
  deriving Repr, DecidableEq

/-- inside a loop body: an atom, or atoms that are present only when the row has all the fields `fs`
(`if k[0] is not None: l.append(...)`). -/
inductive Inner where
  | atom (a : Atom)
  | opt (fs : List String) (body : List Atom)
  deriving Repr, DecidableEq

/-- `join sep`: `sep.join(items)`.  `accTrim n d`: `acc = "".join(items); if len(acc) > n: acc = acc[:-d]`. -/
inductive RepMode where
  | join (sep : Text)
  | accTrim (minLen drop : Nat)
  deriving Repr, DecidableEq

/-- the mapping iterated over: a dict literal (`fixed`, values are templates) updated with the argument map `arg`. -/
structure MapSrc where
  fixed : List (Text × List Atom)
  arg : Option String
  deriving Repr, DecidableEq

inductive Piece where
  | atom (a : Atom)
  | rep (src : MapSrc) (mode : RepMode) (body : List Inner)
  deriving Repr, DecidableEq

/-- one entry of a mapping: identifier-class fields (`k` = key) and value-class fields (`v` = value). -/
structure Row where
  idents : List (String × Text)
  values : List (String × Text)
  deriving Repr, DecidableEq

structure Env where
  idents : List (String × Text)
  values : List (String × Text)
  maps : List (String × List Row)
  deriving Repr, DecidableEq

structure Op where
  key : String
  variant : Nat
  line : Nat
  tpl : List Piece
  supplied : List Text
  deriving Repr

def emptyRow : Row := ⟨[], []⟩

def get (l : List (String × Text)) (x : String) : Text :=
  match l.find? (fun p => p.1 == x) with
  | some p => p.2
  | none => []

def getMap (e : Env) (m : String) : List Row :=
  match e.maps.find? (fun p => p.1 == m) with
  | some p => p.2
  | none => []

def Atom.render (e : Env) (r : Row) : Atom → Text
  | .lit s => s
  | .param x => '$' :: x
  | .ident x => get e.idents x
  | .value x => get e.values x
  | .rowIdent f => get r.idents f
  | .rowValue f => get r.values f

def renderAtoms (e : Env) (r : Row) (as : List Atom) : Text := (as.map (Atom.render e r)).flatten

def Row.has (r : Row) (f : String) : Bool := r.idents.any (fun p => p.1 == f) || r.values.any (fun p => p.1 == f)

def Inner.render (e : Env) (r : Row) : Inner → Text
  | .atom a => a.render e r
  | .opt fs body => if fs.all r.has then renderAtoms e r body else []

def renderInner (e : Env) (r : Row) (body : List Inner) : Text := (body.map (Inner.render e r)).flatten

/-- Python `d = {fixed}; d.update(arg)`: a fixed key keeps its position and takes the argument's value when
the argument has that key; the argument's other keys follow in order. -/
def argRows (e : Env) (src : MapSrc) : List Row :=
  match src.arg with
  | some m => getMap e m
  | none => []

def rows (e : Env) (src : MapSrc) : List Row :=
  let arg := argRows e src
  src.fixed.map (fun kv =>
      match arg.find? (fun r => get r.idents "k" == kv.1) with
      | some r => r
      | none => ⟨[("k", kv.1)], [("v", renderAtoms e emptyRow kv.2)]⟩)
    ++ arg.filter (fun r => !(src.fixed.any (fun kv => kv.1 == get r.idents "k")))

def joinSep (sep : Text) : List Text → Text
  | [] => []
  | [x] => x
  | x :: xs => x ++ sep ++ joinSep sep xs

def finish (mode : RepMode) (items : List Text) : Text :=
  match mode with
  | .join sep => joinSep sep items
  | .accTrim n d => let s := items.flatten; if s.length > n then s.take (s.length - d) else s

def Piece.render (e : Env) : Piece → Text
  | .atom a => a.render e emptyRow
  | .rep src mode body => finish mode ((rows e src).map (fun r => renderInner e r body))

def render (e : Env) (t : List Piece) : Text := (t.map (Piece.render e)).flatten

/-! ### value-freeness (the syntactic criterion) -/

def Atom.vf : Atom → Bool
  | .value _ => false
  | .rowValue _ => false
  | _ => true

def Inner.vf : Inner → Bool
  | .atom a => a.vf
  | .opt _ body => body.all Atom.vf

def Piece.vf : Piece → Bool
  | .atom a => a.vf
  | .rep src _ body => body.all Inner.vf && src.fixed.all (fun kv => kv.2.all Atom.vf)

def valueFree (t : List Piece) : Bool := t.all Piece.vf

/-- forget every stored value, keep every name and the shape of every mapping -/
def Row.erase (r : Row) : Row := ⟨r.idents, r.values.map (fun p => (p.1, []))⟩
def Env.erase (e : Env) : Env :=
  ⟨e.idents, e.values.map (fun p => (p.1, [])), e.maps.map (fun p => (p.1, p.2.map Row.erase))⟩

/-- `$names` a template mentions -/
def Atom.params : Atom → List Text
  | .param x => [x]
  | _ => []
def Inner.params : Inner → List Text
  | .atom a => a.params
  | .opt _ body => body.flatMap Atom.params
def Piece.params : Piece → List Text
  | .atom a => a.params
  | .rep src _ body => body.flatMap Inner.params ++ src.fixed.flatMap (fun kv => kv.2.flatMap Atom.params)
def tplParams (t : List Piece) : List Text := t.flatMap Piece.params

/-! ### statement lint -/

def isIdStart (c : Char) : Bool := (decide ('a' ≤ c) && decide (c ≤ 'z')) || (decide ('A' ≤ c) && decide (c ≤ 'Z')) || c == '_'
def isDigit (c : Char) : Bool := decide ('0' ≤ c) && decide (c ≤ '9')
def isIdChar (c : Char) : Bool := isIdStart c || isDigit c
def isWs (c : Char) : Bool := c == ' ' || c == '\t' || c == '\n' || c == '\r'
def lowerC (c : Char) : Char := if decide ('A' ≤ c) && decide (c ≤ 'Z') then Char.ofNat (c.toNat + 32) else c
def lower (s : Text) : Text := s.map lowerC

inductive Tok where
  | id (s : Text)
  | num
  | str
  | par (s : Text)
  | sym (c : Char)
  deriving Repr, DecidableEq

/-- rest of the input after the closing quote `q`; `none` if the literal is not terminated.
A backslash escapes the next character (not inside backticks). -/
def skipStr (q : Char) : Nat → List Char → Option (List Char)
  | 0, _ => none
  | _ + 1, [] => none
  | fuel + 1, c :: rest =>
    if c == q then some rest
    else if c == '\\' && q != '`' then
      match rest with
      | [] => none
      | _ :: r2 => skipStr q fuel r2
    else skipStr q fuel rest

structure Lexed where
  toks : List Tok
  stripped : Text     -- the text with literal contents and comments removed
  closed : Bool       -- every quote terminated

def lexAux : Nat → List Char → List Tok → List Char → Lexed
  | 0, _, ts, st => ⟨ts.reverse, st.reverse, true⟩
  | _ + 1, [], ts, st => ⟨ts.reverse, st.reverse, true⟩
  | fuel + 1, c :: rest, ts, st =>
    if c == '\'' || c == '"' || c == '`' then
      match skipStr c (rest.length + 1) rest with
      | none => ⟨(Tok.str :: ts).reverse, st.reverse, false⟩
      | some r => lexAux fuel r (Tok.str :: ts) (c :: c :: st)
    else if c == '/' && rest.head? == some '/' then lexAux fuel (rest.dropWhile (fun x => x != '\n')) ts st
    else if isWs c then lexAux fuel rest ts (c :: st)
    else if c == '$' && (rest.head?.map isIdStart).getD false then
      let nm := rest.takeWhile isIdChar
      lexAux fuel (rest.dropWhile isIdChar) (Tok.par nm :: ts) (nm.reverse ++ '$' :: st)
    else if isIdStart c then
      let nm := c :: rest.takeWhile isIdChar
      lexAux fuel (rest.dropWhile isIdChar) (Tok.id nm :: ts) (nm.reverse ++ st)
    else if isDigit c then
      let nm := c :: rest.takeWhile isDigit
      lexAux fuel (rest.dropWhile isDigit) (Tok.num :: ts) (nm.reverse ++ st)
    else lexAux fuel rest (Tok.sym c :: ts) (c :: st)

def lex (t : Text) : Lexed := lexAux (t.length + 1) t [] []

def closer (c : Char) : Option Char :=
  if c == '(' then some ')' else if c == '[' then some ']' else if c == '{' then some '}' else none

def balAux : List Tok → List Char → Bool
  | [], stk => stk.isEmpty
  | .sym c :: ts, stk =>
    match closer c with
    | some d => balAux ts (d :: stk)
    | none =>
      if c == ')' || c == ']' || c == '}' then
        match stk with
        | top :: s' => if top == c then balAux ts s' else false
        | [] => false
      else balAux ts stk
  | _ :: ts, stk => balAux ts stk

/-- `{{`, `}}` or `{name}` outside literals -/
def unexpanded : List Char → Bool
  | [] => false
  | c :: rest =>
    if c == '{' then
      (rest.head? == some '{') ||
      ((rest.head?.map isIdStart).getD false && (rest.dropWhile isIdChar).head? == some '}') ||
      unexpanded rest
    else if c == '}' then (rest.head? == some '}') || unexpanded rest
    else unexpanded rest

def keywords : List Text := [
  t!"match", t!"optional", t!"where", t!"return", t!"with", t!"as", t!"call", t!"yield", t!"set", t!"remove",
  t!"detach", t!"delete", t!"unwind", t!"union", t!"and", t!"or", t!"not", t!"in", t!"is", t!"null", t!"true",
  t!"false", t!"distinct", t!"create", t!"merge", t!"order", t!"by", t!"limit", t!"skip", t!"on", t!"xor",
  t!"starts", t!"ends", t!"contains", t!"case", t!"when", t!"then", t!"else", t!"end", t!"exists", t!"all",
  t!"any", t!"none", t!"single", t!"asc", t!"desc", t!"foreach", t!"index", t!"if", t!"for"]

def isKw (x : Text) : Bool := keywords.contains (lower x)
def isWord (t : Option Tok) (w : Text) : Bool :=
  match t with
  | some (.id x) => lower x == w
  | _ => false
def isSym (t : Option Tok) (c : Char) : Bool :=
  match t with
  | some (.sym d) => d == c
  | _ => false
/-- the token before a `(` makes it a function call -/
def isCallee (t : Option Tok) : Bool :=
  match t with
  | some (.id x) => !isKw x
  | _ => false

/-- tokens after an identifier: `.a.b(` = namespaced function -/
def dottedCall : List Tok → Bool
  | .sym c :: .id _ :: rest =>
    if c == '.' then
      match rest with
      | .sym d :: _ => if d == '(' then true else dottedCall rest
      | _ => false
    else false
  | _ => false

structure Scan where
  bound : List Text
  used : List Text

def addNew (l : List Text) (x : Text) : List Text := if l.contains x then l else l ++ [x]

/-- one pass over the tokens with two tokens of left context -/
def scan : List Tok → Option Tok → Option Tok → Bool → Scan → Scan
  | [], _, _, _, s => s
  | cur :: rest, p2, p1, inYield, s =>
    let nx := rest.head?
    match cur with
    | .id x =>
      let kw := isKw x
      if inYield && !kw then scan rest p1 (some cur) true ⟨addNew s.bound x, s.used⟩
      else
        let yl := lower x == t!"yield"
        if kw then scan rest p1 (some cur) yl s
        else
          let b1 := isSym p1 '(' && !isCallee p2 && !isSym nx '.' && !isSym nx '('
          let b2 := isSym p1 '[' && isSym p2 '-'
          let b3 := isSym p1 '[' && isWord nx t!"in"
          let b4 := isWord p1 t!"as"
          let b6 := isSym nx '=' && !isSym p1 '.'
          let u := !isSym p1 '.' && !isSym p1 ':' && !isSym nx ':' && !isSym nx '(' &&
                   !(isSym nx '.' && dottedCall rest) && !isWord p1 t!"index"
          let bound' := if b1 || b2 || b3 || b4 || b6 then addNew s.bound x else s.bound
          let used' := if u then addNew s.used x else s.used
          scan rest p1 (some cur) false ⟨bound', used'⟩
    | .sym c =>
      if inYield && (c == ',' || c == '*') then scan rest p1 (some cur) true s
      else scan rest p1 (some cur) false s
    | _ => scan rest p1 (some cur) false s

structure Lint where
  defects : List String
  unbound : List Text
  missing : List Text

def lint (text : Text) (supplied : List Text) : Lint :=
  let lx := lex text
  let sc := scan lx.toks none none false ⟨[], []⟩
  let unbound := sc.used.filter (fun x => !sc.bound.contains x)
  let pars := lx.toks.foldl (fun acc t => match t with | .par x => addNew acc x | _ => acc) []
  let missing := pars.filter (fun x => !supplied.contains x)
  let d1 := if !lx.closed || !balAux lx.toks [] then ["unbalanced"] else []
  let d2 := if unexpanded lx.stripped then ["unexpanded-template"] else []
  let d3 := if missing.isEmpty then [] else ["missing-parameter"]
  let d4 := if unbound.isEmpty then [] else ["unbound-variable"]
  ⟨d1 ++ d2 ++ d3 ++ d4, unbound, missing⟩

def checkStmt (text : Text) (supplied : List Text) : Bool := (lint text supplied).defects.isEmpty

/-- canonical environment for an operation: every identifier slot holds `X`, every value slot `v`,
every mapping has one row (key `K`, value `v`, every field present) -/
def canonRow : Row := ⟨[("k", t!"K"), ("v", t!"discard"), ("resource_type", t!"GPU"), ("count", t!"1")],
                       [("v", t!"v"), ("resource_model", t!"m")]⟩
def identNames : List String := ["label", "rel", "kind", "prop_name", "node_label", "rel1", "rel2", "node1_label", "node2_label"]
def valueNames : List String := ["node_id", "node_a", "node_b", "node_z", "prop_val", "name", "node_name", "ntype",
  "cut_off", "graph_id", "other_graph_id", "graphml_file"]
def canonEnv : Env :=
  ⟨identNames.map (fun n => (n, t!"X")), valueNames.map (fun n => (n, t!"v")),
   [("props", [canonRow]), ("merge_properties", [canonRow]), ("component_counts", [canonRow])]⟩

end FimVerif.Cypher
