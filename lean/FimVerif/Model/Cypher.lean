/-!
# Cypher statement templates (C19)

What the Neo4j backend hands to `session.run` is a *text* built from string literals and
interpolations, plus keyword parameters.  `gen/cypher.py` turns every such construction in the five
Neo4j modules into a `List Piece` (in `FimVerif/Generated/Cypher.lean`); this file gives the pieces
their meaning (`render`, mirroring Python's f-string / `join` / accumulate-and-trim semantics), says
when a template is free of stored values (`valueFree`), and contains the statement lint `checkStmt`
(balanced, nothing left unexpanded, every `$name` supplied, every variable bound).

All text is a list of code points (like Python's `str`), so that everything reduces in the kernel.
No Mathlib.
-/
namespace FimVerif.Cypher

/-- text = list of code points (like Python's `str`).  Code points are `Nat` numerals, not `Char`s: the kernel
compares numerals natively, whereas every look at a `Char` re-runs its validity check. -/
abbrev Text := List Nat

/-- `t!"abc"` is the list `[97, 98, 99]`, built when the file is elaborated; `cp%'a'` is `97` -/
macro:max "t!" s:str : term => do
  let elems ← s.getString.toList.toArray.mapM (fun c => pure (Lean.Syntax.mkNumLit (toString c.toNat)))
  `(([$elems,*] : List Nat))
macro:max "cp%" c:char : term => pure (Lean.Syntax.mkNumLit (toString c.getChar.toNat))

/-- scalar pieces.  `ident`/`rowIdent`: class / relation / property *name* (or closed keyword);
`value`/`rowValue`: anything a caller stores or looks up by; `param x`: the text `$x`. -/
inductive Atom where
  | lit (s : Text)
  | param (x : Text)
  | ident (x : Text)
  | value (x : Text)
  | rowIdent (f : Text)
  | rowValue (f : Text)
  deriving Repr, DecidableEq

/-- inside a loop body: an atom, or atoms that are present only when the row has all the fields `fs`
(`if k[0] is not None: l.append(...)`). -/
inductive Inner where
  | atom (a : Atom)
  | opt (fs : List Text) (body : List Atom)
  deriving Repr, DecidableEq

/-- `join sep`: `sep.join(items)`.  `accTrim n d`: `acc = "".join(items); if len(acc) > n: acc = acc[:-d]`. -/
inductive RepMode where
  | join (sep : Text)
  | accTrim (minLen drop : Nat)
  deriving Repr, DecidableEq

/-- the mapping iterated over: a dict literal (`fixed`, values are templates) updated with the argument map `arg`. -/
structure MapSrc where
  fixed : List (Text × List Atom)
  arg : Option Text
  deriving Repr, DecidableEq

inductive Piece where
  | atom (a : Atom)
  | rep (src : MapSrc) (mode : RepMode) (body : List Inner)
  deriving Repr, DecidableEq

/-- one entry of a mapping: identifier-class fields (`k` = key) and value-class fields (`v` = value). -/
structure Row where
  idents : List (Text × Text)
  values : List (Text × Text)
  deriving Repr, DecidableEq

structure Env where
  idents : List (Text × Text)
  values : List (Text × Text)
  maps : List (Text × List Row)
  deriving Repr, DecidableEq

/-- branch condition under which a variant of a call site is the one that runs, as far as the model can evaluate it -/
inductive Guard where
  | mapEmpty (m : Text)
  | mapNonEmpty (m : Text)
  deriving Repr, DecidableEq

structure Op where
  key : Text
  variant : Nat
  line : Nat
  tpl : List Piece
  supplied : List Text
  guards : List Guard
  deriving Repr

def emptyRow : Row := ⟨[], []⟩

def Guard.holds (e : Env) : Guard → Bool
  | .mapEmpty m => (match e.maps.find? (fun p => p.1 == m) with | some p => p.2.isEmpty | none => true)
  | .mapNonEmpty m => (match e.maps.find? (fun p => p.1 == m) with | some p => !p.2.isEmpty | none => false)

/-- the variant can run in environment `e` -/
def Op.reachable (op : Op) (e : Env) : Bool := op.guards.all (Guard.holds e)

def get (l : List (Text × Text)) (x : Text) : Text :=
  match l.find? (fun p => p.1 == x) with
  | some p => p.2
  | none => []

def getMap (e : Env) (m : Text) : List Row :=
  match e.maps.find? (fun p => p.1 == m) with
  | some p => p.2
  | none => []

def Atom.render (e : Env) (r : Row) : Atom → Text
  | .lit s => s
  | .param x => cp%'$' :: x
  | .ident x => get e.idents x
  | .value x => get e.values x
  | .rowIdent f => get r.idents f
  | .rowValue f => get r.values f

def renderAtoms (e : Env) (r : Row) (as : List Atom) : Text := (as.map (Atom.render e r)).flatten

def Row.has (r : Row) (f : Text) : Bool := r.idents.any (fun p => p.1 == f) || r.values.any (fun p => p.1 == f)

def Inner.render (e : Env) (r : Row) : Inner → Text
  | .atom a => a.render e r
  | .opt fs body => if fs.all r.has then renderAtoms e r body else []

def renderInner (e : Env) (r : Row) (body : List Inner) : Text := (body.map (Inner.render e r)).flatten

/-- Python `d = {fixed}; d.update(arg)`: a fixed key keeps its position and takes the argument's value when
the argument has that key; the argument's other keys follow in order. -/
def argRows (e : Env) (src : MapSrc) : List Row :=
  match src.arg with
  | some m => getMap e m
  | none => []

def rows (e : Env) (src : MapSrc) : List Row :=
  let arg := argRows e src
  src.fixed.map (fun kv =>
      match arg.find? (fun r => get r.idents t!"k" == kv.1) with
      | some r => r
      | none => ⟨[(t!"k", kv.1)], [(t!"v", renderAtoms e emptyRow kv.2)]⟩)
    ++ arg.filter (fun r => !(src.fixed.any (fun kv => kv.1 == get r.idents t!"k")))

def joinSep (sep : Text) : List Text → Text
  | [] => []
  | [x] => x
  | x :: xs => x ++ sep ++ joinSep sep xs

def finish (mode : RepMode) (items : List Text) : Text :=
  match mode with
  | .join sep => joinSep sep items
  | .accTrim n d => let s := items.flatten; if s.length > n then s.take (s.length - d) else s

def Piece.render (e : Env) : Piece → Text
  | .atom a => a.render e emptyRow
  | .rep src mode body => finish mode ((rows e src).map (fun r => renderInner e r body))

def render (e : Env) (t : List Piece) : Text := (t.map (Piece.render e)).flatten

/-! ### value-freeness (the syntactic criterion) -/

def Atom.vf : Atom → Bool
  | .value _ => false
  | .rowValue _ => false
  | _ => true

def Inner.vf : Inner → Bool
  | .atom a => a.vf
  | .opt _ body => body.all Atom.vf

def Piece.vf : Piece → Bool
  | .atom a => a.vf
  | .rep src _ body => body.all Inner.vf && src.fixed.all (fun kv => kv.2.all Atom.vf)

def valueFree (t : List Piece) : Bool := t.all Piece.vf

/-- forget every stored value, keep every name and the shape of every mapping -/
def Row.erase (r : Row) : Row := ⟨r.idents, r.values.map (fun p => (p.1, []))⟩
def Env.erase (e : Env) : Env :=
  ⟨e.idents, e.values.map (fun p => (p.1, [])), e.maps.map (fun p => (p.1, p.2.map Row.erase))⟩

/-- which stored values a template writes into the text: scalar value names, and `row.<field>` for values of a mapping -/
def Atom.leaks : Atom → List Text
  | .value x => [x]
  | .rowValue f => [t!"row." ++ f]
  | _ => []
def Inner.leaks : Inner → List Text
  | .atom a => a.leaks
  | .opt _ body => body.flatMap Atom.leaks
def Piece.leaks : Piece → List Text
  | .atom a => a.leaks
  | .rep src _ body => src.fixed.flatMap (fun kv => kv.2.flatMap Atom.leaks) ++ body.flatMap Inner.leaks
def leaks (t : List Piece) : List Text := (t.flatMap Piece.leaks).eraseDups

/-- `$names` a template mentions -/
def Atom.params : Atom → List Text
  | .param x => [x]
  | _ => []
def Inner.params : Inner → List Text
  | .atom a => a.params
  | .opt _ body => body.flatMap Atom.params
def Piece.params : Piece → List Text
  | .atom a => a.params
  | .rep src _ body => body.flatMap Inner.params ++ src.fixed.flatMap (fun kv => kv.2.flatMap Atom.params)
def tplParams (t : List Piece) : List Text := t.flatMap Piece.params

/-! ### statement lint

The lint works on code points (`List Nat`): comparisons of `Nat` literals are cheap in the kernel,
comparisons of `Char` are not. -/

abbrev Codes := Text

macro:max "n!" s:str : term => `(t! $s)

def isIdStart (c : Nat) : Bool := (Nat.ble cp%'a' c && Nat.ble c cp%'z') || (Nat.ble cp%'A' c && Nat.ble c cp%'Z') || c == cp%'_'
def isDigit (c : Nat) : Bool := Nat.ble cp%'0' c && Nat.ble c cp%'9'
def isIdChar (c : Nat) : Bool := isIdStart c || isDigit c
def isWs (c : Nat) : Bool := c == cp%' ' || c == cp%'\t' || c == cp%'\n' || c == cp%'\r'
def lowerC (c : Nat) : Nat := if Nat.ble cp%'A' c && Nat.ble c cp%'Z' then c + 32 else c
def lower (s : Codes) : Codes := s.map lowerC

inductive Tok where
  | id (s : Codes)
  | num
  | str
  | par (s : Codes)
  | sym (c : Nat)
  deriving Repr, DecidableEq

/-- rest of the input after the closing quote `q`; `none` if the literal is not terminated.
A backslash escapes the next character (not inside backticks). -/
def skipStr (q : Nat) : Nat → Codes → Option Codes
  | 0, _ => none
  | _ + 1, [] => none
  | fuel + 1, c :: rest =>
    if c == q then some rest
    else if c == cp%'\\' && q != cp%'`' then
      match rest with
      | [] => none
      | _ :: r2 => skipStr q fuel r2
    else skipStr q fuel rest

structure Lexed where
  toks : List Tok
  stripped : Codes    -- the text with literal contents and comments removed
  closed : Bool       -- every quote terminated

def lexAux : Nat → Codes → List Tok → Codes → Lexed
  | 0, _, ts, st => ⟨ts.reverse, st.reverse, true⟩
  | _ + 1, [], ts, st => ⟨ts.reverse, st.reverse, true⟩
  | fuel + 1, c :: rest, ts, st =>
    if c == cp%'\'' || c == cp%'"' || c == cp%'`' then
      match skipStr c (rest.length + 1) rest with
      | none => ⟨(Tok.str :: ts).reverse, st.reverse, false⟩
      | some r => lexAux fuel r (Tok.str :: ts) (c :: c :: st)
    else if c == cp%'/' && rest.head? == some cp%'/' then lexAux fuel (rest.dropWhile (fun x => x != cp%'\n')) ts st
    else if isWs c then lexAux fuel rest ts (c :: st)
    else if c == cp%'$' && (rest.head?.map isIdStart).getD false then
      let nm := rest.takeWhile isIdChar
      lexAux fuel (rest.dropWhile isIdChar) (Tok.par nm :: ts) (nm.reverse ++ cp%'$' :: st)
    else if isIdStart c then
      let nm := c :: rest.takeWhile isIdChar
      lexAux fuel (rest.dropWhile isIdChar) (Tok.id nm :: ts) (nm.reverse ++ st)
    else if isDigit c then
      let nm := c :: rest.takeWhile isDigit
      lexAux fuel (rest.dropWhile isDigit) (Tok.num :: ts) (nm.reverse ++ st)
    else lexAux fuel rest (Tok.sym c :: ts) (c :: st)

def lex (t : Codes) : Lexed := lexAux (t.length + 1) t [] []

def closer (c : Nat) : Option Nat :=
  if c == cp%'(' then some cp%')' else if c == cp%'[' then some cp%']' else if c == cp%'{' then some cp%'}' else none

def balAux : List Tok → Codes → Bool
  | [], stk => stk.isEmpty
  | .sym c :: ts, stk =>
    match closer c with
    | some d => balAux ts (d :: stk)
    | none =>
      if c == cp%')' || c == cp%']' || c == cp%'}' then
        match stk with
        | top :: s' => if top == c then balAux ts s' else false
        | [] => false
      else balAux ts stk
  | _ :: ts, stk => balAux ts stk

/-- `{{`, `}}` or `{name}` outside literals -/
def unexpanded : Codes → Bool
  | [] => false
  | c :: rest =>
    if c == cp%'{' then
      (rest.head? == some cp%'{') ||
      ((rest.head?.map isIdStart).getD false && (rest.dropWhile isIdChar).head? == some cp%'}') ||
      unexpanded rest
    else if c == cp%'}' then (rest.head? == some cp%'}') || unexpanded rest
    else unexpanded rest

def keywords : List Codes := [
  n!"match", n!"optional", n!"where", n!"return", n!"with", n!"as", n!"call", n!"yield", n!"set", n!"remove", n!"detach",
  n!"delete", n!"unwind", n!"union", n!"and", n!"or", n!"not", n!"in", n!"is", n!"null", n!"true", n!"false", n!"distinct",
  n!"create", n!"merge", n!"order", n!"by", n!"limit", n!"skip", n!"on", n!"xor", n!"starts", n!"ends", n!"contains",
  n!"case", n!"when", n!"then", n!"else", n!"end", n!"exists", n!"all", n!"any", n!"none", n!"single", n!"asc", n!"desc",
  n!"foreach", n!"index", n!"if", n!"for"]

def isKw (x : Codes) : Bool := keywords.contains (lower x)
def isWord (t : Option Tok) (w : Codes) : Bool :=
  match t with
  | some (.id x) => lower x == w
  | _ => false
def isSym (t : Option Tok) (c : Nat) : Bool :=
  match t with
  | some (.sym d) => d == c
  | _ => false
/-- the token before a `(` makes it a function call -/
def isCallee (t : Option Tok) : Bool :=
  match t with
  | some (.id x) => !isKw x
  | _ => false

/-- tokens after an identifier: `.a.b(` = namespaced function -/
def dottedCall : List Tok → Bool
  | .sym c :: .id _ :: rest =>
    if c == cp%'.' then
      match rest with
      | .sym d :: _ => if d == cp%'(' then true else dottedCall rest
      | _ => false
    else false
  | _ => false

def addNew (l : List Codes) (x : Codes) : List Codes := if l.contains x then l else l ++ [x]

/-- words that open a clause -/
def clauseWords : List Codes := [
  n!"match", n!"optional", n!"where", n!"return", n!"with", n!"call", n!"yield", n!"set", n!"remove", n!"detach", n!"delete",
  n!"unwind", n!"union", n!"order", n!"limit", n!"skip", n!"create", n!"merge", n!"foreach"]
/-- words that must be followed by an operand -/
def needsOperand : List Codes := [
  n!"where", n!"set", n!"return", n!"with", n!"and", n!"or", n!"xor", n!"not", n!"remove", n!"delete", n!"unwind", n!"match",
  n!"yield", n!"as", n!"in", n!"by", n!"on", n!"limit", n!"skip", n!"call", n!"when", n!"then", n!"else"]
/-- words that cannot be that operand -/
def badFollowerWords : List Codes := [
  n!"match", n!"optional", n!"where", n!"return", n!"with", n!"call", n!"yield", n!"set", n!"remove", n!"detach", n!"delete",
  n!"unwind", n!"union", n!"order", n!"limit", n!"skip", n!"create", n!"merge", n!"on", n!"and", n!"or", n!"xor", n!"as", n!"in",
  n!"then", n!"else", n!"end", n!"when", n!"by"]

def isOpener (c : Nat) : Bool := c == cp%'(' || c == cp%'[' || c == cp%'{'
def isCloser (c : Nat) : Bool := c == cp%')' || c == cp%']' || c == cp%'}'

def badFollower (t : Option Tok) : Bool :=
  match t with
  | none => true
  | some (.id y) => badFollowerWords.contains (lower y)
  | some (.sym c) => isCloser c || c == cp%',' || c == cp%';' || c == cp%'|'
  | _ => false

def isClauseTok (t : Option Tok) : Bool :=
  match t with
  | some (.id y) => clauseWords.contains (lower y)
  | _ => false

/-- state of the scoping pass.  `scope`: variables carried into the current scope by the last WITH; `segB` / `segU`: variables
bound / used since then; `carry`: what the WITH clause being read lists or aliases. -/
structure St where
  depth : Nat
  inYield : Bool
  inItems : Bool
  star : Bool
  scope : List Codes
  segB : List Codes
  segU : List Codes
  carry : List Codes
  unbound : List Codes
  emptyClause : Bool
  dangling : Bool

def St.init : St := ⟨0, false, false, false, [], [], [], [], [], false, false⟩

/-- end of a scope: uses not bound in it are reported; a WITH clause hands on only what it lists (everything after `*`),
UNION (`reset`) starts from nothing -/
def St.close (s : St) (reset : Bool) : St :=
  let ub := s.segU.foldl (fun acc x => if s.scope.contains x || s.segB.contains x || acc.contains x then acc else acc ++ [x]) s.unbound
  let scope' := if reset then [] else if s.inItems then s.carry ++ (if s.star then s.scope ++ s.segB else []) else s.scope ++ s.segB
  { s with unbound := ub, scope := scope', segB := [], segU := [], inItems := false }

def step (s0 : St) (p2 p1 : Option Tok) (cur : Tok) (rest : List Tok) : St :=
  let nx := rest.head?
  let ec := match cur with
    | .id x => needsOperand.contains (lower x) && badFollower nx
    | _ => false
  let dg := match cur with
    | .sym c => (c == cp%',' && (match nx with | none => true | some (.sym d) => isCloser d || d == cp%',' | _ => false)) ||
                (isOpener c && isSym nx cp%',')
    | _ => false
  let s : St := { s0 with emptyClause := s0.emptyClause || ec, dangling := s0.dangling || dg }
  match cur with
  | .id x =>
    let lw := lower x
    let kw := keywords.contains lw
    let s1 : St :=
      if s.depth == 0 then
        let withClause := lw == n!"with" && !(isWord p1 n!"starts" || isWord p1 n!"ends")
        let sA := if clauseWords.contains lw && (lw != n!"with" || withClause) && s.inItems then s.close false else s
        let sB := if lw == n!"union" then sA.close true else sA
        if withClause then { sB with inItems := true, carry := [], star := false } else sB
      else s
    let s2 : St :=
      if s1.inYield && !kw then { s1 with segB := addNew s1.segB x }
      else
        let s' : St := { s1 with inYield := lw == n!"yield" }
        if kw then s'
        else
          let b1 := isSym p1 cp%'(' && !isCallee p2 && !isSym nx cp%'.' && !isSym nx cp%'('
          let b2 := isSym p1 cp%'[' && isSym p2 cp%'-'
          let b3 := isSym p1 cp%'[' && isWord nx n!"in"
          let b4 := isWord p1 n!"as"
          let b6 := isSym nx cp%'=' && !isSym p1 cp%'.'
          let u := !isSym p1 cp%'.' && !isSym p1 cp%':' && !isSym nx cp%':' && !isSym nx cp%'(' &&
                   !(isSym nx cp%'.' && dottedCall rest) && !isWord p1 n!"index"
          { s' with segB := if b1 || b2 || b3 || b4 || b6 then addNew s'.segB x else s'.segB,
                    segU := if u then addNew s'.segU x else s'.segU }
    if s2.inItems && s2.depth == 0 && !kw then
      let itemStart := isWord p1 n!"with" || isWord p1 n!"distinct" || isSym p1 cp%','
      let itemEnd := (match nx with | none => true | _ => false) || isSym nx cp%',' || isClauseTok nx
      if (itemStart && itemEnd) || isWord p1 n!"as" then { s2 with carry := addNew s2.carry x } else s2
    else s2
  | .sym c =>
    let s1 : St := { s with inYield := s.inYield && (c == cp%',' || c == cp%'*') }
    let s2 : St := if s1.inItems && s1.depth == 0 && c == cp%'*' && (isWord p1 n!"with" || isWord p1 n!"distinct")
      then { s1 with star := true } else s1
    if isOpener c then { s2 with depth := s2.depth + 1 }
    else if isCloser c then { s2 with depth := s2.depth - 1 }
    else s2
  | _ => { s with inYield := false }

/-- one pass over the tokens with two tokens of left context -/
def scan : List Tok → Option Tok → Option Tok → St → St
  | [], _, _, s => s.close false
  | cur :: rest, p2, p1, s => scan rest p1 (some cur) (step s p2 p1 cur rest)

structure Lint where
  defects : List String
  unbound : List Codes
  missing : List Codes

/-- Well-formedness as the property names it, decided on tokens: balanced; nothing unexpanded; every `$name` supplied; every
variable bound in its scope (WITH at bracket depth 0 starts a new scope, UNION starts from nothing; patterns, AS, YIELD,
UNWIND … AS and comprehensions bind); every clause keyword / boolean operator followed by an operand; no dangling comma. -/
def lintCodes (text : Codes) (supplied : List Codes) : Lint :=
  let lx := lex text
  let sc := scan lx.toks none none St.init
  let pars := lx.toks.foldl (fun acc t => match t with | .par x => addNew acc x | _ => acc) []
  let missing := pars.filter (fun x => !supplied.contains x)
  let d1 := if !lx.closed || !balAux lx.toks [] then ["unbalanced"] else []
  let d2 := if unexpanded lx.stripped then ["unexpanded-template"] else []
  let d3 := if missing.isEmpty then [] else ["missing-parameter"]
  let d4 := if sc.unbound.isEmpty then [] else ["unbound-variable"]
  let d5 := if sc.emptyClause then ["empty-clause"] else []
  let d6 := if sc.dangling then ["dangling-comma"] else []
  ⟨d1 ++ d2 ++ d3 ++ d4 ++ d5 ++ d6, sc.unbound, missing⟩

def lint (text : Text) (supplied : List Text) : Lint := lintCodes text supplied

def checkStmt (text : Text) (supplied : List Text) : Bool := (lint text supplied).defects.isEmpty


/-- canonical environment for an operation: every identifier slot holds `X`, every value slot `v`,
every mapping has one row (key `K`, value `v`, every field present) -/
def canonRow : Row := ⟨[(t!"k", t!"K"), (t!"v", t!"discard"), (t!"resource_type", t!"GPU"), (t!"count", t!"1")],
                       [(t!"v", t!"v"), (t!"resource_model", t!"m")]⟩
def identNames : List Text := [t!"label", t!"rel", t!"kind", t!"prop_name", t!"node_label", t!"rel1", t!"rel2", t!"node1_label", t!"node2_label"]
def valueNames : List Text := [t!"node_id", t!"node_a", t!"node_b", t!"node_z", t!"prop_val", t!"name", t!"node_name", t!"ntype", t!"cut_off", t!"graph_id", t!"other_graph_id", t!"graphml_file"]
def canonEnv : Env :=
  ⟨identNames.map (fun n => (n, t!"X")), valueNames.map (fun n => (n, t!"v")),
   [(t!"props", [canonRow]), (t!"merge_properties", [canonRow]), (t!"component_counts", [canonRow])]⟩

/-- the same with every mapping EMPTY (empty props dict, empty merge_properties, no counted components) -/
def emptyMapsEnv : Env := ⟨canonEnv.idents, canonEnv.values,
  [(t!"props", []), (t!"merge_properties", []), (t!"component_counts", [])]⟩

/-- mappings with entries, but no counted components -/
def propsOnlyEnv : Env := ⟨canonEnv.idents, canonEnv.values,
  [(t!"props", [canonRow]), (t!"merge_properties", [canonRow]), (t!"component_counts", [])]⟩

/-- the template iterates over a mapping -/
def usesMaps (t : List Piece) : Bool := t.any (fun p => match p with | .rep _ _ _ => true | _ => false)

end FimVerif.Cypher
