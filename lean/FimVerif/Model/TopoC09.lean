import FimVerif.Model.Topo
/-!
# C09's own additions to the topology model (Model/Topo.lean is shared with C07 and stays as it is)

* a third alphabet `YOp` / `stepY` for building calls the shared alphabets do not have
  (`ModelElement.update_labels` / `update_capacities`);
* `AnyOp`: the three alphabets as one, `runAny` (a history: every call runs in the state the previous one left, whether
  it returned or raised) and `okOps` (the history with the calls that raised erased) — what the history theorems of
  Proofs/C09.lean are stated over.
-/
namespace FimVerif.Topo
open FimVerif
open FimVerif.M (raise read modify ofExcept forEach tryCatch mapM' filterMapM')

/-- `ModelElement.update_labels(**fields)` / `update_capacities(**fields)`: the element is read first (`self.labels`), the merged
value is built by the pure Labels / Capacities code (`arg`: accepted as this graph property, or rejected with this kind - a
bad field among good ones at any position), then `set_property` validates and writes -/
def updateCaplab (nid : Nid) (arg : PropArg) : M Topo Unit := do
  let _ ← findNode nid
  setProps nid [arg]

inductive YOp where
  | updateCaplab (nid : Nid) (arg : PropArg)

def stepY : YOp → M Topo Out
  | .updateCaplab n a => updateCaplab n a >>= fun _ => Pure.pure ⟨none, none⟩

/-! ## histories over all three alphabets -/

inductive AnyOp where
  | t (op : TopoOp)
  | x (op : XOp)
  | y (op : YOp)

/-- did the call raise -/
def errB {α : Type} (r : Except Err α × Topo) : Bool :=
  match r.1 with
  | .error _ => true
  | .ok _ => false

/-- one call of a history: (raised?, model after the call) -/
def stepAny (op : AnyOp) (s : Topo) : Bool × Topo :=
  match op with
  | .t o => (errB (step o s), (step o s).2)
  | .x o => (errB (stepX o s), (stepX o s).2)
  | .y o => (errB (stepY o s), (stepY o s).2)

/-- the model a history builds: a call that raises does not stop the history (the caller catches and goes on) -/
def runAny : List AnyOp → Topo → Topo
  | [], s => s
  | op :: rest, s => runAny rest (stepAny op s).2

/-- the history with the calls that raised erased -/
def okOps : List AnyOp → Topo → List AnyOp
  | [], _ => []
  | op :: rest, s => if (stepAny op s).1 then okOps rest (stepAny op s).2 else op :: okOps rest (stepAny op s).2

/-- the states a history passes through, before each call -/
def statesAny : List AnyOp → Topo → List Topo
  | [], _ => []
  | op :: rest, s => s :: statesAny rest (stepAny op s).2

end FimVerif.Topo
