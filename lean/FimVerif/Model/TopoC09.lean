import FimVerif.Model.Topo
import FimVerif.Generated.TopoOrder
/-!
# C09's own additions to the topology model (Model/Topo.lean is shared with C07 and stays as it is)

* a third alphabet `YOp` / `stepY` for building calls the shared alphabets do not have
  (`ModelElement.update_labels` / `update_capacities`);
* `AnyOp`: the three alphabets as one, `runAny` (a history: every call runs in the state the previous one left, whether
  it returned or raised) and `okOps` (the history with the calls that raised erased) — what the history theorems of
  Proofs/C09.lean are stated over.
-/
namespace FimVerif.Topo
open FimVerif
open FimVerif.M (raise read modify ofExcept forEach tryCatch mapM' filterMapM')

/-- `ModelElement.update_labels(**fields)` / `update_capacities(**fields)`: the element is read first (`self.labels`), the merged
value is built by the pure Labels / Capacities code (`arg`: accepted as this graph property, or rejected with this kind - a
bad field among good ones at any position), then `set_property` validates and writes -/
def updateCaplab (nid : Nid) (arg : PropArg) : M Topo Unit := do
  let _ ← findNode nid
  setProps nid [arg]

inductive YOp where
  | updateCaplab (nid : Nid) (arg : PropArg)

def stepY : YOp → M Topo Out
  | .updateCaplab n a => updateCaplab n a >>= fun _ => Pure.pure ⟨none, none⟩

/-! ## histories over all three alphabets -/

inductive AnyOp where
  | t (op : TopoOp)
  | x (op : XOp)
  | y (op : YOp)

/-- did the call raise -/
def errB {α : Type} (r : Except Err α × Topo) : Bool :=
  match r.1 with
  | .error _ => true
  | .ok _ => false

/-- one call of a history: (raised?, model after the call) -/
def stepAny (op : AnyOp) (s : Topo) : Bool × Topo :=
  match op with
  | .t o => (errB (step o s), (step o s).2)
  | .x o => (errB (stepX o s), (stepX o s).2)
  | .y o => (errB (stepY o s), (stepY o s).2)

/-- the model a history builds: a call that raises does not stop the history (the caller catches and goes on) -/
def runAny : List AnyOp → Topo → Topo
  | [], s => s
  | op :: rest, s => runAny rest (stepAny op s).2

/-- the history with the calls that raised erased -/
def okOps : List AnyOp → Topo → List AnyOp
  | [], _ => []
  | op :: rest, s => if (stepAny op s).1 then okOps rest (stepAny op s).2 else op :: okOps rest (stepAny op s).2

/-- the states a history passes through, before each call -/
def statesAny : List AnyOp → Topo → List Topo
  | [], _ => []
  | op :: rest, s => s :: statesAny rest (stepAny op s).2

/-! ## write order of the building functions (table `Gen.TopoOrder.funcs`, read off the AST by gen/topoorder.py)

`singleWrite toks`: on no path through the function does a step that can fail - a validation (`v`) or another write (`w`) -
follow a write.  Such a function is atomic by its shape alone: whatever raises, raises before the one write (the write
itself being atomic is the matter of the callee's own entry, or of `atomic_addGNode` & co. at the bottom).
Everything else - a function with a rollback handler (`guarded`), a removal in several passes - must have exactly the shape
pinned in Proofs/C09.lean (`pinnedOrder`), next to the theorem its atomicity rests on. -/
namespace OrderTok
open FimVerif.Gen.TopoOrder

/-- `none`: some path has a fallible step after a write.  `some none`: every path returned.  `some (some d)`: paths fall
through, `d` = a write may have happened.  (`fuel` bounds the size of the table entry; 0 counts as a violation.) -/
def scan : Nat → Bool → List Tok → Option (Option Bool)
  | 0, _, _ => none
  | _, d, [] => some (some d)
  | f + 1, d, .v :: r => if d then none else scan f d r
  | f + 1, d, .w _ :: r => if d then none else scan f true r
  | f + 1, d, .c :: r => scan f d r
  | f + 1, d, .r :: r => scan f d r
  | f + 1, _, .ret :: _ => let _ := f; some none
  | f + 1, d, .ite a b :: r =>
    match scan f d a, scan f d b with
    | some none, some none => some none
    | some (some x), some none => scan f x r
    | some none, some (some y) => scan f y r
    | some (some x), some (some y) => scan f (x || y) r
    | _, _ => none
  | f + 1, d, .loop b :: r =>
    match scan f d b with
    | none => none
    | some none => scan f d r                       -- the body always returns: at most one pass
    | some (some d1) =>
      -- a second pass starts in the state the first one left
      match scan f d1 b with
      | none => none
      | some _ => scan f d1 r
  | f + 1, _, .guarded _ _ :: _ => let _ := f; none      -- a rollback handler: not atomic by shape alone, the shape must be pinned
  | f + 1, _, .tryelse _ _ :: _ => let _ := f; none      -- any other try: likewise

def singleWrite (toks : List Tok) : Bool := (scan 400 false toks).isSome

/-- the shape as text (what `pinned` lists) -/
def render : Nat → List Tok → String
  | 0, _ => "…"
  | _, [] => ""
  | f + 1, t :: r =>
    let one := match t with
      | .v => "v" | .c => "c" | .r => "r" | .ret => "ret"
      | .w s => "w(" ++ s ++ ")"
      | .ite a b => "if{" ++ render f a ++ "|" ++ render f b ++ "}"
      | .loop b => "loop{" ++ render f b ++ "}"
      | .guarded b h => "guarded{" ++ render f b ++ "|" ++ render f h ++ "}"
      | .tryelse b h => "tryelse{" ++ render f b ++ "|" ++ render f h ++ "}"
    match r with
    | [] => one
    | _ => one ++ " " ++ render f r

/-! ### what the scan means

`Run toks σ e`: `σ` is the sequence of steps that can fail (`v`: no write, `w`: a write) along one path through `toks`, and
`e` says whether that path returned.  Loops run any number of times, an `if` takes either branch.  (No constructor for the
two `try` forms: the scan rejects them.)  `okSeq d σ`: started clean (`d = false`), no step follows a write in `σ`; started
after a write, `σ` is empty.  Proofs/C09.lean proves `scan_sound`: an accepted function only has such paths - so whichever
step of whichever path raises, no write has happened before it. -/

inductive Ev where | v | w
  deriving DecidableEq, Repr

def okSeq : Bool → List Ev → Bool
  | _, [] => true
  | true, _ :: _ => false
  | false, .v :: r => okSeq false r
  | false, .w :: r => okSeq true r

def wrote (d : Bool) (σ : List Ev) : Bool := d || σ.contains .w

inductive Run : List Tok → List Ev → Bool → Prop
  | nil : Run [] [] false
  | v {r σ e} : Run r σ e → Run (.v :: r) (.v :: σ) e
  | w {s r σ e} : Run r σ e → Run (.w s :: r) (.w :: σ) e
  | c {r σ e} : Run r σ e → Run (.c :: r) σ e
  | r {r σ e} : Run r σ e → Run (.r :: r) σ e
  | ret {r} : Run (.ret :: r) [] true
  | iteL {a b r σ₁ σ₂ e} : Run a σ₁ false → Run r σ₂ e → Run (.ite a b :: r) (σ₁ ++ σ₂) e
  | iteLret {a b r σ} : Run a σ true → Run (.ite a b :: r) σ true
  | iteR {a b r σ₁ σ₂ e} : Run b σ₁ false → Run r σ₂ e → Run (.ite a b :: r) (σ₁ ++ σ₂) e
  | iteRret {a b r σ} : Run b σ true → Run (.ite a b :: r) σ true
  | loopDone {b r σ e} : Run r σ e → Run (.loop b :: r) σ e
  | loopStep {b r σ₁ σ₂ e} : Run b σ₁ false → Run (.loop b :: r) σ₂ e → Run (.loop b :: r) (σ₁ ++ σ₂) e
  | loopRet {b r σ} : Run b σ true → Run (.loop b :: r) σ true

end OrderTok

end FimVerif.Topo
