/-!
# Sliver comparison (C17)

Executable model of `BaseSliver.prop_diff / _dict_diff / _dict_common`, `InterfaceSliver.diff`,
`NetworkServiceSliver.diff` and `NodeSliver.diff` *as written* in `/repo/fim/slivers` (after the three
`fix:` commits recorded in `known_findings/C17.json`).

* A sliver is a tree: node ⊃ components + node-level services; component ⊃ services; service ⊃
  interfaces; interface ⊃ sub-interfaces.  Children live in the `*Info` dictionaries, keyed by
  `resource_name`; a dictionary is a `List` in insertion order, the `*Info` object itself may be
  absent (`None`), hence `Option (List _)` (an `*Info` object has no `__bool__`/`__len__`, so the
  code's `if self.interface_info and other.interface_info` tests presence, not emptiness).
* Labels, capacities and user data are values of an arbitrary type `V` with decidable equality
  (`Labels.__eq__`, `Capacities.__eq__`: field-wise; `JSONData.__eq__`: canonical JSON text); an
  unset property is `none`.
* What a `diff` hands back (`TopologyDiff`) is modelled by the *names* of the slivers in each slot;
  Python builds sets (added/removed) and lists in set-iteration order (modified), the model lists them
  in dictionary order; order is never compared.
-/
namespace FimVerif.Diff

/-- `WhatsModifiedFlag` -/
structure Flags where
  labels : Bool := false
  caps : Bool := false
  ud : Bool := false
  sub : Bool := false
deriving DecidableEq, Repr

/-- `WhatsModifiedFlag.NONE` -/
def Flags.none : Flags := {}

/-- integer value of the flag (LABELS=1, CAPACITIES=2, USER_DATA=4, SUB_INTERFACES=8) -/
def Flags.toNat (f : Flags) : Nat :=
  (if f.labels then 1 else 0) + (if f.caps then 2 else 0) + (if f.ud then 4 else 0) + (if f.sub then 8 else 0)

/-- the three tracked properties of any sliver -/
structure Props (V : Type) where
  labels : Option V := none
  caps : Option V := none
  ud : Option V := none
deriving DecidableEq, Repr

/-- `BaseSliver.prop_diff` -/
def propDiff {V : Type} [DecidableEq V] (a b : Props V) : Flags :=
  { labels := decide (a.labels ≠ b.labels), caps := decide (a.caps ≠ b.caps), ud := decide (a.ud ≠ b.ud) }

/-- things stored in a name-keyed dictionary -/
class Named (α : Type) where
  name : α → String
export Named (name)

section Dict
variable {α : Type} [Named α]

/-- `k in d` -/
def hasKey (d : List α) (k : String) : Bool := d.any (fun x => name x == k)

/-- `d.get(k, None)` -/
def get? (d : List α) (k : String) : Option α := d.find? (fun x => name x == k)

/-- `_dict_diff(a, b)['added'].values()` : `{k: b[k] for k in set(b) - set(a)}` -/
def dictAdded (a b : List α) : List α := b.filter (fun x => !hasKey a (name x))

/-- `_dict_diff(a, b)['removed'].values()` : `{k: a[k] for k in set(a) - set(b)}` -/
def dictRemoved (a b : List α) : List α := a.filter (fun x => !hasKey b (name x))

/-- `_dict_common(a, b).values()` : `{k: a[k] for k in set(a) & set(b)}` -/
def dictCommon (a b : List α) : List α := a.filter (fun x => hasKey b (name x))

/-- the loop `for xA in common.values(): xB = other.get(xA.resource_name); flag = …; if flag != NONE: modified.append((xA, flag))`
    over an already computed list `l` of common elements -/
def modLoop (flag : α → α → Flags) (b : List α) : List α → List (String × Flags)
  | [] => []
  | x :: xs =>
    match get? b (name x) with
    | some y =>
      let f := flag x y
      if f = Flags.none then modLoop flag b xs else (name x, f) :: modLoop flag b xs
    | none => modLoop flag b xs     -- unreachable for common keys (`None.prop_diff` would raise)

/-- same loop when computing the flag can raise (`NodeSliver.diff`, SmartNIC descent) -/
def modLoopM (flag : α → α → Except String Flags) (b : List α) : List α → Except String (List (String × Flags))
  | [] => .ok []
  | x :: xs =>
    match get? b (name x) with
    | some y =>
      match flag x y with
      | .error e => .error e
      | .ok f =>
        match modLoopM flag b xs with
        | .error e => .error e
        | .ok r => .ok (if f = Flags.none then r else (name x, f) :: r)
    | none => modLoopM flag b xs

/-- what one dictionary level contributes to a `TopologyDiff` -/
structure Level where
  added : List String := []
  removed : List String := []
  modified : List (String × Flags) := []
deriving DecidableEq, Repr

/-- the three consecutive `if`s of every `diff` method:
    `if A and B: …_dict_diff…_dict_common…loop`, `if not A and B: added = all of B`, `if A and not B: removed = all of A` -/
def levelDiff (flag : α → α → Flags) (a b : Option (List α)) : Level :=
  match a, b with
  | some x, some y =>
    { added := (dictAdded x y).map name, removed := (dictRemoved x y).map name,
      modified := modLoop flag y (dictCommon x y) }
  | none, some y => { added := y.map name }
  | some x, none => { removed := x.map name }
  | none, none => {}

def levelDiffM (flag : α → α → Except String Flags) (a b : Option (List α)) : Except String Level :=
  match a, b with
  | some x, some y =>
    match modLoopM flag y (dictCommon x y) with
    | .error e => .error e
    | .ok m => .ok { added := (dictAdded x y).map name, removed := (dictRemoved x y).map name, modified := m }
  | none, some y => .ok { added := y.map name }
  | some x, none => .ok { removed := x.map name }
  | none, none => .ok {}

end Dict

/-- `TopologyDiff` (names only; the `nodes` slots of added/removed are always empty in sliver diffs) -/
structure TDiff where
  addedComps : List String := []
  addedSvcs : List String := []
  addedIfs : List String := []
  removedComps : List String := []
  removedSvcs : List String := []
  removedIfs : List String := []
  modNodes : List (String × Flags) := []
  modComps : List (String × Flags) := []
  modSvcs : List (String × Flags) := []
  modIfs : List (String × Flags) := []
deriving DecidableEq, Repr

/-! ### the sliver trees -/

/-- a sub-interface (an `InterfaceSliver` whose own `interface_info` is never looked at) -/
structure Leaf (V : Type) where
  name : String
  props : Props V
deriving DecidableEq, Repr

/-- `InterfaceSliver`; `dedicated` = `get_type() == InterfaceType.DedicatedPort` -/
structure Iface (V : Type) where
  name : String
  props : Props V
  dedicated : Bool
  subs : Option (List (Leaf V))
deriving DecidableEq, Repr

/-- `NetworkServiceSliver` -/
structure Svc (V : Type) where
  name : String
  props : Props V
  ifs : Option (List (Iface V))
deriving DecidableEq, Repr

/-- `ComponentSliver`; `smart` = `get_type() == ComponentType.SmartNIC` -/
structure Comp (V : Type) where
  name : String
  props : Props V
  smart : Bool
  svcs : Option (List (Svc V))
deriving DecidableEq, Repr

/-- `NodeSliver` -/
structure Node (V : Type) where
  name : String
  props : Props V
  comps : Option (List (Comp V))
  svcs : Option (List (Svc V))
deriving DecidableEq, Repr

instance {V} : Named (Leaf V) := ⟨Leaf.name⟩
instance {V} : Named (Iface V) := ⟨Iface.name⟩
instance {V} : Named (Svc V) := ⟨Svc.name⟩
instance {V} : Named (Comp V) := ⟨Comp.name⟩

section Methods
variable {V : Type} [DecidableEq V]

/-- `self_modified`: `if self.prop_diff(other) != NONE: self_modified.append((self, flags))` -/
def selfMod (n : String) (a b : Props V) : List (String × Flags) :=
  if propDiff a b = Flags.none then [] else [(n, propDiff a b)]

/-- flag of a common sub-interface in `InterfaceSliver.diff`: `iA.prop_diff(iB)` -/
def leafFlag (x y : Leaf V) : Flags := propDiff x.props y.props

/-- `InterfaceSliver.diff` (the interface files *itself* under `modified.services`) -/
def ifaceDiff (a b : Iface V) : Option TDiff :=
  let sm := selfMod a.name a.props b.props
  let lv := levelDiff leafFlag a.subs b.subs
  if !sm.isEmpty || !lv.added.isEmpty || !lv.removed.isEmpty || !lv.modified.isEmpty then
    some { addedIfs := lv.added, removedIfs := lv.removed, modSvcs := sm, modIfs := lv.modified }
  else none

/-- flag of a common interface in `NetworkServiceSliver.diff`:
    `flag = iA.prop_diff(iB)`; for a DedicatedPort `sub_diff = iA.diff(iB)` and SUB_INTERFACES iff it exists and
    one of its added/removed/modified `interfaces` is non-empty -/
def ifaceFlag (x y : Iface V) : Flags :=
  let f := propDiff x.props y.props
  if x.dedicated then
    match ifaceDiff x y with
    | some d => if !d.addedIfs.isEmpty || !d.removedIfs.isEmpty || !d.modIfs.isEmpty then { f with sub := true } else f
    | none => f
  else f

/-- `NetworkServiceSliver.diff` -/
def svcDiff (a b : Svc V) : Option TDiff :=
  let sm := selfMod a.name a.props b.props
  let lv := levelDiff ifaceFlag a.ifs b.ifs
  if !sm.isEmpty || !lv.added.isEmpty || !lv.removed.isEmpty || !lv.modified.isEmpty then
    some { addedIfs := lv.added, removedIfs := lv.removed, modSvcs := sm, modIfs := lv.modified }
  else none

/-- `list(c.network_service_info.network_services.values())[0]` -/
def firstSvc (c : Comp V) : Except String (Svc V) :=
  match c.svcs with
  | none => .error "attribute"       -- 'NoneType' object has no attribute 'network_services'
  | some [] => .error "index"        -- list index out of range
  | some (s :: _) => .ok s

/-- flag of a common component in `NodeSliver.diff`: `cA.prop_diff(cB)`, and for a SmartNIC (type of `cA` only)
    SUB_INTERFACES iff the first services of both differ in any way -/
def compFlag (x y : Comp V) : Except String Flags :=
  let f := propDiff x.props y.props
  if x.smart then
    match firstSvc x with
    | .error e => .error e
    | .ok sx =>
      match firstSvc y with
      | .error e => .error e
      | .ok sy => .ok (if (svcDiff sx sy).isSome then { f with sub := true } else f)
  else .ok f

/-- flag of a common node-level service in `NodeSliver.diff`: `nsA.prop_diff(nsB)` only -/
def svcPropFlag (x y : Svc V) : Flags := propDiff x.props y.props

/-- `NodeSliver.diff` -/
def nodeDiff (a b : Node V) : Except String (Option TDiff) :=
  let sm := selfMod a.name a.props b.props
  match levelDiffM compFlag a.comps b.comps with
  | .error e => .error e
  | .ok cl =>
    let sl := levelDiff svcPropFlag a.svcs b.svcs
    if !cl.added.isEmpty || !cl.removed.isEmpty || !sl.removed.isEmpty || !sl.added.isEmpty ||
       !cl.modified.isEmpty || !sl.modified.isEmpty || !sm.isEmpty then
      .ok (some { addedComps := cl.added, addedSvcs := sl.added, removedComps := cl.removed, removedSvcs := sl.removed,
                  modNodes := sm, modComps := cl.modified, modSvcs := sl.modified })
    else .ok none

end Methods

end FimVerif.Diff
