import FimVerif.Model.DiffCfg
/-!
# Sliver comparison (C17)

Executable model of `BaseSliver.prop_diff / _dict_diff / _dict_common`, `InterfaceSliver.diff`,
`NetworkServiceSliver.diff` and `NodeSliver.diff` *as written* in `/repo/fim/slivers` (after the three
`fix:` commits recorded in `known_findings/C17.json`).

* A sliver is a tree: node ⊃ components + node-level services; component ⊃ services; service ⊃
  interfaces; interface ⊃ sub-interfaces.  Children live in the `*Info` dictionaries, keyed by
  `resource_name`; a dictionary is a `List` in insertion order, the `*Info` object itself may be
  absent (`None`), hence `Option (List _)` (an `*Info` object has no `__bool__`/`__len__`, so the
  code's `if self.interface_info and other.interface_info` tests presence, not emptiness).
* Labels, capacities and user data are values of an arbitrary type `V` with decidable equality
  (`Labels.__eq__`, `Capacities.__eq__`: field-wise; `JSONData.__eq__`: canonical JSON text); an
  unset property is `none`.
* What a `diff` hands back (`TopologyDiff`) is modelled by the *names* of the slivers in each slot;
  Python builds sets (added/removed) and lists in set-iteration order (modified), the model lists them
  in dictionary order; order is never compared.

The second half of the file (`propDiffC` … `nodeDiffC`) is the same control flow read off the table `Cfg`
(`Model/DiffCfg.lean`) that `gen/diffcfg.py` extracts from the source on every run: which properties `prop_diff` compares and
which flag each raises, which child dictionaries every `diff` method compares (with which sides as arguments of
`_dict_diff` / `_dict_common`), below which element kinds it descends, which collections decide between a `TopologyDiff`
and `None`, and which field of the result each collection lands in.  The driver runs these on the generated table;
`Proofs/Lemmas/C17Cfg.lean` proves that for every table satisfying `Cfg.Good` they are the functions of the first half.
-/
namespace FimVerif.Diff

/-- `WhatsModifiedFlag` -/
structure Flags where
  labels : Bool := false
  caps : Bool := false
  ud : Bool := false
  sub : Bool := false
deriving DecidableEq, Repr

/-- `WhatsModifiedFlag.NONE` -/
def Flags.none : Flags := {}

/-- integer value of the flag (LABELS=1, CAPACITIES=2, USER_DATA=4, SUB_INTERFACES=8) -/
def Flags.toNat (f : Flags) : Nat :=
  (if f.labels then 1 else 0) + (if f.caps then 2 else 0) + (if f.ud then 4 else 0) + (if f.sub then 8 else 0)

/-- the three tracked properties of any sliver -/
structure Props (V : Type) where
  labels : Option V := none
  caps : Option V := none
  ud : Option V := none
deriving DecidableEq, Repr

/-- `BaseSliver.prop_diff` -/
def propDiff {V : Type} [DecidableEq V] (a b : Props V) : Flags :=
  { labels := decide (a.labels ≠ b.labels), caps := decide (a.caps ≠ b.caps), ud := decide (a.ud ≠ b.ud) }

/-- things stored in a name-keyed dictionary -/
class Named (α : Type) where
  name : α → String
export Named (name)

section Dict
variable {α : Type} [Named α]

/-- `k in d` -/
def hasKey (d : List α) (k : String) : Bool := d.any (fun x => name x == k)

/-- `d.get(k, None)` -/
def get? (d : List α) (k : String) : Option α := d.find? (fun x => name x == k)

/-! `_dict_diff` and `_dict_common` compare dictionary KEYS only (`set(dict_a)`, `set(dict_b)` are the key sets): whether a child
is added, removed or common is decided by `hasKey` on the other side and by nothing else - not by the `node_id` of the sliver
stored under the key, nor by the slivers' weak `__eq__` (name + node_id).  A child re-created under its old name (fresh
`node_id`) is therefore *common*, and its property changes are reported as modifications.  The extractor checks this shape of both
helpers (`Cfg.dictKeyOnly`); `Proofs/C17.lean`: `dict_select_by_key_only`, `dict_partition_by_key`. -/

/-- `_dict_diff(a, b)['added'].values()` : `{k: b[k] for k in set(b) - set(a)}` -/
def dictAdded (a b : List α) : List α := b.filter (fun x => !hasKey a (name x))

/-- `_dict_diff(a, b)['removed'].values()` : `{k: a[k] for k in set(a) - set(b)}` -/
def dictRemoved (a b : List α) : List α := a.filter (fun x => !hasKey b (name x))

/-- `_dict_common(a, b).values()` : `{k: a[k] for k in set(a) & set(b)}` -/
def dictCommon (a b : List α) : List α := a.filter (fun x => hasKey b (name x))

/-- the loop `for xA in common.values(): xB = other.get(xA.resource_name); flag = …; if flag != NONE: modified.append((xA, flag))`
    over an already computed list `l` of common elements -/
def modLoop (flag : α → α → Flags) (b : List α) : List α → List (String × Flags)
  | [] => []
  | x :: xs =>
    match get? b (name x) with
    | some y =>
      let f := flag x y
      if f = Flags.none then modLoop flag b xs else (name x, f) :: modLoop flag b xs
    | none => modLoop flag b xs     -- unreachable for common keys (`None.prop_diff` would raise)

/-- same loop when computing the flag can raise (`NodeSliver.diff`, SmartNIC descent) -/
def modLoopM (flag : α → α → Except String Flags) (b : List α) : List α → Except String (List (String × Flags))
  | [] => .ok []
  | x :: xs =>
    match get? b (name x) with
    | some y =>
      match flag x y with
      | .error e => .error e
      | .ok f =>
        match modLoopM flag b xs with
        | .error e => .error e
        | .ok r => .ok (if f = Flags.none then r else (name x, f) :: r)
    | none => modLoopM flag b xs

/-- what one dictionary level contributes to a `TopologyDiff` -/
structure Level where
  added : List String := []
  removed : List String := []
  modified : List (String × Flags) := []
deriving DecidableEq, Repr

/-- the three consecutive `if`s of every `diff` method:
    `if A and B: …_dict_diff…_dict_common…loop`, `if not A and B: added = all of B`, `if A and not B: removed = all of A` -/
def levelDiff (flag : α → α → Flags) (a b : Option (List α)) : Level :=
  match a, b with
  | some x, some y =>
    { added := (dictAdded x y).map name, removed := (dictRemoved x y).map name,
      modified := modLoop flag y (dictCommon x y) }
  | none, some y => { added := y.map name }
  | some x, none => { removed := x.map name }
  | none, none => {}

def levelDiffM (flag : α → α → Except String Flags) (a b : Option (List α)) : Except String Level :=
  match a, b with
  | some x, some y =>
    match modLoopM flag y (dictCommon x y) with
    | .error e => .error e
    | .ok m => .ok { added := (dictAdded x y).map name, removed := (dictRemoved x y).map name, modified := m }
  | none, some y => .ok { added := y.map name }
  | some x, none => .ok { removed := x.map name }
  | none, none => .ok {}

end Dict

/-- `TopologyDiff` (names only) -/
structure TDiff where
  addedNodes : List String := []
  removedNodes : List String := []
  addedComps : List String := []
  addedSvcs : List String := []
  addedIfs : List String := []
  removedComps : List String := []
  removedSvcs : List String := []
  removedIfs : List String := []
  modNodes : List (String × Flags) := []
  modComps : List (String × Flags) := []
  modSvcs : List (String × Flags) := []
  modIfs : List (String × Flags) := []
deriving DecidableEq, Repr

/-! ### the sliver trees -/

/-- a sub-interface (an `InterfaceSliver` whose own `interface_info` is never looked at) -/
structure Leaf (V : Type) where
  name : String
  props : Props V
deriving DecidableEq, Repr

/-- `InterfaceSliver`; `dedicated` = `get_type() == InterfaceType.DedicatedPort` -/
structure Iface (V : Type) where
  name : String
  props : Props V
  dedicated : Bool
  subs : Option (List (Leaf V))
deriving DecidableEq, Repr

/-- `NetworkServiceSliver` -/
structure Svc (V : Type) where
  name : String
  props : Props V
  ifs : Option (List (Iface V))
deriving DecidableEq, Repr

/-- `ComponentSliver`; `smart` = `get_type() == ComponentType.SmartNIC` -/
structure Comp (V : Type) where
  name : String
  props : Props V
  smart : Bool
  svcs : Option (List (Svc V))
deriving DecidableEq, Repr

/-- `NodeSliver` -/
structure Node (V : Type) where
  name : String
  props : Props V
  comps : Option (List (Comp V))
  svcs : Option (List (Svc V))
deriving DecidableEq, Repr

instance {V} : Named (Leaf V) := ⟨Leaf.name⟩
instance {V} : Named (Iface V) := ⟨Iface.name⟩
instance {V} : Named (Svc V) := ⟨Svc.name⟩
instance {V} : Named (Comp V) := ⟨Comp.name⟩

section Methods
variable {V : Type} [DecidableEq V]

/-- `self_modified`: `if self.prop_diff(other) != NONE: self_modified.append((self, flags))` -/
def selfMod (n : String) (a b : Props V) : List (String × Flags) :=
  if propDiff a b = Flags.none then [] else [(n, propDiff a b)]

/-- flag of a common sub-interface in `InterfaceSliver.diff`: `iA.prop_diff(iB)` -/
def leafFlag (x y : Leaf V) : Flags := propDiff x.props y.props

/-- `InterfaceSliver.diff` (the interface files *itself* under `modified.services`) -/
def ifaceDiff (a b : Iface V) : Option TDiff :=
  let sm := selfMod a.name a.props b.props
  let lv := levelDiff leafFlag a.subs b.subs
  if !sm.isEmpty || !lv.added.isEmpty || !lv.removed.isEmpty || !lv.modified.isEmpty then
    some { addedIfs := lv.added, removedIfs := lv.removed, modSvcs := sm, modIfs := lv.modified }
  else none

/-- flag of a common interface in `NetworkServiceSliver.diff`:
    `flag = iA.prop_diff(iB)`; for a DedicatedPort `sub_diff = iA.diff(iB)` and SUB_INTERFACES iff it exists and
    one of its added/removed/modified `interfaces` is non-empty -/
def ifaceFlag (x y : Iface V) : Flags :=
  let f := propDiff x.props y.props
  if x.dedicated then
    match ifaceDiff x y with
    | some d => if !d.addedIfs.isEmpty || !d.removedIfs.isEmpty || !d.modIfs.isEmpty then { f with sub := true } else f
    | none => f
  else f

/-- `NetworkServiceSliver.diff` -/
def svcDiff (a b : Svc V) : Option TDiff :=
  let sm := selfMod a.name a.props b.props
  let lv := levelDiff ifaceFlag a.ifs b.ifs
  if !sm.isEmpty || !lv.added.isEmpty || !lv.removed.isEmpty || !lv.modified.isEmpty then
    some { addedIfs := lv.added, removedIfs := lv.removed, modSvcs := sm, modIfs := lv.modified }
  else none

/-- `list(c.network_service_info.network_services.values())[0]` -/
def firstSvc (c : Comp V) : Except String (Svc V) :=
  match c.svcs with
  | none => .error "attribute"       -- 'NoneType' object has no attribute 'network_services'
  | some [] => .error "index"        -- list index out of range
  | some (s :: _) => .ok s

/-- flag of a common component in `NodeSliver.diff`: `cA.prop_diff(cB)`, and for a SmartNIC (type of `cA` only)
    SUB_INTERFACES iff the first services of both differ in any way -/
def compFlag (x y : Comp V) : Except String Flags :=
  let f := propDiff x.props y.props
  if x.smart then
    match firstSvc x with
    | .error e => .error e
    | .ok sx =>
      match firstSvc y with
      | .error e => .error e
      | .ok sy => .ok (if (svcDiff sx sy).isSome then { f with sub := true } else f)
  else .ok f

/-- flag of a common node-level service in `NodeSliver.diff`: `nsA.prop_diff(nsB)` only -/
def svcPropFlag (x y : Svc V) : Flags := propDiff x.props y.props

/-- `NodeSliver.diff` -/
def nodeDiff (a b : Node V) : Except String (Option TDiff) :=
  let sm := selfMod a.name a.props b.props
  match levelDiffM compFlag a.comps b.comps with
  | .error e => .error e
  | .ok cl =>
    let sl := levelDiff svcPropFlag a.svcs b.svcs
    if !cl.added.isEmpty || !cl.removed.isEmpty || !sl.removed.isEmpty || !sl.added.isEmpty ||
       !cl.modified.isEmpty || !sl.modified.isEmpty || !sm.isEmpty then
      .ok (some { addedComps := cl.added, addedSvcs := sl.added, removedComps := cl.removed, removedSvcs := sl.removed,
                  modNodes := sm, modComps := cl.modified, modSvcs := sl.modified })
    else .ok none

end Methods

/-! ## the same methods, read off the extracted table (`Cfg`) -/

def Flags.get (f : Flags) : FlagK → Bool
  | .labels => f.labels
  | .caps => f.caps
  | .ud => f.ud
  | .sub => f.sub

/-- `flag |= WhatsModifiedFlag.<k>` -/
def Flags.set (f : Flags) : FlagK → Flags
  | .labels => { f with labels := true }
  | .caps => { f with caps := true }
  | .ud => { f with ud := true }
  | .sub => { f with sub := true }

/-- `flag.value`: the members OR-ed together -/
def encodeC (vals : List (FlagK × Nat)) (f : Flags) : Nat :=
  vals.foldl (fun n e => if f.get e.1 then n ||| e.2 else n) 0

def pick {β : Type} (s : Side) (x y : β) : β :=
  match s with
  | .self => x
  | .other => y

def propGet {V : Type} (k : PropK) (p : Props V) : Option V :=
  match k with
  | .labels => p.labels
  | .caps => p.caps
  | .ud => p.ud

/-- `prop_diff`: `flags = NONE; for (getter, flag) in table: if self.getter() != other.getter(): flags |= flag` -/
def propDiffC {V : Type} [DecidableEq V] (t : List (PropK × FlagK)) (a b : Props V) : Flags :=
  t.foldl (fun f e => if propGet e.1 a ≠ propGet e.1 b then f.set e.2 else f) Flags.none

section DictC
variable {α : Type} [Named α]

def dictSub (k : DKey) (a b : List α) : List α :=
  match k with
  | .added => dictAdded a b
  | .removed => dictRemoved a b

/-- the three `if`s of one child dictionary, with the argument sides and branches the source has -/
def levelC (lc : LevelCfg) (flag : α → α → Flags) (a b : Option (List α)) : Level :=
  match a, b with
  | some x, some y =>
    { added := (dictSub lc.addedKey (pick lc.diffA x y) (pick lc.diffB x y)).map name,
      removed := (dictSub lc.removedKey (pick lc.diffA x y) (pick lc.diffB x y)).map name,
      modified := modLoop flag (pick lc.lookup x y) (dictCommon (pick lc.commonA x y) (pick lc.commonB x y)) }
  | none, some y => if lc.onlyOther then { added := y.map name } else {}
  | some x, none => if lc.onlySelf then { removed := x.map name } else {}
  | none, none => {}

def levelCM (lc : LevelCfg) (flag : α → α → Except String Flags) (a b : Option (List α)) : Except String Level :=
  match a, b with
  | some x, some y =>
    match modLoopM flag (pick lc.lookup x y) (dictCommon (pick lc.commonA x y) (pick lc.commonB x y)) with
    | .error e => .error e
    | .ok m =>
      .ok { added := (dictSub lc.addedKey (pick lc.diffA x y) (pick lc.diffB x y)).map name,
            removed := (dictSub lc.removedKey (pick lc.diffA x y) (pick lc.diffB x y)).map name, modified := m }
  | none, some y => .ok (if lc.onlyOther then { added := y.map name } else {})
  | some x, none => .ok (if lc.onlySelf then { removed := x.map name } else {})
  | none, none => .ok {}

/-- a child dictionary the method does not look at contributes nothing -/
def mLevel (m : MethodCfg) (c : Coll) (flag : α → α → Flags) (a b : Option (List α)) : Level :=
  match m.level c with
  | some lc => levelC lc flag a b
  | none => {}

def mLevelM (m : MethodCfg) (c : Coll) (flag : α → α → Except String Flags) (a b : Option (List α)) : Except String Level :=
  match m.level c with
  | some lc => levelCM lc flag a b
  | none => .ok {}

end DictC

/-- the collections a method has built, by name -/
def envN (lv : Coll → Level) : Part → List String
  | .added c => (lv c).added
  | .removed c => (lv c).removed
  | _ => []

def envM (sm : List (String × Flags)) (lv : Coll → Level) : Part → List (String × Flags)
  | .selfMod => sm
  | .modified c => (lv c).modified
  | _ => []

/-- `if <some collection of cond is non-empty>: return TopologyDiff(…) else: return None` -/
def assemble (m : MethodCfg) (en : Part → List String) (em : Part → List (String × Flags)) : Option TDiff :=
  if m.cond.any (fun p => !(en p).isEmpty || !(em p).isEmpty) then
    some { addedNodes := (slotParts m.added .nodes).flatMap en, addedComps := (slotParts m.added .components).flatMap en,
           addedSvcs := (slotParts m.added .services).flatMap en, addedIfs := (slotParts m.added .interfaces).flatMap en,
           removedNodes := (slotParts m.removed .nodes).flatMap en, removedComps := (slotParts m.removed .components).flatMap en,
           removedSvcs := (slotParts m.removed .services).flatMap en, removedIfs := (slotParts m.removed .interfaces).flatMap en,
           modNodes := (slotParts m.modified .nodes).flatMap em, modComps := (slotParts m.modified .components).flatMap em,
           modSvcs := (slotParts m.modified .services).flatMap em, modIfs := (slotParts m.modified .interfaces).flatMap em }
  else none

/-- names in one field of a result -/
def slotNames (d : TDiff) : Sect × Slot → List String
  | (.added, .nodes) => d.addedNodes
  | (.added, .components) => d.addedComps
  | (.added, .services) => d.addedSvcs
  | (.added, .interfaces) => d.addedIfs
  | (.removed, .nodes) => d.removedNodes
  | (.removed, .components) => d.removedComps
  | (.removed, .services) => d.removedSvcs
  | (.removed, .interfaces) => d.removedIfs
  | (.modified, .nodes) => d.modNodes.map Prod.fst
  | (.modified, .components) => d.modComps.map Prod.fst
  | (.modified, .services) => d.modSvcs.map Prod.fst
  | (.modified, .interfaces) => d.modIfs.map Prod.fst

def recOf (m : MethodCfg) (c : Coll) : Option RecCfg := (m.level c).bind (·.descend)

section MethodsC
variable {V : Type} [DecidableEq V]

def selfModC (cfg : Cfg) (n : String) (a b : Props V) : List (String × Flags) :=
  if propDiffC cfg.props a b = Flags.none then [] else [(n, propDiffC cfg.props a b)]

def leafFlagC (cfg : Cfg) (x y : Leaf V) : Flags := propDiffC cfg.props x.props y.props

def onlyIfs (l : Level) : Coll → Level
  | .ifs => l
  | _ => {}

/-- `InterfaceSliver.diff` -/
def ifaceDiffC (cfg : Cfg) (a b : Iface V) : Option TDiff :=
  let lv := onlyIfs (mLevel cfg.iface .ifs (leafFlagC cfg) a.subs b.subs)
  assemble cfg.iface (envN lv) (envM (selfModC cfg a.name a.props b.props) lv)

/-- flag of a common interface in `NetworkServiceSliver.diff`; `dedicated` = "the type is one of the kinds the method descends
    below" (resolved against the table when a tree is read, see `Drivers/C17.lean`) -/
def ifaceFlagC (cfg : Cfg) (x y : Iface V) : Flags :=
  let f := propDiffC cfg.props x.props y.props
  match recOf cfg.svc .ifs with
  | none => f
  | some r =>
    if (pick r.side x y).dedicated then
      match ifaceDiffC cfg x y with
      | some d => if r.tests.any (fun t => !(slotNames d t).isEmpty) then f.set r.flag else f
      | none => f
    else f

/-- `NetworkServiceSliver.diff` -/
def svcDiffC (cfg : Cfg) (a b : Svc V) : Option TDiff :=
  let lv := onlyIfs (mLevel cfg.svc .ifs (ifaceFlagC cfg) a.ifs b.ifs)
  assemble cfg.svc (envN lv) (envM (selfModC cfg a.name a.props b.props) lv)

def compFlagC (cfg : Cfg) (x y : Comp V) : Except String Flags :=
  let f := propDiffC cfg.props x.props y.props
  match recOf cfg.node .comps with
  | none => .ok f
  | some r =>
    if (pick r.side x y).smart then
      match firstSvc x with
      | .error e => .error e
      | .ok sx =>
        match firstSvc y with
        | .error e => .error e
        | .ok sy => .ok (if (svcDiffC cfg sx sy).isSome then f.set r.flag else f)
    else .ok f

def svcPropFlagC (cfg : Cfg) (x y : Svc V) : Flags := propDiffC cfg.props x.props y.props

def nodeLevels (cl sl : Level) : Coll → Level
  | .comps => cl
  | .svcs => sl
  | .ifs => {}

/-- `NodeSliver.diff` -/
def nodeDiffC (cfg : Cfg) (a b : Node V) : Except String (Option TDiff) :=
  match mLevelM cfg.node .comps (compFlagC cfg) a.comps b.comps with
  | .error e => .error e
  | .ok cl =>
    let lv := nodeLevels cl (mLevel cfg.node .svcs (svcPropFlagC cfg) a.svcs b.svcs)
    .ok (assemble cfg.node (envN lv) (envM (selfModC cfg a.name a.props b.props) lv))

end MethodsC

end FimVerif.Diff
