import FimVerif.Drivers.Proto
import FimVerif.Proofs.C15
import FimVerif.Proofs.C18
