import FimVerif.Drivers.Proto
import FimVerif.Proofs.C15
